import KaVerif.Model.Parser
/-
  Printers for parse trees: `renderMin` writes a tree with only the parentheses the precedence
  rules require, `renderFull` parenthesises every sub-expression.  Both produce token lists
  (`List Token`; whitespace between tokens is the lexer's business, C11).

  Binding levels, loosest to tightest (the number is the `level` of a node):
     0  e to <units>              (operand: level 1)
     1  a < b, a < b <= c         (at most two comparison operators; operands: level 2)
     2  + - ±      left-assoc     (left operand level 2, right operand level 3)
     3  * / %      left-assoc
     4  ^          left-assoc     (operands: level 5)
     5  "string"  #instant#  {array}  {comprehension}  [interval]   (operands of ^ only)
     6  a .. b     non-assoc      (operands: level 7)
     7  x <units>                 (operand: level 8)
     8  +x  -x     a single sign  (operand: level 9)
     9  x!                        (operand: level 10)
    10  number, variable, f(args), ( expression )
  One interaction is not a precedence rule but a property of the unit grammar: a unit name may
  carry its own exponent (`m^2`), so a `^` that directly follows a unit name *without* exponent
  is read as part of the unit.  `renderMin` therefore parenthesises a left operand of `^` whose
  text ends in such a unit name (`(3 m)^2`), see `Ast.endsBare`.

  Also here: `Ast.WF`, the trees the grammar can produce.  No Mathlib.
-/
namespace KaVerif.Parser

def Ast.level : Ast → Nat
  | .convert .. => 0
  | .cmp1 .. | .cmp2 .. => 1
  | .bin o _ _ => if isSumOp o then 2 else if isProdOp o then 3 else 4
  | .str _ | .inst _ | .array _ | .compr .. | .interval .. => 5
  | .range .. => 6
  | .quantity .. => 7
  | .sign .. => 8
  | .fact _ => 9
  | .num _ | .var _ | .call .. => 10
  | .assign .. | .stmts _ => 0

/-- Level of the operator itself (= level of the left operand; the right operand is one tighter). -/
def PBin.level (o : PBin) : Nat := if isSumOp o then 2 else if isProdOp o then 3 else 4

/-! ### unit signatures -/

def rInt (e : Int) : List PTok :=
  if e < 0 then [.op .sub, .num (.int (-e))] else [.num (.int e)]

/-- exponent 1 is written as the bare name. -/
def rUnit (u : String × Int) : List PTok :=
  if u.2 = 1 then [.var u.1] else .var u.1 :: .op .pow :: rInt u.2

def rUnits : List (String × Int) → List PTok
  | [] => []
  | u :: us => rUnit u ++ rUnits us

def rSig (s : UnitSig) : List PTok :=
  match s.inv with
  | [] => rUnits s.units
  | i :: is => rUnits s.units ++ .p .bar :: rUnits (i :: is)

def lastBareL : List (String × Int) → Bool
  | [] => false
  | [u] => u.2 == 1
  | _ :: u :: us => lastBareL (u :: us)

/-- the text of the signature ends in a unit name without exponent. -/
def UnitSig.lastBare (s : UnitSig) : Bool :=
  match s.inv with
  | [] => lastBareL s.units
  | i :: is => lastBareL (i :: is)

/-- The minimal text of `t` ends in a unit name without exponent (so a following `^` would be
    read as that unit's exponent). -/
def Ast.endsBare : Ast → Bool
  | .quantity _ s => s.lastBare
  | .range _ (.quantity _ s) => s.lastBare
  | .bin .pow _ (.quantity _ s) => s.lastBare
  | .bin .pow _ (.range _ (.quantity _ s)) => s.lastBare
  | _ => false

/-! ### expressions -/

def paren (ts : List PTok) : List PTok := .p .lpar :: ts ++ [.p .rpar]

/-- `bare = true`: no parentheses. -/
def wrap (bare : Bool) (ts : List PTok) : List PTok := if bare then ts else paren ts

def startsAsg : List PTok → Bool
  | .var _ :: .cmp .asg :: _ => true
  | _ => false

def startsGen : List PTok → Bool
  | .var _ :: .cmp .elem :: _ => true
  | _ => false

/-- may the left operand of `o` be written without parentheses? -/
def leftBare (o : PBin) (l : Ast) : Bool :=
  decide (o.level ≤ l.level) && !(o == .pow && l.endsBare)

mutual
/-- Text of `t` itself (no outer parentheses).  `full x = true`: every occurrence of the
    sub-expression `x` is parenthesised even where the rules do not require it; with
    `full = fun _ => false` only the required parentheses are written, with `fun _ => true`
    every sub-expression is parenthesised. -/
def rNat (full : Ast → Bool) : Ast → List PTok
  | .num v => [.num v]
  | .str s => [.str s]
  | .inst s => [.inst s]
  | .var n => [.var n]
  | .bin o l r =>
      wrap (!full l && leftBare o l) (rNat full l)
        ++ .op o :: wrap (!full r && decide (o.level + 1 ≤ r.level)) (rNat full r)
  | .sign neg x => .op (if neg then .sub else .add) :: wrap (!full x && decide (9 ≤ x.level)) (rNat full x)
  | .fact x => wrap (!full x && decide (10 ≤ x.level)) (rNat full x) ++ [.p .bang]
  | .range lo hi =>
      wrap (!full lo && decide (7 ≤ lo.level)) (rNat full lo)
        ++ .p .dots :: wrap (!full hi && decide (7 ≤ hi.level)) (rNat full hi)
  | .interval lo hi =>
      .p .lbrack :: wrap (!full lo) (rNat full lo) ++ .p .comma :: wrap (!full hi) (rNat full hi) ++ [.p .rbrack]
  | .cmp1 o a b =>
      wrap (!full a && decide (2 ≤ a.level)) (rNat full a)
        ++ .cmp o :: wrap (!full b && decide (2 ≤ b.level)) (rNat full b)
  | .cmp2 o1 o2 a b c =>
      wrap (!full a && decide (2 ≤ a.level)) (rNat full a)
        ++ .cmp o1 :: wrap (!full b && decide (2 ≤ b.level)) (rNat full b)
        ++ .cmp o2 :: wrap (!full c && decide (2 ≤ c.level)) (rNat full c)
  | .call name args kws =>
      .var name :: .p .lpar :: (rTail full args ++ rKwTail full kws).drop 1 ++ [.p .rpar]
  | .quantity x s => wrap (!full x && decide (8 ≤ x.level)) (rNat full x) ++ rSig s
  | .convert e s => wrap (!full e && decide (1 ≤ e.level)) (rNat full e) ++ .p .to :: rSig s
  | .array xs => .p .lbrace :: (rTail full xs).drop 1 ++ [.p .rbrace]
  | .compr body gens conds =>
      .p .lbrace :: wrap (!full body) (rNat full body)
        ++ .p .colon :: (rGenTail full gens ++ rCondTail full conds).drop 1 ++ [.p .rbrace]
  | .assign n e => .var n :: .cmp .asg :: wrap (!full e) (rNat full e)
  | .stmts ss => (rStmtTail full ss).drop 1
/-- `, e` for every element. -/
def rTail (full : Ast → Bool) : List Ast → List PTok
  | [] => []
  | x :: xs => .p .comma :: wrap (!full x) (rNat full x) ++ rTail full xs
/-- `, name : e` for every keyword argument. -/
def rKwTail (full : Ast → Bool) : List (String × Ast) → List PTok
  | [] => []
  | (n, x) :: xs => .p .comma :: .var n :: .p .colon :: wrap (!full x) (rNat full x) ++ rKwTail full xs
/-- `, name in e` for every generator. -/
def rGenTail (full : Ast → Bool) : List (String × Ast) → List PTok
  | [] => []
  | (n, x) :: xs => .p .comma :: .var n :: .cmp .elem :: wrap (!full x) (rNat full x) ++ rGenTail full xs
/-- `, e` for every condition; a condition whose text would begin `name in` is parenthesised. -/
def rCondTail (full : Ast → Bool) : List Ast → List PTok
  | [] => []
  | x :: xs =>
      .p .comma :: wrap (!full x && !startsGen (rNat full x)) (rNat full x) ++ rCondTail full xs
/-- `; statement` for every statement; an expression statement whose text would begin `name =`
    is parenthesised. -/
def rStmtTail (full : Ast → Bool) : List Ast → List PTok
  | [] => []
  | .assign n e :: xs => .p .semi :: .var n :: .cmp .asg :: wrap (!full e) (rNat full e) ++ rStmtTail full xs
  | x :: xs =>
      .p .semi :: wrap (!full x && !startsAsg (rNat full x)) (rNat full x) ++ rStmtTail full xs
end

/-- `t` written as an operand of binding level `ℓ`. -/
def rAt (full : Ast → Bool) (ℓ : Nat) (t : Ast) : List PTok :=
  wrap (!full t && decide (ℓ ≤ t.level)) (rNat full t)

/-! ### well-formed trees = the trees the grammar produces -/

def numOK (v : Num) : Bool :=
  match Num.simplify v with
  | .ok _ => true
  | .error _ => false

def sigOK (s : UnitSig) : Bool := !s.units.isEmpty

/-- one comparison operator survives `make_comparison_node` iff it is not backward. -/
def cmp1OK (o : PCmp) : Bool := !o.backward
/-- a chain with a backward and no forward operator is flipped, so it is never produced. -/
def cmp2OK (o1 o2 : PCmp) : Bool := !((o1.backward || o2.backward) && !(o1.forward || o2.forward))

mutual
/-- `t` is an expression tree the grammar can produce. -/
def wfE : Ast → Bool
  | .num v => numOK v
  | .str _ | .inst _ | .var _ => true
  | .bin _ l r => wfE l && wfE r
  | .sign _ x => wfE x
  | .fact x => wfE x
  | .range lo hi => wfE lo && wfE hi
  | .interval lo hi => wfE lo && wfE hi
  | .cmp1 o a b => cmp1OK o && wfE a && wfE b
  | .cmp2 o1 o2 a b c => cmp2OK o1 o2 && wfE a && wfE b && wfE c
  | .call _ args kws => wfEs args && wfKs kws
  | .quantity x s => wfE x && sigOK s
  | .convert e s => wfE e && sigOK s
  | .array xs => wfEs xs
  | .compr body gens conds => wfE body && wfKs gens && wfEs conds && !(gens.isEmpty && conds.isEmpty)
  | .assign .. | .stmts _ => false
def wfEs : List Ast → Bool
  | [] => true
  | x :: xs => wfE x && wfEs xs
def wfKs : List (String × Ast) → Bool
  | [] => true
  | (_, x) :: xs => wfE x && wfKs xs
end

/-- a statement: an assignment of an expression, or an expression. -/
def wfS : Ast → Bool
  | .assign _ e => wfE e
  | t => wfE t

/-- A program tree the grammar can produce: a STATEMENTS node of statements. -/
def Ast.WF : Ast → Prop
  | .stmts ss => ∀ s ∈ ss, wfS s = true
  | _ => False

instance : DecidablePred Ast.WF := fun t =>
  match t with
  | .stmts ss => inferInstanceAs (Decidable (∀ s ∈ ss, wfS s = true))
  | .num _ | .str _ | .inst _ | .var _ | .bin .. | .sign .. | .fact _ | .range .. | .interval ..
  | .cmp1 .. | .cmp2 .. | .call .. | .quantity .. | .convert .. | .array _ | .compr .. | .assign .. =>
      isFalse (fun h => h)

def toTokens (ts : List PTok) : List Token := ts.map PTok.toToken

/-- no redundant parentheses -/
def noExtra : Ast → Bool := fun _ => false
/-- parentheses around every sub-expression -/
def allExtra : Ast → Bool := fun _ => true

@[simp] theorem noExtra_apply (t : Ast) : noExtra t = false := rfl
@[simp] theorem allExtra_apply (t : Ast) : allExtra t = true := rfl

/-- Text of a program tree with the required parentheses plus redundant ones around every
    occurrence of a sub-expression selected by `extra`. -/
def renderWith (extra : Ast → Bool) (t : Ast) : List Token := toTokens (rNat extra t)

/-- Minimal-parentheses text of a program tree, as tokens. -/
def renderMin (t : Ast) : List Token := renderWith noExtra t

/-- Fully parenthesised text of a program tree, as tokens. -/
def renderFull (t : Ast) : List Token := renderWith allExtra t

end KaVerif.Parser
