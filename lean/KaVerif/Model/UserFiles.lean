/-
  Model of Ka's optional per-user files (property C19, shared with C20):
    src/ka/config.py      read_config, get
    src/ka/currency.py    load_currency_data, parse_currency_data
    src/ka/interpret.py   load_history, readline_load_history, save_history
    src/ka/units.py       base-currency selection, the currency registration loop, register_unit's assertions
    src/ka/cli.py         the start-up order

  Import-free.  A Python `str` is the list of its code points (`Str = List Nat`), so every string
  operation is a plain structural recursion and generated tables are kernel-friendly.

  What the operating system and CPython answer is an explicit input of the model:
    * `FState`   the state of a path (missing / directory / cannot be opened / opens but cannot be read / bytes);
    * `Py`       the decoder (`errors="replace"` and strict) and `float()` — abstract in the theorems,
                 instantiated with hand-written CPython-faithful versions (`Py.cpython`) in the driver;
    * `Site → List Handler`  the `try/except` structure, GENERATED from the source (`Gen/Caught.lean`): for every
                 call that can raise, the handlers of the enclosing `try`.  An exception raised at a site is
                 caught iff one of these handlers names a class that covers it; otherwise it escapes (`Except.error`),
                 which at the top level is a traceback.
-/
namespace KaVerif.UserFiles

/-- a Python `str`: its code points -/
abbrev Str := List Nat

def cNL : Nat := 10
def cCR : Nat := 13
def cEq : Nat := 61
def cComma : Nat := 44
def cUnderscore : Nat := 95
def cPlus : Nat := 43
def cMinus : Nat := 45

/-! ## CPython string primitives -/

/-- code points with `str.isspace()`; equality with the running CPython's table is checked in `Props/C19.lean` -/
def pySpace : List Nat :=
  [9, 10, 11, 12, 13, 28, 29, 30, 31, 32, 133, 160, 5760, 8192, 8193, 8194, 8195, 8196, 8197, 8198, 8199, 8200,
   8201, 8202, 8232, 8233, 8239, 8287, 12288]

def isSpace (c : Nat) : Bool := pySpace.contains c

def lstrip : Str → Str
  | [] => []
  | c :: cs => if isSpace c then lstrip cs else c :: cs

def rstrip (s : Str) : Str := (lstrip s.reverse).reverse

/-- `s.strip()` -/
def strip (s : Str) : Str := rstrip (lstrip s)

/-- `s.split(sep, 1)`: `none` when `sep` does not occur (a one-element list in Python) -/
def splitFirst (sep : Nat) : Str → Option (Str × Str)
  | [] => none
  | c :: cs =>
    if c = sep then some ([], cs)
    else match splitFirst sep cs with
      | none => none
      | some (a, b) => some (c :: a, b)

/-- `s.split(sep)` for a one-character separator (never the empty list) -/
def splitAll (sep : Nat) : Str → List Str
  | [] => [[]]
  | c :: cs =>
    if c = sep then [] :: splitAll sep cs
    else match splitAll sep cs with
      | [] => [[c]]
      | p :: ps => (c :: p) :: ps

/-- text-mode universal newlines: `\r\n` and a lone `\r` are read as `\n` -/
def translateNewlinesAux : Bool → Str → Str      -- the flag: the previous character was a `\r`
  | _, [] => []
  | prevCR, c :: cs =>
    if c = cCR then cNL :: translateNewlinesAux true cs
    else if c = cNL then (if prevCR then translateNewlinesAux false cs else cNL :: translateNewlinesAux false cs)
    else c :: translateNewlinesAux false cs

def translateNewlines (s : Str) : Str := translateNewlinesAux false s

/-- `f.readlines()`: split after every `\n`, line ends kept -/
def readlines : Str → List Str
  | [] => []
  | c :: cs =>
    if c = cNL then [c] :: readlines cs
    else match readlines cs with
      | [] => [[c]]
      | l :: ls => (c :: l) :: ls

/-- code points of every Unicode decimal digit ZERO (the nine that follow are 1..9); equality with the running
    CPython's table is checked in `Props/C19.lean` -/
def pyDecimalZeros : List Nat :=
  [48, 1632, 1776, 1984, 2406, 2534, 2662, 2790, 2918, 3046, 3174, 3302, 3430, 3558, 3664, 3792, 3872, 4160,
   4240, 6112, 6160, 6470, 6608, 6784, 6800, 6992, 7088, 7232, 7248, 42528, 43216, 43264, 43472, 43504,
   43600, 44016, 65296, 66720, 68912, 69734, 69872, 69942, 70096, 70384, 70736, 70864, 71248, 71360, 71472,
   71904, 72016, 72784, 73040, 73120, 73552, 92768, 92864, 93008, 120782, 120792, 120802, 120812, 120822,
   123200, 123632, 124144, 125264, 130032]

/-- `unicodedata.decimal(c)` -/
def digitVal (c : Nat) : Option Nat :=
  pyDecimalZeros.findSome? (fun z => if z ≤ c ∧ c < z + 10 then some (c - z) else none)

/-- digits with single underscores strictly between digits (`1_000`), most significant first -/
def digitsValue : Str → Nat → Bool → Option Nat
  | [], acc, prevDigit => if prevDigit then some acc else none
  | c :: cs, acc, prevDigit =>
    if c = cUnderscore then (if prevDigit then digitsValue cs acc false else none)
    else match digitVal c with
      | some d => digitsValue cs (acc * 10 + d) true
      | none => none

/-- Python `int(s)` for a `str` (base 10): surrounding whitespace, one optional sign, decimal digits of any
    script, single underscores between digits.  `none` = `ValueError`. -/
def pyInt (s : Str) : Option Int :=
  match strip s with
  | [] => none
  | c :: r =>
    if c = cPlus then (digitsValue r 0 false).map Int.ofNat
    else if c = cMinus then (digitsValue r 0 false).map (fun n => - Int.ofNat n)
    else (digitsValue (c :: r) 0 false).map Int.ofNat

/-! ## Exceptions and the generated `try/except` structure -/

/-- the `Exception` subclasses the operations of these functions can raise -/
inductive Exn
  | isADirectory | notADirectory | permission | fileNotFound | fileExists | osOther
  | unicodeDecode | unicodeEncode | valueError | typeError | assertion
  deriving DecidableEq, Repr, Inhabited

/-- the classes an `except` clause of the modelled functions may name -/
inductive ExnClass
  | baseException | exception | osError | isADirectoryError | notADirectoryError | permissionError
  | fileNotFoundError | valueError | unicodeError | unicodeDecodeError | typeError | assertionError
  deriving DecidableEq, Repr

def Exn.isOS : Exn → Bool
  | .isADirectory | .notADirectory | .permission | .fileNotFound | .fileExists | .osOther => true
  | _ => false

def Exn.isUnicode : Exn → Bool
  | .unicodeDecode | .unicodeEncode => true
  | _ => false

/-- `issubclass(type(e), cls)` -/
def covers : ExnClass → Exn → Bool
  | .baseException, _ => true
  | .exception, _ => true
  | .osError, e => e.isOS
  | .isADirectoryError, e => e == .isADirectory
  | .notADirectoryError, e => e == .notADirectory
  | .permissionError, e => e == .permission
  | .fileNotFoundError, e => e == .fileNotFound
  | .valueError, e => e == .valueError || e.isUnicode
  | .unicodeError, e => e.isUnicode
  | .unicodeDecodeError, e => e == .unicodeDecode
  | .typeError, e => e == .typeError
  | .assertionError, e => e == .assertion

inductive PrintKw | file | end_ | sep | flush
  deriving DecidableEq, Repr

/-- how an `except` body ends -/
inductive Action | fallthrough | ret | cont | reraise
  deriving DecidableEq, Repr

/-- one `except` clause: the classes it names (`none` = bare `except:`), the keyword names of every `print`
    call in its body, whether every `print` targets `sys.stderr` (or the caller's `error_out`), how it ends -/
structure Handler where
  classes : Option (List ExnClass)
  printKws : List (List PrintKw)
  stderrOnly : Bool
  action : Action
  deriving Repr

def Handler.catches (h : Handler) (e : Exn) : Bool :=
  match h.classes with
  | none => true
  | some cs => cs.any (covers · e)

/-- is an exception raised under a `try` with these handlers caught? (`[]` = no enclosing `try`) -/
def caught (hs : List Handler) (e : Exn) : Bool := hs.any (·.catches e)

/-- the call sites that can raise -/
inductive Site
  | cfgOpen | cfgReadlines | cfgInt
  | curOpen | curRead | curParse | curDefaultParse | parseFloat
  | histExists | histOpen | histReadlines | addHistory
  | saveGetPath | saveEnabled | saveExists | saveOpenAppend | saveWriteAppend | saveMakedirs | saveOpenNew | saveWriteNew
  deriving DecidableEq, Repr

abbrev Guards := Site → List Handler

/-- result of a modelled function: a value, or an exception that escaped it -/
abbrev Res := Except Exn

/-! ## File-system states and the CPython functions that stay abstract -/

inductive FState
  | missing                     -- `os.path.exists` is False: absent, dangling symlink, a parent that is a regular file
  | dir                         -- exists, is a directory
  | unopenable                  -- exists, is a regular file, `open` raises PermissionError
  | unreadable                  -- `open` succeeds, reading raises OSError (EIO …)
  | bytes (b : List UInt8)      -- a readable regular file with this content
  deriving Repr

def FState.pathExists : FState → Bool
  | .missing => false
  | _ => true

def FState.isFile : FState → Bool
  | .missing | .dir => false
  | _ => true

/-- a Python `float` -/
inductive Rate
  | fin (q : Rat)
  | inf (negative : Bool)
  | nan
  deriving DecidableEq, Repr

/-- `r > 0` -/
def Rate.pos : Rate → Bool
  | .fin q => decide (0 < q)
  | .inf negative => !negative
  | .nan => false

/-- CPython services the model takes as given -/
structure Py where
  /-- `bytes.decode("utf-8", errors="replace")` -/
  decodeReplace : List UInt8 → Str
  /-- `bytes.decode("utf-8")`, `none` = UnicodeDecodeError -/
  decodeStrict : List UInt8 → Option Str
  /-- `float(s)`, `none` = ValueError -/
  readRate : Str → Option Rate
  /-- `unicodedata.normalize("NFKD", s)` -/
  nfkd : Str → Str

/-! ## config.py -/

structure CfgProp where
  name : Str
  default : Str
  num : Bool
  boolean : Bool
  deriving DecidableEq, Repr

inductive CfgVal
  | str (s : Str)
  | int (n : Int)
  | bool (b : Bool)
  deriving DecidableEq, Repr

/-- the module-level `CONFIG` dict (insertion-ordered) -/
abbrev Config := List (Str × CfgVal)

/-- `CONFIG[k] = v` -/
def Config.set : Config → Str → CfgVal → Config
  | [], k, v => [(k, v)]
  | (k', v') :: r, k, v => if k' = k then (k, v) :: r else (k', v') :: Config.set r k v

/-- `CONFIG.get(k)` -/
def Config.get? : Config → Str → Option CfgVal
  | [], _ => none
  | (k', v') :: r, k => if k' = k then some v' else Config.get? r k

inductive Warning
  | expectInt (name : Str)
  | expectBool (name : Str)
  | unknownVar (name : Str)
  | couldNotOpen
  | couldNotRead
  | currencyFallback
  | historyLoad (e : Exn)
  | historySave (e : Exn)
  deriving DecidableEq, Repr

def sTrue : Str := [116, 114, 117, 101]
def sFalse : Str := [102, 97, 108, 115, 101]

/-- `next((prop for prop in props if prop.name == name), None)` -/
def lookupProp (props : List CfgProp) (name : Str) : Option CfgProp :=
  props.find? (fun p => p.name == name)

inductive LineResult
  | skip
  | set (k : Str) (v : CfgVal)
  | warn (w : Warning)
  | crash (e : Exn)
  deriving DecidableEq, Repr

/-- the body of `for line in lines:` in `read_config` -/
def processLine (G : Guards) (props : List CfgProp) (line : Str) : LineResult :=
  -- items = line.split("=", 1); if len(items) < 2: continue
  match splitFirst cEq line with
  | none => .skip
  | some (a, b) =>
    -- name, val = map(lambda x: x.strip(), items)
    let name := strip a
    let val := strip b
    match lookupProp props name with
    | some prop =>
      -- if prop.num: try: val = int(val) except ValueError: warn; continue
      let afterNum : Except LineResult CfgVal :=
        if prop.num then
          match pyInt val with
          | some n => .ok (.int n)
          | none =>
            if caught (G .cfgInt) .valueError then .error (.warn (.expectInt name))
            else .error (.crash .valueError)
        else .ok (.str val)
      match afterNum with
      | .error r => r
      | .ok v =>
        -- if prop.boolean: "true" / "false" / warn; continue
        if prop.boolean then
          if v = .str sTrue then .set name (.bool true)
          else if v = .str sFalse then .set name (.bool false)
          else .warn (.expectBool name)
        else .set name v
    | none => .warn (.unknownVar name)

/-- the `for line in lines` loop: the final `CONFIG` and the warnings in order -/
def readConfigLines (G : Guards) (props : List CfgProp) : List Str → Config → Res (Config × List Warning)
  | [], c => .ok (c, [])
  | l :: ls, c =>
    match processLine G props l with
    | .skip => readConfigLines G props ls c
    | .set k v => readConfigLines G props ls (c.set k v)
    | .warn w =>
      match readConfigLines G props ls c with
      | .ok (c', ws) => .ok (c', w :: ws)
      | .error e => .error e
    | .crash e => .error e

/-- `read_config` on the decoded text of the file -/
def readConfigText (G : Guards) (props : List CfgProp) (text : Str) (c : Config) : Res (Config × List Warning) :=
  readConfigLines G props (readlines text) c

/-- `read_config(path)` on a path in state `st`, starting from the current `CONFIG` -/
def readConfigFile (G : Guards) (py : Py) (props : List CfgProp) (st : FState) (c : Config) :
    Res (Config × List Warning) :=
  -- if not (os.path.exists(path) and os.path.isfile(path)): return
  if !(st.pathExists && st.isFile) then .ok (c, [])
  else match st with
    | .unopenable =>      -- f = open(path, "r", errors="replace")  raises
      if caught (G .cfgOpen) .permission then .ok (c, [.couldNotOpen]) else .error .permission
    | .unreadable =>      -- lines = f.readlines()  raises
      if caught (G .cfgReadlines) .osOther then .ok (c, [.couldNotRead]) else .error .osOther
    | .bytes b => readConfigText G props (translateNewlines (py.decodeReplace b)) c
    | _ => .ok (c, [])

/-- `ka.config.get(prop)` for a string-valued property -/
def getStr (props : List CfgProp) (c : Config) (key : Str) : Str :=
  match c.get? key with
  | some (.str s) => s
  | _ => match lookupProp props key with
    | some p => p.default
    | none => []

/-- `ka.config.get(prop)` for a boolean property -/
def getBool (c : Config) (key : Str) (dflt : Bool) : Bool :=
  match c.get? key with
  | some (.bool b) => b
  | _ => dflt

/-! ## currency.py -/

structure Cur where
  symbol : Str
  name : Str
  rate : Rate
  deriving DecidableEq, Repr

abbrev Table := List Cur

/-- the `for c in cs` loop of `parse_currency_data` over the non-blank rows:
    `ok none` = `return None` (a short row), `error valueError` = `float()` failed -/
def parseRows (readRate : Str → Option Rate) : List Str → Res (Option Table)
  | [] => .ok (some [])
  | l :: ls =>
    match splitAll cComma l with
    | sym :: name :: rate :: _ =>
      match readRate rate with
      | none => .error .valueError
      | some r =>
        match parseRows readRate ls with
        | .ok (some t) => .ok (some (⟨sym, name, r⟩ :: t))
        | other => other
    | _ => .ok none

/-- `parse_currency_data(s)` -/
def parseCurrencyData (readRate : Str → Option Rate) (s : Str) : Res (Option Table) :=
  let rows := (splitAll cNL s).filter (fun line => strip line != [])
  match parseRows readRate rows with
  | .ok (some []) => .ok none          -- `return result if result else None`
  | r => r

/-- `load_currency_data()` with the configured path in state `st`:
    the table (`none` = the function returned `None`), whether it is the file's table, the warnings -/
def loadCurrencyData (G : Guards) (py : Py) (defaultText : Str) (st : FState) :
    Res (Option Table × Bool × List Warning) :=
  -- data = parse_currency_data(DEFAULT_CURRENCY_DATA)      (outside every try)
  let fallback (ws : List Warning) : Res (Option Table × Bool × List Warning) :=
    match parseCurrencyData py.readRate defaultText with
    | .ok t => .ok (t, false, ws)
    | .error e => .error e
  if st.pathExists then
    -- try: with open(path) as f: data = parse_currency_data(f.read())
    let body : Except (Site × Exn) (Option Table) :=
      match st with
      | .missing => .ok none
      | .dir => .error (.curOpen, .isADirectory)
      | .unopenable => .error (.curOpen, .permission)
      | .unreadable => .error (.curRead, .osOther)
      | .bytes b =>
        match py.decodeStrict b with
        | none => .error (.curRead, .unicodeDecode)
        | some s =>
          match parseCurrencyData py.readRate (translateNewlines s) with
          | .ok t => .ok t
          | .error e => .error (.curParse, e)
    match body with
    | .ok (some t) => .ok (some t, true, [])
    | .ok none => fallback []
    | .error (site, e) =>
      -- except Exception: print("Failed to parse currency data, falling back to default...", file=sys.stderr)
      if caught (G site) e then fallback [.currencyFallback] else .error e
  else fallback []

/-! ## units.py: base currency and registration -/

def hasCurrency (sym : Str) (t : Table) : Bool := t.any (fun c => c.symbol == sym)

/-- the `BASE_CURRENCY` selection: the configured code if the table has it, else the default one if the table
    has it, else `None` (no cash dimension at all) -/
def baseCurrency (configured dflt : Str) (t : Table) : Option Str :=
  if hasCurrency configured t then some configured
  else if hasCurrency dflt t then some dflt
  else none

/-- `NAME_TO_UNIT` / `SYMBOL_TO_UNIT` key sets and the currency units registered so far:
    (registered symbol, registered name, the row it came from) -/
structure Reg where
  names : List Str
  syms : List Str
  units : List (Str × Str × Cur)
  deriving Repr

def sPlural : Str := [115]
def noPlural : Str := [110, 111, 112, 108, 117, 114, 97, 108] /- "noplural" -/

/-- `register_unit(sym, name, "cash", CASH, multiple=mul)` with its three assertions -/
def registerUnit (r : Reg) (sym name : Str) (row : Cur) : Res Reg :=
  if r.names.contains name then .error .assertion            -- assert singular_name not in NAME_TO_UNIT
  else if r.syms.contains sym then .error .assertion         -- assert symbol not in SYMBOL_TO_UNIT
  else
    let names1 := name :: r.names
    let plural := name ++ sPlural
    if plural = noPlural then .ok ⟨names1, sym :: r.syms, r.units ++ [(sym, name, row)]⟩
    else if names1.contains plural then .error .assertion    -- assert plural_name not in NAME_TO_UNIT
    else .ok ⟨plural :: names1, sym :: r.syms, r.units ++ [(sym, name, row)]⟩

def lookupStr (k : Str) : List (Str × Str) → Option Str
  | [] => none
  | (a, b) :: r => if a = k then some b else lookupStr k r

/-- the tail of one iteration once `sym` and `name` are chosen: the clash guard, `register_unit`, and the
    special sign (`$ € £ ¥`) with its own guard -/
def registerGuarded (specialSymbols : List (Str × Str)) (r : Reg) (sym name : Str) (c : Cur) : Res Reg :=
  if r.names.contains name || r.names.contains (name ++ sPlural) || r.syms.contains sym then .ok r
  else
    match registerUnit r sym name c with
    | .error e => .error e
    | .ok r1 =>
      match lookupStr sym specialSymbols with
      | none => .ok r1
      | some sp =>
        if r1.names.contains sp || r1.names.contains (sp ++ sPlural) || r1.syms.contains sp then .ok r1
        else registerUnit r1 sp sp c

def isAsciiAlpha (c : Nat) : Bool := (65 ≤ c && c ≤ 90) || (97 ≤ c && c ≤ 122)
def isAsciiAlnum (c : Nat) : Bool := isAsciiAlpha c || (48 ≤ c && c ≤ 57)

/-- `typable_name(name, fallback)`: NFKD-decompose, keep the ASCII letters, digits and `_`;
    the fallback when nothing is left or the first character is not a letter -/
def typableName (nfkd : Str → Str) (name fallback : Str) : Str :=
  let cleaned := (nfkd name).filter (fun ch => ch < 128 && (isAsciiAlnum ch || ch = cUnderscore))
  match cleaned with
  | [] => fallback
  | c :: _ => if isAsciiAlpha c then cleaned else fallback

/-- one iteration of `for c in CURRENCY_DATA:` -/
def registerRow (nfkd : Str → Str) (specialNames specialSymbols : List (Str × Str)) (r : Reg) (c : Cur) : Res Reg :=
  if !c.rate.pos then .ok r                                               -- corrupt entry
  else
    let cname := typableName nfkd c.name c.symbol
    if r.names.contains cname && r.syms.contains c.symbol then .ok r      -- both clash
    else
      let name := if r.names.contains cname then c.symbol else cname
      let sym := if r.syms.contains c.symbol then cname else c.symbol
      let name := match lookupStr sym specialNames with
        | some n => n
        | none => name
      registerGuarded specialSymbols r sym name c

def registerAll (nfkd : Str → Str) (specialNames specialSymbols : List (Str × Str)) : Reg → Table → Res Reg
  | r, [] => .ok r
  | r, c :: cs =>
    match registerRow nfkd specialNames specialSymbols r c with
    | .error e => .error e
    | .ok r1 => registerAll nfkd specialNames specialSymbols r1 cs

/-! ## interpret.py: history -/

/-- `load_history()`: the lines and the warnings -/
def loadHistory (G : Guards) (py : Py) (enabled : Bool) (st : FState) : Res (List Str × List Warning) :=
  if enabled then
    let body : Except (Site × Exn) (List Str) :=
      match st with
      | .missing => .ok []
      | .dir => .error (.histOpen, .isADirectory)
      | .unopenable => .error (.histOpen, .permission)
      | .unreadable => .error (.histReadlines, .osOther)
      | .bytes b =>
        match py.decodeStrict b with
        | none => .error (.histReadlines, .unicodeDecode)
        | some s => .ok (((readlines (translateNewlines s)).map strip).filter (fun l => l.length > 0))
    match body with
    | .ok ls => .ok (ls, [])
    | .error (site, e) => if caught (G site) e then .ok ([], [.historyLoad e]) else .error e
  else .ok ([], [])

/-- `readline_load_history()`: `readline.add_history` refuses a line with a NUL character (ValueError) -/
def readlineLoadHistory (G : Guards) : List Str → Res (List Str)
  | [] => .ok []
  | l :: ls =>
    if (strip l).contains 0 then
      if caught (G .addHistory) .valueError then readlineLoadHistory G ls else .error .valueError
    else match readlineLoadHistory G ls with
      | .ok added => .ok (strip l :: added)
      | .error e => .error e

/-- what the operating system answers to each request `save_history` makes (`none` = success) -/
structure SaveOS where
  pathExists : Bool
  openAppend : Option Exn
  writeAppend : Option Exn
  parentExists : Bool
  makedirs : Option Exn
  openNew : Option Exn
  writeNew : Option Exn

inductive Saved | disabled | appended | written | failed
  deriving DecidableEq, Repr

/-- `save_history(history)` -/
def saveHistory (G : Guards) (enabled : Bool) (os : SaveOS) : Res (Saved × List Warning) :=
  let step (site : Site) (r : Option Exn) (k : Res (Saved × List Warning)) : Res (Saved × List Warning) :=
    match r with
    | none => k
    | some e => if caught (G site) e then .ok (.failed, [.historySave e]) else .error e
  if !enabled then .ok (.disabled, [])
  else if os.pathExists then
    step .saveOpenAppend os.openAppend <| step .saveWriteAppend os.writeAppend <| .ok (.appended, [])
  else
    let rest := step .saveOpenNew os.openNew <| step .saveWriteNew os.writeNew <| .ok (.written, [])
    if os.parentExists then rest else step .saveMakedirs os.makedirs rest

/-- the requests' answers for a history path in state `st` (a missing path: `create` says what creating gives) -/
def SaveOS.ofState (st : FState) (parentExists : Bool) (create : Option Exn) : SaveOS :=
  match st with
  | .missing => ⟨false, none, none, parentExists, create, create, none⟩
  | .dir => ⟨true, some .isADirectory, none, true, none, none, none⟩
  | .unopenable => ⟨true, some .permission, none, true, none, none, none⟩
  | .unreadable => ⟨true, none, some .osOther, true, none, none, none⟩
  | .bytes _ => ⟨true, none, none, true, none, none, none⟩

/-! ## cli.py: start-up -/

inductive Mode | oneShot | interpreter
  deriving DecidableEq, Repr

/-- what a started calculator runs with -/
structure Running where
  config : Config
  table : Table
  fileTableUsed : Bool
  base : Option Str
  reg : Reg
  history : List Str
  warnings : List Warning
  deriving Repr

structure Consts where
  props : List CfgProp
  defaultCurrencyText : Str
  defaultBase : Str
  specialNames : List (Str × Str)
  specialSymbols : List (Str × Str)

def kBaseCurrency : Str := [98, 97, 115, 101, 45, 99, 117, 114, 114, 101, 110, 99, 121] /- "base-currency" -/
def kSaveHistory : Str := [115, 97, 118, 101, 45, 104, 105, 115, 116, 111, 114, 121] /- "save-history" -/

/-- `python -m ka.cli …`: import of `ka.units` (first `read_config`, `load_currency_data`, base selection,
    registration), `cli.main` (`read_config` again), then — in interpreter mode — the history is loaded.
    `units0` = the unit names/symbols registered before the currencies. -/
def startup (G : Guards) (py : Py) (k : Consts) (units0 : Reg) (cfg cur hist : FState) (mode : Mode) : Res Running :=
  match readConfigFile G py k.props cfg [] with
  | .error e => .error e
  | .ok (c1, _) =>          -- error_out is None: config warnings are not printed
  match loadCurrencyData G py k.defaultCurrencyText cur with
  | .error e => .error e
  | .ok (none, _, _) => .error .typeError      -- has_currency iterates over None
  | .ok (some table, fromFile, w2) =>
  let base := baseCurrency (getStr k.props c1 kBaseCurrency) k.defaultBase table
  let regRes : Res Reg :=
    match base with
    | none => .ok units0
    | some _ => registerAll py.nfkd k.specialNames k.specialSymbols units0 table
  match regRes with
  | .error e => .error e
  | .ok reg =>
  match readConfigFile G py k.props cfg c1 with
  | .error e => .error e
  | .ok (c2, _) =>
  match mode with
  | .oneShot => .ok ⟨c2, table, fromFile, base, reg, [], w2⟩
  | .interpreter =>
    match loadHistory G py (getBool c2 kSaveHistory true) hist with
    | .error e => .error e
    | .ok (ls, w3) =>
      match readlineLoadHistory G ls with
      | .error e => .error e
      | .ok added => .ok ⟨c2, table, fromFile, base, reg, added, w2 ++ w3⟩

/-! ## CPython-faithful instances used by the driver (not by the theorems) -/

def isCont (b : Nat) : Bool := 0x80 ≤ b && b < 0xC0

/-- one step of CPython's UTF-8 decoder: (`some` code point | `none` = one U+FFFD, bytes consumed) -/
def utf8Step : List Nat → Option Nat × Nat
  | [] => (none, 0)
  | b0 :: r =>
    if b0 < 0x80 then (some b0, 1)
    else if b0 < 0xC2 then (none, 1)
    else if b0 < 0xE0 then
      match r with
      | [] => (none, 1)
      | b1 :: _ => if isCont b1 then (some ((b0 - 0xC0) * 64 + (b1 - 0x80)), 2) else (none, 1)
    else if b0 < 0xF0 then
      match r with
      | [] => (none, 1)
      | b1 :: r2 =>
        if !(isCont b1 && !(b0 == 0xE0 && b1 < 0xA0) && !(b0 == 0xED && b1 ≥ 0xA0)) then (none, 1)
        else match r2 with
          | [] => (none, 2)
          | b2 :: _ =>
            if isCont b2 then (some ((b0 - 0xE0) * 4096 + (b1 - 0x80) * 64 + (b2 - 0x80)), 3) else (none, 2)
    else if b0 < 0xF5 then
      match r with
      | [] => (none, 1)
      | b1 :: r2 =>
        if !(isCont b1 && !(b0 == 0xF0 && b1 < 0x90) && !(b0 == 0xF4 && b1 ≥ 0x90)) then (none, 1)
        else match r2 with
          | [] => (none, 2)
          | b2 :: r3 =>
            if !isCont b2 then (none, 2)
            else match r3 with
              | [] => (none, 3)
              | b3 :: _ =>
                if isCont b3 then
                  (some ((b0 - 0xF0) * 262144 + (b1 - 0x80) * 4096 + (b2 - 0x80) * 64 + (b3 - 0x80)), 4)
                else (none, 3)
    else (none, 1)

/-- decode with replacement; the flag says whether any replacement happened -/
def utf8Decode : Nat → List Nat → Str × Bool
  | 0, _ => ([], false)
  | _, [] => ([], false)
  | fuel + 1, bs =>
    match utf8Step bs with
    | (some c, n) => let (s, e) := utf8Decode fuel (bs.drop n); (c :: s, e)
    | (none, n) => let (s, _) := utf8Decode fuel (bs.drop (max n 1)); (0xFFFD :: s, true)

def asciiLower (c : Nat) : Nat := if 65 ≤ c ∧ c ≤ 90 then c + 32 else c

/-- the digits/sign/dot/e part of CPython's `float()` grammar after underscores are removed -/
structure DecParts where
  neg : Bool
  mant : Nat         -- all digits, integer and fractional part
  fracLen : Nat
  exp : Int

def takeDigits : Str → Nat → Nat → (Nat × Nat × Str)      -- value, count, rest
  | [], acc, n => (acc, n, [])
  | c :: cs, acc, n => if 48 ≤ c ∧ c ≤ 57 then takeDigits cs (acc * 10 + (c - 48)) (n + 1) else (acc, n, c :: cs)

/-- every underscore has a digit on both sides -/
def underscoresOk : Str → Bool → Bool
  | [], _ => true
  | c :: cs, prevDigit =>
    if c = cUnderscore then
      prevDigit && (match cs with | d :: _ => (48 ≤ d && d ≤ 57) | [] => false) && underscoresOk cs false
    else underscoresOk cs (48 ≤ c && c ≤ 57)

def parseDecimal (s : Str) : Option DecParts :=
  let (neg, r) := match s with
    | c :: r => if c = cMinus then (true, r) else if c = cPlus then (false, r) else (false, s)
    | [] => (false, [])
  let (ip, ni, r1) := takeDigits r 0 0
  let (mant, nf, r2) := match r1 with
    | 46 :: r' => let (m, n, r'') := takeDigits r' ip 0; (m, n, r'')
    | _ => (ip, 0, r1)
  if ni + nf = 0 then none
  else match r2 with
    | [] => some ⟨neg, mant, nf, 0⟩
    | e :: r3 =>
      if e = 101 ∨ e = 69 then
        let (eneg, r4) := match r3 with
          | c :: r' => if c = cMinus then (true, r') else if c = cPlus then (false, r') else (false, r3)
          | [] => (false, [])
        let (ev, ne, r5) := takeDigits r4 0 0
        if ne = 0 ∨ r5 ≠ [] then none else some ⟨neg, mant, nf, if eneg then - (ev : Int) else ev⟩
      else none

def numDigits : Nat → Nat → Nat
  | 0, _ => 0
  | fuel + 1, n => if n = 0 then 0 else 1 + numDigits fuel (n / 10)

def pow2 (n : Nat) : Rat := ((2 ^ n : Nat) : Rat)

/-- CPython `float(s)`: the exact decimal value, except that what rounds to ±inf or to zero does so
    (rounding inside the finite range is not modelled) -/
def readRateCPython (s : Str) : Option Rate :=
  -- non-ASCII decimal digits become ASCII digits, whitespace becomes a space, other non-ASCII becomes '?'
  let t := (strip s).map (fun c => match digitVal c with
    | some d => 48 + d
    | none => if isSpace c then 32 else if c < 128 then c else 63)
  let (neg, body) := match t with
    | c :: r => if c = cMinus then (true, r) else if c = cPlus then (false, r) else (false, t)
    | [] => (false, [])
  let low := body.map asciiLower
  if low = [105, 110, 102] /- "inf" -/ ∨ low = [105, 110, 102, 105, 110, 105, 116, 121] /- "infinity" -/ then some (.inf neg)
  else if low = [110, 97, 110] /- "nan" -/ then some .nan
  else if !underscoresOk t false then none
  else match parseDecimal (t.filter (· ≠ cUnderscore)) with
    | none => none
    | some d =>
      if d.mant = 0 then some (.fin 0)
      else
        let mag : Int := (numDigits (d.mant + 1) d.mant : Int) + d.exp - d.fracLen
        if mag > 310 then some (.inf d.neg)
        else if mag < -326 then some (.fin 0)
        else
          let e : Int := d.exp - d.fracLen
          let q : Rat := if e ≥ 0 then ((d.mant * 10 ^ e.toNat : Nat) : Rat) else mkRat d.mant (10 ^ (-e).toNat)
          if q ≥ pow2 1024 - pow2 970 then some (.inf d.neg)
          else if q * pow2 1075 ≤ 1 then some (.fin 0)
          else some (.fin (if d.neg then -q else q))

def Py.cpython : Py where
  decodeReplace b := (utf8Decode (b.length + 1) (b.map UInt8.toNat)).1
  decodeStrict b := let (s, e) := utf8Decode (b.length + 1) (b.map UInt8.toNat); if e then none else some s
  readRate := readRateCPython
  -- NFKD needs the Unicode decomposition tables: the driver's `curreg` stream receives the decomposed names
  -- from the harness instead; no other stream's answer depends on it
  nfkd := id

end KaVerif.UserFiles
