import KaVerif.Model.Num
/-
  C16 — elementary functions as Ka runs them on one number / one quantity.
  Anchors: functions.py ka_log / ka_ln / ka_log2 / ka_log10 / ka_sqrt (298-310),
  NUMERIC_FUNCTIONS + register_numeric_function (218-223, 312-334: every one-argument numeric
  function is also registered on Quantity and acts on the base-unit magnitude),
  strict_pow / is_fractional (239-246), types.simplify_number.
  libm (sin, cos, tan, log, sqrt, pow) is reached through Lean's `Float`, which calls the same C
  library; no theorem speaks about the value those functions return, only about the guards in
  front of them, the kind that comes out, and finiteness of whatever is delivered.
-/
namespace KaVerif.Elementary
open KaVerif Num

inductive Fn where
  | sin | cos | tan | sqrt | ln | log2 | log10
  | abs | floor | ceil | round | toInt | toFloat | pos | neg
deriving DecidableEq, Repr, Inhabited

/-- `math.log(x)` for a positive Python number (CPython `loghelper`): an int that does not fit a
    double is split with frexp (mantissa in [0.5, 1) rounded to 53 bits) so it does not overflow;
    everything else goes through `float(x)`; a float argument of 0.0 is `ValueError`, which
    `ka_log` reports as a runtime error. -/
def pyLog (x : Num) : Except Err Float :=
  match x with
  | .int n =>
    let f := intToFloat n
    if f.isFinite then .ok (Float.log f)
    else
      let e := n.natAbs.log2 + 1
      let m := ratToFloat (mkRat n (2 ^ e))
      .ok (Float.log m + Float.log 2.0 * Float.ofNat e)
  | _ => do
    let f ← x.toFloat
    if f == 0 then .error .runtime else .ok (Float.log f)

/-- `ka_log(x, base)`: the guards in the order the code applies them, then `math.log(x, base)`
    (= log x / log base). -/
def kaLog (x base : Num) : Except Err Num := do
  if cmpLe x (.int 0) then .error .runtime
  else if cmpLe base (.int 0) || cmpEq base (.int 1) then .error .runtime
  else
    let lx ← pyLog x
    let lb ← pyLog base
    -- `math.log(x, base)` divides the two logarithms: a base that is 1.0 AS A FLOAT (1 + 1/10^20) raises ZeroDivisionError
    if lb == 0 then .error .divZero else fin (lx / lb)

def eFloat : Float := Float.exp 1.0

/-- `ka_sqrt` -/
def kaSqrt (x : Num) : Except Err Num := do
  if cmpLt x (.int 0) then .error .runtime
  else do let f ← x.toFloat; fin (Float.sqrt f)

def trig (f : Float → Float) (x : Num) : Except Err Num := do
  let y ← x.toFloat
  fin (f y)

/-- the registered body of a one-argument numeric function on a Python number (before simplify_type) -/
def body (fn : Fn) (x : Num) : Except Err Num :=
  match fn with
  | .sin => trig Float.sin x
  | .cos => trig Float.cos x
  | .tan => trig Float.tan x
  | .sqrt => kaSqrt x
  | .ln => kaLog x (.flt eFloat)
  | .log2 => kaLog x (.int 2)
  | .log10 => kaLog x (.int 10)
  | .abs => unop .abs x
  | .floor => unop .floor x
  | .ceil => unop .ceil x
  | .round => unop .round x
  | .toInt => unop .toInt x
  | .toFloat => unop .toFloat x
  | .pos => unop .pos x
  | .neg => unop .neg x

/-- `dispatch(name, (x,))` for a number: body, then `simplify_type` -/
def applyNum (fn : Fn) (x : Num) : Except Err Num := do
  let r ← body fn x
  simplify r

/-- `dispatch(name, (q,))` for a quantity: `Quantity(f(q.mag), q.qv)`, then `simplify_type`
    (which simplifies the magnitude) -/
def applyQty (fn : Fn) (mag : Num) (dim : List Int) : Except Err (Num × List Int) := do
  let r ← body fn mag
  let s ← simplify r
  .ok (s, dim)

/-- `log(x, base)` on two numbers -/
def applyLog (x base : Num) : Except Err Num := do
  let r ← kaLog x base
  simplify r

end KaVerif.Elementary
