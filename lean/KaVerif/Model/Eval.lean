import KaVerif.Model.Num
import KaVerif.Model.Arith
import KaVerif.Model.Dispatch
import KaVerif.Model.Comb
import KaVerif.Model.Quantity
import KaVerif.Model.Units
import KaVerif.Model.Array
import KaVerif.Model.Elementary
import KaVerif.Model.Display
import KaVerif.Model.Lexer
import KaVerif.Model.Parser
import KaVerif.Model.Instant
import KaVerif.Model.Prob
import KaVerif.Model.Erf
import KaVerif.Gen.Registry
import KaVerif.Gen.Units
import KaVerif.Gen.ProbTable
/-
  The UNIFIED PIPELINE MODEL: one function from input text to (status, output text), composed of
  the per-topic fragments — the way `ka.interpret.execute` composes tokenise, parse_tokens,
  eval_parse_tree, reduce_result and display_result.

  Anchors:
    src/ka/eval.py       eval_node / eval_based_on_mode (65-94), eval_funcall (96-105), resolve_lazy,
                         make_quantity, convert_quantity, compose_units (through Model/Quantity.lean),
                         eval_comprehension / run_comprehension / bool_like (175-220), CONSTANTS,
                         EvalEnvironment (set / get / save / restore)
    src/ka/functions.py  dispatch (142-166): lookup_function, get_closest_match (through
                         Model/Dispatch.lean over the GENERATED registry), coerce_args / coerce_to,
                         simplify_type of the result; and the registered bodies (`implTable` below,
                         keyed by the implementation descriptors of Gen/Registry.lean `implNames`)
    src/ka/interpret.py  execute (228-348): the three stages and what each handler returns,
                         reduce_result (350-355), display_result (through Model/Display.lean)

    src/ka/types.py      Instant, instant_from_iso, floor/ceil/±/comparisons/fields (through
                         Model/Instant.lean: CPython's datetime / timedelta arithmetic)
    src/ka/probability.py the eight distributions (parameter validation, pmf / cdf / mean through
                         Model/Prob.lean), Event / DoubleEvent, eval_probability (the decision table
                         Gen/ProbTable.lean, extracted from the live code)

  Values outside the model (plots, Python bools) never exist here: an implementation without a
  body in `implTable` (`rand`, `seed`, `sample`, `now`, `today`, plotting), `quit()` … evaluate
  to the outcome `unmodelled`, and the harness skips the comparison.  Because evaluation order is
  the code's (children left to right, the first raising call aborts), a program that raises before
  it reaches an unmodelled construct is still compared.

  Probabilities are computed by the `Prob` fragment in exact rational arithmetic (a float parameter
  enters with its exact value; `exp`, `erf`, `sqrt 2` are the C library's on doubles) and delivered
  in the KIND Python delivers (a float where Python's arithmetic yields a float — then the double
  nearest to the exact value —, an int / Fraction otherwise); the harness compares such numerals to
  1e-9 like C08's own correspondence.

  Import-free apart from other Model/Gen modules.  Executable; evaluation is structurally
  recursive on the parse tree (no fuel for the tree); `dispatchV` carries a fuel for the nesting
  depth of `dispatch` calls made by registered bodies (array_mean → sum → + on quantities → + on
  numbers: never deeper than 6 in the code) and the loops carry their own bounds.
-/
namespace KaVerif.Eval
open KaVerif Num

/-- the law of a random variable, in the `Prob` fragment's types -/
inductive RvLaw where
  | disc (d : Prob.Dist)
  | cont (d : Prob.CDist)
deriving Inhabited

/-- a random variable: its law and the constructor arguments as Ka passed them (their Python kinds
    decide the kind of every number computed from it, and what `__str__` prints) -/
structure RV where
  law : RvLaw
  params : List Num
deriving Inhabited

/-- runtime values of the modelled sub-language -/
inductive Val where
  | num (n : Num)                          -- int / Fraction / float
  | comb (c : Comb.Combinatoric)           -- lazy combinatoric
  | qty (mag : Num) (dim : List Int)       -- Quantity(mag, qv)
  | arr (xs : List Val)                    -- Array
  | intv (a b : Num)                       -- Interval
  | str (s : String)
  | inst (i : Instant.Inst)                -- Instant (naive datetime)
  | rv (x : RV)                            -- a RandomVariable
  | event (ops : List Prob.Op) (pos : Nat) (x : RV) (args : List Num)
                                           -- Event(op, x, y) / DoubleEvent(op1, op2, x, y, z): the operators, the
                                           -- argument position of the random variable, the numeric arguments in order
  | none                                   -- Python None: the value of an empty program
deriving Inhabited

/-- how an evaluation can fail -/
inductive EvalErr where
  | err (e : Err)                 -- an exception of the code, by class
  | unmodelled (why : String)     -- the program leaves the modelled sub-language
  | fuel                          -- a bound of the model was hit (never with the bounds supplied)
deriving DecidableEq, Repr, Inhabited

abbrev R (α : Type) := Except EvalErr α

def liftE {α : Type} : Except Err α → R α
  | .ok v => .ok v
  | .error e => .error (.err e)

def raise {α : Type} (e : Err) : R α := .error (.err e)

/-- a registered body received arguments its signature excludes (cannot happen after `resolve`) -/
def bad {α : Type} : R α := .error (.unmodelled "argument shape")

/-! ### value classes, as the generated registry numbers them -/

def cInt : Nat := Gen.Registry.classNames.idxOf "int"
def cFrac : Nat := Gen.Registry.classNames.idxOf "Fraction"
def cFloat : Nat := Gen.Registry.classNames.idxOf "float"
def cComb : Nat := Gen.Registry.classNames.idxOf "Combinatoric"
def cQty : Nat := Gen.Registry.classNames.idxOf "Quantity"
def cArr : Nat := Gen.Registry.classNames.idxOf "Array"
def cIntv : Nat := Gen.Registry.classNames.idxOf "Interval"
def cStr : Nat := Gen.Registry.classNames.idxOf "str"
def cNone : Nat := Gen.Registry.classNames.idxOf "NoneType"
def cInst : Nat := Gen.Registry.classNames.idxOf "Instant"
def cEvent : Nat := Gen.Registry.classNames.idxOf "Event"
def cDEvent : Nat := Gen.Registry.classNames.idxOf "DoubleEvent"

/-- the Python class of a random variable -/
def RV.className (x : RV) : String :=
  match x.law with
  | .disc (.binomial _ _) => "Binomial" | .disc (.poisson _ _) => "Poisson" | .disc (.geometric _) => "Geometric"
  | .disc (.bernoulli _) => "Bernoulli" | .disc (.uniformInt _ _) => "UniformInt"
  | .cont (.exponential _) => "Exponential" | .cont (.uniform _ _) => "Uniform" | .cont (.gaussian _ _) => "Gaussian"
/-- the declared type `Number` (the only one `coerce_to` resolves lazies for) -/
def tNumber : Nat := Gen.Registry.typeNames.idxOf "Number"

def numClass : Num → Nat
  | .int _ => cInt
  | .frac _ => cFrac
  | .flt _ => cFloat

/-- `type(x)` as a row of the registry's `isinstance` table -/
def classOf : Val → Nat
  | .num n => numClass n
  | .comb _ => cComb
  | .qty _ _ => cQty
  | .arr _ => cArr
  | .intv _ _ => cIntv
  | .str _ => cStr
  | .inst _ => cInst
  | .rv x => Gen.Registry.classNames.idxOf x.className
  | .event ops _ _ _ => if ops.length = 1 then cEvent else cDEvent
  | .none => cNone

/-! ### environment (`EvalEnvironment._variables`) -/

abbrev Env := List (String × Val)          -- most recent binding first

def Env.get (env : Env) (x : String) : Option Val := env.lookup x
def Env.set (env : Env) (x : String) (v : Val) : Env := (x, v) :: env.filter (fun p => p.1 != x)

/-- `math.pi`, `math.e` by bit pattern (checked against the running interpreter by the harness) -/
def piBits : UInt64 := 0x400921FB54442D18
def eBits : UInt64 := 0x4005BF0A8B145769

/-- `eval.CONSTANTS` -/
def initialEnv : Env :=
  [("e", .num (.flt (Float.ofBits eBits))), ("pi", .num (.flt (Float.ofBits piBits))),
   ("true", .num (.int 1)), ("false", .num (.int 0))]

/-! ### small Python semantics used by the bodies -/

/-- truth value of a Python number (`if dispatch("<", …):`) -/
def truthy (x : Num) : Bool := !(cmpEq x (.int 0))

def b2v (b : Bool) : Val := .num (.int (if b then 1 else 0))

/-- `resolve_lazy` / `resolve_combinatoric` -/
def resolveLazy : Val → R Val
  | .comb c => liftE (c.resolve) |>.map .num
  | v => .ok v

/-- `simplify_type` -/
def simplifyVal : Val → R Val
  | .num n => liftE (simplify n) |>.map .num
  | .qty m d => liftE (simplify m) |>.map (fun m' => .qty m' d)
  | v => .ok v

def ofCVal : Comb.CVal → Val
  | .num v => .num v
  | .comb c => .comb c

/-- Python's `max(args)` on numbers: the first maximal element -/
def pyMax : List Num → Except Err Num
  | [] => .error .funArg
  | h :: t => .ok (t.foldl (fun cur x => if cmpLt cur x then x else cur) h)

/-- Python's `min(args)` on numbers: the first minimal element -/
def pyMin : List Num → Except Err Num
  | [] => .error .funArg
  | h :: t => .ok (t.foldl (fun cur x => if cmpLt x cur then x else cur) h)

def nums? : List Val → Option (List Num)
  | [] => some []
  | .num x :: r => (nums? r).map (x :: ·)
  | _ => Option.none

/-- comparison operators by registered name -/
def cmpByName (name : String) (a b : Num) : Bool :=
  match name with
  | "<" => cmpLt a b | "<=" => cmpLe a b | "==" => cmpEq a b | "!=" => !(cmpEq a b)
  | ">" => cmpLt b a | _ => cmpLe b a

/-! ### registered bodies

  A body receives the dispatcher it may call back (`rec`; Python's global `dispatch`) and the
  coerced positional arguments, and returns the value BEFORE `simplify_type`. -/

abbrev Disp := String → List Val → R Val
abbrev Body := Disp → List Val → R Val

/-- `dispatch(name, nums)` where a plain number is expected back -/
def rnum (rec : Disp) (name : String) (args : List Num) : R Num := do
  match ← rec name (args.map .num) with
  | .num r => .ok r
  | _ => bad

def rtruth (rec : Disp) (name : String) (args : List Val) : R Bool := do
  match ← rec name args with
  | .num r => .ok (truthy r)
  | _ => bad

def bNum1 (f : Num → Except Err Num) : Body := fun _ args =>
  match args with
  | [.num x] => liftE (f x) |>.map .num
  | _ => bad

def bNum2 (f : Num → Num → Except Err Num) : Body := fun _ args =>
  match args with
  | [.num x, .num y] => liftE (f x y) |>.map .num
  | _ => bad

/-- the model refuses powers whose exact result would have millions of digits (Python computes or
    hangs on them; both sides are outside the promptness clause) -/
def hugePow (x y : Num) : Bool :=
  match x, y with
  | .flt _, _ | _, .flt _ | _, .frac _ => false
  | _, .int k =>
    let b := x.toRat
    let bits := max b.num.natAbs.log2 b.den.log2 + 1
    decide (k.natAbs * bits > 8000000)

def bPow : Body := fun _ args =>
  match args with
  | [.num x, .num y] => if hugePow x y then .error (.unmodelled "huge power") else liftE (pyPow x y) |>.map .num
  | _ => bad

/-- `intify(operator.xx)` -/
def bCmp (name : String) : Body := fun _ args =>
  match args with
  | [.num x, .num y] => .ok (b2v (cmpByName name x y))
  | _ => bad

/-- `fraction_divide` on two ints -/
def bFracDiv : Body := fun _ args =>
  match args with
  | [.num (.int x), .num (.int y)] => liftE (fractionDivide x y) |>.map .num
  | _ => bad

/-- `register_numeric_function`'s `quantity_function`: `Quantity(f(q.mag), q.qv)` -/
def bQtyFn (fn : Elementary.Fn) : Body := fun _ args =>
  match args with
  | [.qty m d] => liftE (Elementary.body fn m) |>.map (fun r => .qty r d)
  | _ => bad

def bVarMax : Body := fun _ args =>
  match nums? args with
  | some xs => liftE (pyMax xs) |>.map .num
  | Option.none => bad

def bVarMin : Body := fun _ args =>
  match nums? args with
  | some xs => liftE (pyMin xs) |>.map .num
  | Option.none => bad

/-! #### lazy combinatorics -/

def bComb2 (f : Comb.Combinatoric → Comb.Combinatoric → Except Err Comb.Combinatoric) : Body := fun _ args =>
  match args with
  | [.comb a, .comb b] => liftE (f a b) |>.map .comb
  | _ => bad

def bCombNum (f : Comb.Combinatoric → Num → Except Err Comb.Combinatoric) : Body := fun _ args =>
  match args with
  | [.comb a, .num b] => liftE (f a b) |>.map .comb
  | _ => bad

def bNumComb (f : Num → Comb.Combinatoric → Except Err Comb.Combinatoric) : Body := fun _ args =>
  match args with
  | [.num a, .comb b] => liftE (f a b) |>.map .comb
  | _ => bad

/-- largest factorial / binomial argument the model resolves (the code's loops are linear in it) -/
def maxFactorial : Int := 200000

def bChoose : Body := fun _ args =>
  match args with
  | [.num (.int n), .num (.int k)] =>
    if n > maxFactorial then .error (.unmodelled "huge binomial") else .ok (ofCVal (Comb.lazyChoose n k))
  | _ => bad

def bFactorial : Body := fun _ args =>
  match args with
  | [.num (.int n)] => if n > maxFactorial then .error (.unmodelled "huge factorial") else .ok (ofCVal (Comb.lazyFactorial n))
  | _ => bad

/-! #### quantities: `register_quantities_op(name, combiner, wrap)` -/

inductive QvRule where
  | same      -- quantity_vector_combiner is None: the vectors must be equal
  | mul       -- lambda qv1, qv2: qv1*qv2
  | div       -- lambda qv1, qv2: qv1/qv2
deriving DecidableEq, Repr

def zeroDim : List Int := Qty.Dim.zero Gen.Units.baseUnits.length

/-- `f(q1, q2)` of `register_quantities_op` -/
def qtyF (rec : Disp) (name : String) (rule : QvRule) (wrap : Bool) (x : Num) (dx : List Int) (y : Num) (dy : List Int) :
    R Val := do
  let dim ← match rule with
    | .same => if dx != dy then raise .incompatible else pure dx
    | .mul => pure (Qty.Dim.add dx dy)
    | .div => pure (Qty.Dim.sub dx dy)
  let m ← rnum rec name [x, y]
  .ok (if wrap then .qty m dim else .num m)

def bQtyQty (name : String) (rule : QvRule) (wrap : Bool) : Body := fun rec args =>
  match args with
  | [.qty x dx, .qty y dy] => qtyF rec name rule wrap x dx y dy
  | _ => bad

/-- `left_is_number(n, q)` -/
def bNumQty (name : String) (rule : QvRule) (wrap : Bool) : Body := fun rec args =>
  match args with
  | [.num x, .qty y dy] => qtyF rec name rule wrap x zeroDim y dy
  | _ => bad

/-- `right_is_number(q, n)` -/
def bQtyNum (name : String) (rule : QvRule) (wrap : Bool) : Body := fun rec args =>
  match args with
  | [.qty x dx, .num y] => qtyF rec name rule wrap x dx y zeroDim
  | _ => bad

/-! #### intervals (functions.py, section "Intervals"): every step through `dispatch` on numbers -/

/-- `make_interval_from_bounds` -/
def ivFromBounds (rec : Disp) (x y : Num) : R Val := do
  let lo ← rnum rec "min" [x, y]
  let hi ← rnum rec "max" [x, y]
  .ok (.intv lo hi)

/-- `make_interval_with_num_op(opname)` : `op(intr, n)` -/
def bIvNumOp (op : String) : Body := fun rec args =>
  match args with
  | [.intv a b, .num n] => do
    let na ← rnum rec op [a, n]
    let nb ← rnum rec op [b, n]
    ivFromBounds rec na nb
  | _ => bad

/-- `reverse_f(y, x) = f(x, y)` for the (Number, Interval) registrations -/
def bRev (f : Body) : Body := fun rec args =>
  match args with
  | [y, x] => f rec [x, y]
  | _ => bad

def bMakeInterval : Body := fun rec args =>
  match args with
  | [.num a, .num b] => do
    let c ← rnum rec "<=" [a, b]
    if !truthy c then .ok (.intv (.int 0) (.int 0)) else .ok (.intv a b)
  | _ => bad

/-- `dispatch("<=", (a, x)) * dispatch("<=", (x, b))` (`interval_contains`, `in_interval`) -/
def ivContains (rec : Disp) (a b x : Num) : R Num := do
  let c1 ← rnum rec "<=" [a, x]
  let c2 ← rnum rec "<=" [x, b]
  liftE (pyLin .mul c1 c2)

def bIvContains : Body := fun rec args =>
  match args with
  | [.intv a b, .num x] => ivContains rec a b x |>.map .num
  | _ => bad

def bInInterval : Body := fun rec args =>
  match args with
  | [.num x, .intv a b] => ivContains rec a b x |>.map .num
  | _ => bad

/-- `is_fractional(x)` as the code computes it -/
def isFractionalD (rec : Disp) (x : Num) : R Bool := do
  let i ← rnum rec "int" [x]
  let e ← rnum rec "==" [i, x]
  .ok (!truthy e)

def bIvPow : Body := fun rec args =>
  match args with
  | [.intv a b, .num e] => do
    let neg ← rnum rec "<" [a, .int 0]
    let fracl ← if truthy neg then isFractionalD rec e else pure false     -- `and` short-circuits
    if truthy neg && fracl then raise .runtime else
    let c ← ivContains rec a b (.int 0)
    let cands ← if truthy c then do
        let ne ← rnum rec "<" [e, .int 0]
        if truthy ne then raise .runtime else pure [a, b, .int 0]
      else pure [a, b]
    let ps ← cands.mapM (fun x => rnum rec "^" [x, e])
    let lo ← rnum rec "min" ps
    let hi ← rnum rec "max" ps
    .ok (.intv lo hi)
  | _ => bad

def bIvFlip : Body := fun rec args =>
  match args with
  | [.intv a b] => do
    let x ← rnum rec "-" [b]
    let y ← rnum rec "-" [a]
    .ok (.intv x y)
  | _ => bad

def bIvSqrt : Body := fun rec args =>
  match args with
  | [.intv a b] => do
    let neg ← rnum rec "<" [a, .int 0]
    if truthy neg then raise .runtime else
    let x ← rnum rec "sqrt" [a]
    let y ← rnum rec "sqrt" [b]
    .ok (.intv x y)
  | _ => bad

/-- `interval_log(intr, base)` -/
def ivLog (rec : Disp) (a b base : Num) : R Val := do
  let c ← rnum rec "<=" [base, .int 0]
  if truthy c then raise .runtime else
  let c2 ← rnum rec "<=" [a, .int 0]
  if truthy c2 then raise .runtime else
  let x ← rnum rec "log" [a, base]
  let y ← rnum rec "log" [b, base]
  ivFromBounds rec x y

def bIvLogBase (base : Num) : Body := fun rec args =>
  match args with
  | [.intv a b] => ivLog rec a b base
  | _ => bad

def bIvLog : Body := fun rec args =>
  match args with
  | [.intv a b, .num base] => ivLog rec a b base
  | _ => bad

def bIvAbs : Body := fun rec args =>
  match args with
  | [.intv a b] => do
    let x ← rnum rec "abs" [a]
    let y ← rnum rec "abs" [b]
    let c ← ivContains rec a b (.int 0)
    let lo ← if truthy c then pure (Num.int 0) else rnum rec "min" [x, y]
    let hi ← rnum rec "max" [x, y]
    .ok (.intv lo hi)
  | _ => bad

/-- which bounds a comparison of `register_interval_cmp` looks at -/
inductive IvCmpShape where
  | intervalNum | numInterval | intervalInterval
deriving DecidableEq, Repr

/-- `interval_num`, `num_interval`, `interval_interval` for the base operator `name` -/
def bIvCmp (name : String) (shape : IvCmpShape) : Body := fun rec args =>
  match shape, args with
  | .intervalNum, [.intv _ b, .num x] => rnum rec name [b, x] |>.map .num
  | .numInterval, [.num x, .intv a _] => rnum rec name [x, a] |>.map .num
  | .intervalInterval, [.intv _ b1, .intv a2 _] => rnum rec name [b1, a2] |>.map .num
  | _, _ => bad

def bIvEq (negate : Bool) : Body := fun rec args =>
  match args with
  | [.intv a1 b1, .intv a2 b2] => do
    let c1 ← rnum rec "==" [a1, a2]
    let c2 ← rnum rec "==" [b1, b2]
    let e ← liftE (pyLin .mul c1 c2)
    if negate then liftE (pyLin .sub (.int 1) e) |>.map .num else .ok (.num e)
  | _ => bad

def bIvLower : Body := fun _ args =>
  match args with
  | [.intv a _] => .ok (.num a)
  | _ => bad

def bIvUpper : Body := fun _ args =>
  match args with
  | [.intv _ b] => .ok (.num b)
  | _ => bad

def bIvMin : Body := fun rec args =>
  match args with
  | [.intv a b, .num x] => do
    let c ← rnum rec "<=" [b, x]
    if truthy c then .ok (.intv a b) else
    let c2 ← rnum rec "<=" [x, a]
    if truthy c2 then .ok (.intv x x) else .ok (.intv a x)
  | _ => bad

def bIvMax : Body := fun rec args =>
  match args with
  | [.intv a b, .num x] => do
    let c ← rnum rec "<=" [b, x]
    if truthy c then .ok (.intv x x) else
    let c2 ← rnum rec "<=" [x, a]
    if truthy c2 then .ok (.intv a b) else .ok (.intv x b)
  | _ => bad

def bIvSize : Body := fun rec args =>
  match args with
  | [.intv a b] => do
    let d ← rnum rec "-" [b, a]
    rnum rec "abs" [d] |>.map .num
  | _ => bad

def bPlusMinus : Body := fun rec args =>
  match args with
  | [.num x, .num y] => do
    let lo ← rnum rec "-" [x, y]
    let hi ← rnum rec "+" [x, y]
    ivFromBounds rec lo hi
  | _ => bad

/-! #### arrays -/

def bArrProd : Body := fun rec args =>
  match args with
  | [.arr xs] => xs.foldlM (fun acc e => rec "*" [e, acc]) (.num (.int 1))
  | _ => bad

def bArrSum : Body := fun rec args =>
  match args with
  | [.arr []] => .ok (.num (.int 0))
  | [.arr (h :: t)] => t.foldlM (fun acc e => rec "+" [acc, e]) h
  | _ => bad

def bArrMin : Body := fun rec args =>
  match args with
  | [.arr []] => raise .funArg
  | [.arr (h :: t)] => (h :: t).foldlM (fun r e => do if ← rtruth rec "<" [e, r] then pure e else pure r) h
  | _ => bad

def bArrMax : Body := fun rec args =>
  match args with
  | [.arr []] => raise .funArg
  | [.arr (h :: t)] => (h :: t).foldlM (fun r e => do if ← rtruth rec "<" [r, e] then pure e else pure r) h
  | _ => bad

def bArrSize : Body := fun _ args =>
  match args with
  | [.arr xs] => .ok (.num (.int xs.length))
  | _ => bad

def bArrMean : Body := fun rec args =>
  match args with
  | [.arr xs] =>
    if xs.isEmpty then raise .funArg else do
      let s ← rec "sum" [.arr xs]
      rec "/" [s, .num (.int xs.length)]
  | _ => bad

/-- `any(dispatch("==", (x, e)) for e in arr)` -/
def inArrayLoop (rec : Disp) (x : Val) : List Val → R Bool
  | [] => .ok false
  | e :: es => do
    if ← rtruth rec "==" [x, e] then pure true else inArrayLoop rec x es

def bInArray : Body := fun rec args =>
  match args with
  | [x, .arr xs] => inArrayLoop rec x xs |>.map b2v
  | _ => bad

/-- sort key of an array element for `array_median`: magnitude and dimension (a plain number has
    the zero vector, `left_is_number`) -/
def medianKey : Val → Option (Num × List Int)
  | .num x => some (x, zeroDim)
  | .qty m d => some (m, d)
  | _ => Option.none

/-- stable insertion by magnitude -/
def insertByKey (x : Val × Num) : List (Val × Num) → List (Val × Num)
  | [] => [x]
  | y :: ys => if cmpLt x.2 y.2 then x :: y :: ys else y :: insertByKey x ys

/-- `array_median`.  `sorted(…, key=cmp_to_key(ka_cmp))` is modelled for arrays of numbers /
    quantities: with one dimension throughout it is a stable sort by magnitude; with two different
    dimensions every comparison sort meets an incomparable pair and `<` raises
    IncompatibleQuantitiesError.  Other element kinds (intervals are only partially ordered,
    arrays and strings have no `<`): the comparison sequence of Python's sort would matter —
    unmodelled, except that a single element needs no comparison at all. -/
def bArrMedian : Body := fun rec args =>
  match args with
  | [.arr []] => raise .funArg
  | [.arr [x]] => .ok x
  | [.arr xs] =>
    match xs.mapM (fun v => (medianKey v).map (fun k => (v, k))) with
    | Option.none => .error (.unmodelled "median of non-numeric array")
    | some ks =>
      let d0 := (ks.headD (.none, (.int 0, []))).2.2
      if ks.any (fun k => k.2.2 != d0) then raise .incompatible else
      let sorted := (ks.foldl (fun acc k => insertByKey (k.1, k.2.1) acc) []).map (·.1)
      let n := sorted.length
      if n % 2 = 0 then do
        let s ← rec "+" [sorted.getD (n / 2 - 1) .none, sorted.getD (n / 2) .none]
        rec "/" [s, .num (.int 2)]
      else .ok (sorted.getD (n / 2) .none)
  | _ => bad

def maxRange : Nat := 2000000

/-- `Array(list(range(lo, hi+1)))` -/
def bRange : Body := fun _ args =>
  match args with
  | [.num (.int lo), .num (.int hi)] =>
    if (hi + 1 - lo).toNat > maxRange then .error (.unmodelled "huge range")
    else .ok (.arr ((Arr.range lo hi).map (fun k => .num (.int k))))
  | _ => bad

/-- the `while dispatch("<=", (curr, hi))` loop of `ka_range` (functions.py, after fix efcc27a), the same
    `dispatch` calls in the same order:

        while dispatch("<=", (curr, hi)):
            result.append(curr)
            nxt = dispatch("+", (curr, step))
            if not dispatch("<", (curr, nxt)): raise FunctionArgError(...)   # 1e16 + 0.5 == 1e16
            curr = nxt

    The first argument bounds the number of rounds.  With the no-progress guard every round strictly
    increases `curr`, so the Python loop ends by itself; the model never answers `diverges` here: when
    the bound is reached it DECLINES (`unmodelled "huge range"`), like `lo..hi` beyond `maxRange`.
    `bKaRange` supplies a bound that is never reached for exact operands (`PIPE_range_step`). -/
def kaRangeLoop (rec : Disp) (hi step : Num) : Nat → Num → List Val → R Val
  | 0, _, _ => .error (.unmodelled "huge range")
  | f + 1, curr, acc => do
    let c ← rnum rec "<=" [curr, hi]
    if truthy c then do
      let nx ← rnum rec "+" [curr, step]
      let g ← rnum rec "<" [curr, nx]
      if !truthy g then raise .funArg else
      kaRangeLoop rec hi step f nx (.num curr :: acc)
    else .ok (.arr acc.reverse)

/-- the number of rounds `bKaRange` allows the loop of `ka_range`.
    * Exact operands (ints, Fractions): every `+` is exact, the loop lists `lo + k·step ≤ hi` and stops
      after `⌊(hi−lo)/step⌋ + 2` rounds; `+ 3` is never reached (`PIPE_range_step`).
    * A float among the operands: `curr + step` is rounded, so one round can advance by LESS than `step`
      (`range(2251799813685248.5, 2251799813685268.5, 0.7)` has 41 elements, not 29) and the count is not
      a function of `(hi−lo)/step`.  The guard still makes every round advance, so the loop ends; the
      model allows up to `maxRange` elements and declines beyond. -/
def kaRangeFuel (lo hi step : Num) : Nat :=
  if lo.isExact && hi.isExact && step.isExact then (((hi.toRat - lo.toRat) / step.toRat).floor.toNat) + 3
  else maxRange + 1

/-- `ka_range`: the two argument guards, then the loop.  A range whose nominal length
    `⌊(hi−lo)/step⌋ + 3` exceeds `maxRange` is declined before the loop starts (for every kind; with
    floats the nominal length is only an estimate, the loop's own bound `kaRangeFuel` decides). -/
def bKaRange : Body := fun rec args =>
  match args with
  | [.num lo, .num hi, .num step] => do
    let c ← rnum rec "<" [.int 0, step]
    if !truthy c then raise .funArg else
    let c2 ← rnum rec "<=" [lo, hi]
    if !truthy c2 then raise .funArg else
    let n := (((hi.toRat - lo.toRat) / step.toRat).floor.toNat) + 3
    if n > maxRange then .error (.unmodelled "huge range") else
    kaRangeLoop rec hi step (kaRangeFuel lo hi step) lo []
  | _ => bad

/-! #### instants (functions.py "Dates & times"; types.py through Model/Instant.lean) -/

/-- `SECONDS`: the exponent vector of the second over BASE_UNITS -/
def secondsDim : List Int :=
  (List.range Gen.Units.baseUnits.length).map (fun i => if i = Gen.Units.baseUnitsS.idxOf "s" then 1 else 0)

/-- a quantity's exponent vector as `Model/Instant.lean` takes it -/
def dimRat (d : List Int) : List Rat := d.map (fun (z : Int) => (z : Rat))

/-- `floor_instant`, `ceil_instant` -/
def bInst1 (f : Instant.Inst → Except Err Instant.Inst) : Body := fun _ args =>
  match args with
  | [.inst i] => liftE (f i) |>.map .inst
  | _ => bad

/-- `instant_minus_instant`: `Quantity((i1.dt - i2.dt).total_seconds(), SECONDS)` -/
def bInstSub : Body := fun _ args =>
  match args with
  | [.inst a, .inst b] => liftE (Instant.instantMinusInstant a b) |>.map (fun m => .qty m secondsDim)
  | _ => bad

/-- `instant_plus_quantity` / `instant_minus_quantity` -/
def bInstQty (plus : Bool) : Body := fun _ args =>
  match args with
  | [.inst i, .qty m d] =>
    liftE (if plus then Instant.instantPlusQuantity i m (dimRat d) else Instant.instantMinusQuantity i m (dimRat d))
      |>.map .inst
  | _ => bad

/-- `instant_plus_int` / `instant_minus_int` -/
def bInstInt (plus : Bool) : Body := fun _ args =>
  match args with
  | [.inst i, .num (.int n)] =>
    liftE (if plus then Instant.instantPlusInt i n else Instant.instantMinusInt i n) |>.map .inst
  | _ => bad

/-- `intify(instant_lt)` … `intify(operator.ne)` on two instants -/
def bInstCmp (op : Instant.Cmp) : Body := fun _ args =>
  match args with
  | [.inst a, .inst b] => .ok (.num (Instant.cmpReg op a b))
  | _ => bad

inductive InstField where
  | year | month | day | hour | minute | second
deriving DecidableEq, Repr

/-- `get_year` … `get_second` -/
def InstField.get : InstField → Instant.Inst → Nat
  | .year => Instant.Inst.year | .month => Instant.Inst.month | .day => Instant.Inst.dayOfMonth
  | .hour => Instant.Inst.hour | .minute => Instant.Inst.minute | .second => Instant.Inst.second

def bInstField (f : InstField) : Body := fun _ args =>
  match args with
  | [.inst i] => .ok (.num (.int (f.get i)))
  | _ => bad

/-! #### probability (functions.py "Probability"; probability.py through Model/Prob.lean and the
    generated decision table Gen/ProbTable.lean) -/

inductive RvKind where
  | binomial | poisson | geometric | bernoulli | uniformInt | exponential | uniform | gaussian
deriving DecidableEq, Repr

/-- `math.exp(-mu)` as an exact rational: the constant the `Prob` fragment's Poisson law carries -/
def poissonE (mu : Int) : Rat := floatToRat (Float.exp (-(intToFloat mu)))

/-- the law a constructor call denotes; a float parameter enters with its exact value -/
def mkLaw : RvKind → List Num → Option RvLaw
  | .binomial, [.int n, p] => some (.disc (.binomial n p.toRat))
  | .poisson, [.int mu] => some (.disc (.poisson mu (poissonE mu)))
  | .geometric, [p] => some (.disc (.geometric p.toRat))
  | .bernoulli, [p] => some (.disc (.bernoulli p.toRat))
  | .uniformInt, [.int lo, .int hi] => some (.disc (.uniformInt lo hi))
  | .exponential, [lam] => some (.cont (.exponential lam.toRat))
  | .uniform, [lo, hi] => some (.cont (.uniform lo.toRat hi.toRat))
  | .gaussian, [mu, sd] => some (.cont (.gaussian mu.toRat sd.toRat))
  | _, _ => Option.none

/-- the constructors' parameter checks (`Prob.Dist.valid`, `Prob.CDist.valid`) -/
def RvLaw.valid : RvLaw → Bool
  | .disc d => d.valid
  | .cont d => d.valid

/-- `Binomial(n, p)` … `Gaussian(mu, stddev)`: InvalidParameterException before any object exists -/
def bMkRv (k : RvKind) : Body := fun _ args =>
  match nums? args with
  | Option.none => bad
  | some ps =>
    if !(ps.all Num.finite) then .error (.unmodelled "non-finite parameter") else
    match mkLaw k ps with
    | Option.none => bad
    | some law => if law.valid then .ok (.rv ⟨law, ps⟩) else raise .invalidParam

/-- `make_event_fun(op)` under its two signatures, and the `=` lambda: `Event(op, x, y)` -/
def bEvent1 (op : Prob.Op) : Body := fun _ args =>
  match args with
  | [.rv x, .num t] => .ok (.event [op] 0 x [t])
  | [.num t, .rv x] => .ok (.event [op] 1 x [t])
  | _ => bad

/-- `make_double_event_fun(op1, op2)`: `DoubleEvent(op1, op2, x, y, z)` -/
def bEvent2 (o1 o2 : Prob.Op) : Body := fun _ args =>
  match args with
  | [.num a, .rv x, .num b] => .ok (.event [o1, o2] 1 x [a, b])
  | _ => bad

/-- `math.exp`, `math.erf`, `math.sqrt(2)` on doubles (the C library's), as functions on the exact values -/
def floatFns : Prob.Fns :=
  { exp := fun q => floatToRat (Float.exp (ratToFloat q)),
    erf := fun q => floatToRat (Erf.erf (ratToFloat q)),
    sqrt2 := floatToRat (Float.sqrt 2.0) }

/-- the random variable as `eval_probability` sees it -/
def RV.probLaw (x : RV) : Prob.Law :=
  match x.law with
  | .disc d => d.law
  | .cont d => d.law floatFns

/-- the numeric arguments of an event with the random variable's place left empty -/
def eventSlots (pos : Nat) (args : List Num) : List (Option Num) :=
  (args.take pos).map some ++ [Option.none] ++ (args.drop pos).map some

/-- … as the `Prob` fragment's terms -/
def slotTerms (slots : List (Option Num)) : List Prob.Term :=
  slots.map (fun s => match s with | some a => .num a.toRat | Option.none => .rv)

/-- does Python's arithmetic deliver a (non-integral) probability of this variable as a float?
    Binomial / Geometric / Bernoulli: exactly when `p` is a float (ints and Fractions stay exact);
    Poisson (`math.exp`, `fsum`), UniformInt (`int / int`), Exponential (`math.exp`), Gaussian
    (`math.erf`): always.  Uniform: see `uniformLeafFloat`. -/
def RV.probFloat (x : RV) : Bool :=
  match x.law, x.params with
  | .disc (.binomial _ _), [_, p] => p.isFloat
  | .disc (.geometric _), [p] => p.isFloat
  | .disc (.bernoulli _), [p] => p.isFloat
  | .disc (.poisson _ _), _ => true
  | .disc (.uniformInt _ _), _ => true
  | .cont (.exponential _), _ => true
  | .cont (.gaussian _ _), _ => true
  | _, _ => false

/-- `Uniform.cdf(v)` is the int 0 / 1 outside `[lo, hi)` and `(v-lo)/(hi-lo)` inside: a float when
    an operand is a float or all three are ints (`int / int`), a Fraction otherwise -/
def uniformLeafFloat (lo hi v : Num) : Bool :=
  !(cmpLt v lo) && !(cmpLe hi v) &&
    ((lo.isFloat || hi.isFloat || v.isFloat) || (lo.isInt && hi.isInt && v.isInt))

/-- a rational result in the kind Python delivers it: a float (the double nearest to the exact
    value) or the exact int / Fraction -/
def deliver (isFloat : Bool) (q : Rat) : Num := if isFloat then .flt (ratToFloat q) else canon q

/-- thresholds / counts beyond these are outside the model for the laws whose pmf / cdf loop or take
    powers (`range(x+1)` sums of Binomial and Poisson, `(1-p)**x` of Geometric): the exact
    arithmetic of the `Prob` fragment is not meant for them, and Poisson's `exp(-mu)` underflows; a
    continuous variable declines numbers beyond the double range (OverflowError in the code) -/
def maxThreshold : Nat := 2000
def maxCount : Int := 1000
def maxRate : Int := 500

def probRefused (x : RV) (args : List Num) : Bool :=
  match x.law with
  | .disc (.binomial n _) => decide (n > maxCount) || args.any (fun a => decide (a.toRat.floor.natAbs > maxThreshold))
  | .disc (.poisson mu _) => decide (mu > maxRate) || args.any (fun a => decide (a.toRat.floor.natAbs > maxThreshold))
  | .disc (.geometric _) => args.any (fun a => decide (a.toRat.floor.natAbs > maxThreshold))
  | .cont _ =>
    -- a parameter / threshold beyond the double range: the code's float arithmetic raises OverflowError there
    (args ++ x.params).any (fun a => decide (a.toRat.floor.natAbs > 10 ^ 300))
  | _ => false

/-- is the value of one `cdf` / `pmf` call a float in Python?  (the argument `a` of a continuous
    variable's `cdf` is a plain argument `.var i` of the registered function) -/
def leafFloat (x : RV) (slots : List (Option Num)) (a : Prob.Arg) : Bool :=
  match x.law, x.params with
  | .cont (.uniform _ _), [lo, hi] =>
    (match a with
     | .var i => (match slots[i]? with | some (some v) => uniformLeafFloat lo hi v | _ => false)
     | _ => false)
  | _, _ => x.probFloat

/-- one `cdf(arg)` / `pmf(arg)` call: the `Prob` fragment's function on the exact argument (`math.floor`,
    `math.ceil`, `- 1` as the decision table says; a discrete variable needs an int there), delivered in
    Python's kind -/
def leafNum (x : RV) (slots : List (Option Num)) (isPmf : Bool) (a : Prob.Arg) : Option Num :=
  let env := Prob.envOf (slotTerms slots)
  match x.law with
  | .disc d => (a.evalZ env).map (fun k => deliver (leafFloat x slots a) (if isPmf then d.pmf k else d.cdf k))
  | .cont d => if isPmf then Option.none else some (deliver (leafFloat x slots a) (d.cdf floatFns (a.evalQ env)))

/-- Python's `a - b` on two numbers (a float result cannot overflow here) -/
def pySubNum (a b : Num) : Option Num :=
  match pyLin .sub a b with
  | .ok r => some r
  | .error _ => Option.none

/-- the decision-table entry in Python's numeric tower: the leaves are the `Prob` fragment's `cdf` /
    `pmf` values, `1 - e`, `e - f`, `max(e, 0)` are Python's operations on them (on floats: IEEE, so
    that `1 - cdf` cancels exactly as it does in the code; on ints / Fractions: exact) -/
def evalPN (x : RV) (slots : List (Option Num)) : Prob.PExpr → Option Num
  | .cdf a => leafNum x slots false a
  | .pmf a => leafNum x slots true a
  | .oneSub e => (evalPN x slots e).bind (fun v => pySubNum (.int 1) v)
  | .sub e f =>
    match evalPN x slots e, evalPN x slots f with
    | some u, some v => pySubNum u v
    | _, _ => Option.none
  | .max0 e => (evalPN x slots e).map (fun v => if cmpLt v (.int 0) then .int 0 else v)

/-- `event.probability()`: the entry of the generated decision table for (operators, position of the
    variable, discrete?) — the one `Prob.probWritten` evaluates — in Python's numeric tower -/
def probOfEvent (ops : List Prob.Op) (pos : Nat) (x : RV) (args : List Num) : R Val :=
  if probRefused x args then .error (.unmodelled "huge probability parameter") else
  match Prob.findRow Gen.ProbTable.rows ops pos x.probLaw.isDisc with
  | Option.none => raise (.py "Exception")       -- "Dunno how to evaluate the probability of this event!"
  | some row =>
    match evalPN x (eventSlots pos args) row.expr with
    | some v => .ok (.num v)
    | Option.none => raise (.py "TypeError")      -- a discrete cdf / pmf called with a non-int

/-- `P(event)` -/
def bProb : Body := fun _ args =>
  match args with
  | [.event ops pos x as] => probOfEvent ops pos x as
  | _ => bad

/-- `rv.mean()` in the `Prob` fragment -/
def RV.mean (x : RV) : Rat :=
  match x.law with
  | .disc d => d.mean
  | .cont d => d.mean

/-- is `rv.mean()` a float in Python?  `n*p`, `1/p`, `p`, `mu`: like the parameter; Poisson's `mu`
    is an int; `lo + (hi-lo)/2` on ints and `1/lam` on an int divide ints -/
def RV.meanFloat (x : RV) : Bool :=
  match x.law, x.params with
  | .disc (.binomial _ _), [_, p] => p.isFloat
  | .disc (.geometric _), [p] => p.isFloat
  | .disc (.bernoulli _), [p] => p.isFloat
  | .disc (.uniformInt _ _), _ => true
  | .cont (.exponential _), [lam] => lam.isFloat || lam.isInt
  | .cont (.uniform _ _), [lo, hi] => lo.isFloat || hi.isFloat || (lo.isInt && hi.isInt)
  | .cont (.gaussian _ _), [mu, _] => mu.isFloat
  | _, _ => false

/-- `E(X)`, `mean(X)` -/
def bMean : Body := fun _ args =>
  match args with
  | [.rv x] => .ok (.num (deliver x.meanFloat x.mean))
  | _ => bad

/-! ### the table: implementation descriptor ↦ body

  Keys are the strings of `Gen.Registry.implNames` (function name | signature | qualified name of
  the registered callable with its closure cells).  A descriptor that is not listed (plots, `quit`,
  `rand`, `seed`, `sample`, `now`, `today`, or a body whose source changed) has no body: calling
  it is `unmodelled`. -/

/-- the base an `interval_ln` / `interval_log10` / `interval_log2` passes to `interval_log` -/
inductive LogBase where
  | e | ten | two
deriving DecidableEq, Repr

def LogBase.num : LogBase → Num
  | .e => .flt Elementary.eFloat
  | .ten => .int 10
  | .two => .int 2

/-- names of the registered bodies modelled above (so that the table below is data the kernel can
    compare: `decide` on "which body does this call reach") -/
inductive BodyCode where
  | lin (op : BinOp) | trueDiv | fracDiv | mod | pow
  | cmp (name : String)
  | const (k : Int)                         -- the (Any, Any) catch-alls of == and !=
  | fn1 (f : Elementary.Fn) | log2args | qfn (f : Elementary.Fn)
  | varMax | varMin
  | choose | factorial
  | combComb (times : Bool) | combNum (times : Bool) | numComb (times : Bool)
  | qtyQty (name : String) (rule : QvRule) (wrap : Bool)
  | numQty (name : String) (rule : QvRule) (wrap : Bool)
  | qtyNum (name : String) (rule : QvRule) (wrap : Bool)
  | arrProd | arrSum | arrMean | arrMedian | arrSize | arrMax | arrMin | inArray | range | kaRange
  | ivNumOp (op : String) | makeInterval | ivContains | inInterval | ivPow | ident | ivFlip | ivSqrt
  | ivLogFixed (b : LogBase) | ivLog | ivAbs | ivCmp (name : String) (shape : IvCmpShape) | ivEq (negate : Bool)
  | ivLower | ivUpper | ivMin | ivMax | ivSize | plusMinus
  | instFloor | instCeil | instSub | instQty (plus : Bool) | instInt (plus : Bool)
  | instCmp (op : Instant.Cmp) | instField (f : InstField)
  | mkRv (k : RvKind) | rvMean | event1 (op : Prob.Op) | event2 (o1 o2 : Prob.Op) | prob
  | rev (c : BodyCode)
deriving DecidableEq, Repr

def BodyCode.run : BodyCode → Body
  | .lin op => bNum2 (pyLin op)
  | .trueDiv => bNum2 pyTrueDiv
  | .fracDiv => bFracDiv
  | .mod => bNum2 pyMod
  | .pow => bPow
  | .cmp name => bCmp name
  | .const k => fun _ _ => .ok (.num (.int k))
  | .fn1 f => bNum1 (Elementary.body f)
  | .log2args => bNum2 Elementary.kaLog
  | .qfn f => bQtyFn f
  | .varMax => bVarMax
  | .varMin => bVarMin
  | .choose => bChoose
  | .factorial => bFactorial
  | .combComb t => bComb2 (if t then Comb.combTimesComb else Comb.combDivComb)
  | .combNum t => bCombNum (if t then Comb.combTimesFrac else Comb.combDivFrac)
  | .numComb t => bNumComb (if t then Comb.fracTimesComb else Comb.fracDivComb)
  | .qtyQty n r w => bQtyQty n r w
  | .numQty n r w => bNumQty n r w
  | .qtyNum n r w => bQtyNum n r w
  | .arrProd => bArrProd | .arrSum => bArrSum | .arrMean => bArrMean | .arrMedian => bArrMedian
  | .arrSize => bArrSize | .arrMax => bArrMax | .arrMin => bArrMin | .inArray => bInArray
  | .range => bRange | .kaRange => bKaRange
  | .ivNumOp op => bIvNumOp op
  | .makeInterval => bMakeInterval | .ivContains => bIvContains | .inInterval => bInInterval
  | .ivPow => bIvPow
  | .ident => fun _ args => match args with | [x] => .ok x | _ => bad
  | .ivFlip => bIvFlip | .ivSqrt => bIvSqrt
  | .ivLogFixed b => bIvLogBase b.num
  | .ivLog => bIvLog | .ivAbs => bIvAbs
  | .ivCmp n sh => bIvCmp n sh
  | .ivEq neg => bIvEq neg
  | .ivLower => bIvLower | .ivUpper => bIvUpper | .ivMin => bIvMin | .ivMax => bIvMax | .ivSize => bIvSize
  | .plusMinus => bPlusMinus
  | .instFloor => bInst1 Instant.floorInstant
  | .instCeil => bInst1 Instant.ceilInstant
  | .instSub => bInstSub
  | .instQty plus => bInstQty plus
  | .instInt plus => bInstInt plus
  | .instCmp op => bInstCmp op
  | .instField f => bInstField f
  | .mkRv k => bMkRv k
  | .rvMean => bMean
  | .event1 op => bEvent1 op
  | .event2 o1 o2 => bEvent2 o1 o2
  | .prob => bProb
  | .rev c => bRev c.run

def implTable : List (String × BodyCode) := [
  -- numbers: BINARY_OPS
  ("+|(Number, Number)|_operator.add", .lin .add),
  ("-|(Number, Number)|_operator.sub", .lin .sub),
  ("*|(Number, Number)|_operator.mul", .lin .mul),
  ("/|(Number, Number)|_operator.truediv", .trueDiv),
  ("/|(Integral, Integral)|ka.types.fraction_divide", .fracDiv),
  ("%|(Number, Number)|_operator.mod", .mod),
  ("^|(Number, Number)|ka.functions.strict_pow", .pow),
  ("<|(Number, Number)|ka.functions.intify.<locals>.f_new[_operator.lt]", .cmp "<"),
  ("<=|(Number, Number)|ka.functions.intify.<locals>.f_new[_operator.le]", .cmp "<="),
  ("==|(Number, Number)|ka.functions.intify.<locals>.f_new[_operator.eq]", .cmp "=="),
  ("!=|(Number, Number)|ka.functions.intify.<locals>.f_new[_operator.ne]", .cmp "!="),
  (">|(Number, Number)|ka.functions.intify.<locals>.f_new[_operator.gt]", .cmp ">"),
  (">=|(Number, Number)|ka.functions.intify.<locals>.f_new[_operator.ge]", .cmp ">="),
  ("==|(Any, Any)|ka.functions.<lambda:register_function(lambda x, y: 0, \"==\", (Any, Any))>", .const 0),
  ("!=|(Any, Any)|ka.functions.<lambda:register_function(lambda x, y: 1, \"!=\", (Any, Any))>", .const 1),
  -- numbers: NUMERIC_FUNCTIONS and their quantity versions
  ("+|(Number)|_operator.pos", .fn1 .pos),
  ("-|(Number)|_operator.neg", .fn1 .neg),
  ("abs|(Number)|builtins.abs", .fn1 .abs),
  ("floor|(Number)|math.floor", .fn1 .floor),
  ("ceil|(Number)|math.ceil", .fn1 .ceil),
  ("round|(Number)|builtins.round", .fn1 .round),
  ("int|(Number)|builtins.int", .fn1 .toInt),
  ("float|(Number)|builtins.float", .fn1 .toFloat),
  ("sin|(Number)|math.sin", .fn1 .sin),
  ("cos|(Number)|math.cos", .fn1 .cos),
  ("tan|(Number)|math.tan", .fn1 .tan),
  ("sqrt|(Number)|ka.functions.ka_sqrt", .fn1 .sqrt),
  ("ln|(Number)|ka.functions.ka_ln", .fn1 .ln),
  ("log10|(Number)|ka.functions.ka_log10", .fn1 .log10),
  ("log2|(Number)|ka.functions.ka_log2", .fn1 .log2),
  ("log|(Number, Number)|ka.functions.ka_log", .log2args),
  ("+|(Quantity)|ka.functions.register_numeric_function.<locals>.quantity_function[_operator.pos]", .qfn .pos),
  ("-|(Quantity)|ka.functions.register_numeric_function.<locals>.quantity_function[_operator.neg]", .qfn .neg),
  ("abs|(Quantity)|ka.functions.register_numeric_function.<locals>.quantity_function[builtins.abs]", .qfn .abs),
  ("floor|(Quantity)|ka.functions.register_numeric_function.<locals>.quantity_function[math.floor]", .qfn .floor),
  ("ceil|(Quantity)|ka.functions.register_numeric_function.<locals>.quantity_function[math.ceil]", .qfn .ceil),
  ("round|(Quantity)|ka.functions.register_numeric_function.<locals>.quantity_function[builtins.round]", .qfn .round),
  ("int|(Quantity)|ka.functions.register_numeric_function.<locals>.quantity_function[builtins.int]", .qfn .toInt),
  ("float|(Quantity)|ka.functions.register_numeric_function.<locals>.quantity_function[builtins.float]", .qfn .toFloat),
  ("sin|(Quantity)|ka.functions.register_numeric_function.<locals>.quantity_function[math.sin]", .qfn .sin),
  ("cos|(Quantity)|ka.functions.register_numeric_function.<locals>.quantity_function[math.cos]", .qfn .cos),
  ("tan|(Quantity)|ka.functions.register_numeric_function.<locals>.quantity_function[math.tan]", .qfn .tan),
  ("sqrt|(Quantity)|ka.functions.register_numeric_function.<locals>.quantity_function[ka.functions.ka_sqrt]", .qfn .sqrt),
  ("ln|(Quantity)|ka.functions.register_numeric_function.<locals>.quantity_function[ka.functions.ka_ln]", .qfn .ln),
  ("log10|(Quantity)|ka.functions.register_numeric_function.<locals>.quantity_function[ka.functions.ka_log10]", .qfn .log10),
  ("log2|(Quantity)|ka.functions.register_numeric_function.<locals>.quantity_function[ka.functions.ka_log2]", .qfn .log2),
  ("max|(*Number)|ka.functions.max_vararg", .varMax),
  ("min|(*Number)|ka.functions.min_vararg", .varMin),
  -- lazy combinatorics
  ("C|(Integral, Integral)|ka.utils.lazy_choose", .choose),
  ("!|(Integral)|ka.utils.lazy_factorial", .factorial),
  ("*|(Combinatoric, Combinatoric)|ka.functions.comb_times_comb", .combComb true),
  ("/|(Combinatoric, Combinatoric)|ka.functions.comb_div_comb", .combComb false),
  ("*|(Combinatoric, Rational)|ka.functions.comb_times_frac", .combNum true),
  ("/|(Combinatoric, Rational)|ka.functions.comb_div_frac", .combNum false),
  ("*|(Rational, Combinatoric)|ka.functions.frac_times_comb", .numComb true),
  ("/|(Rational, Combinatoric)|ka.functions.frac_div_comb", .numComb false),
  -- quantities: register_quantities_op
  ("+|(Quantity, Quantity)|ka.functions.register_quantities_op.<locals>.f['+',None,True]", .qtyQty "+" .same true),
  ("+|(Number, Quantity)|ka.functions.register_quantities_op.<locals>.left_is_number[ka.functions.register_quantities_op.<locals>.f['+',None,True]]", .numQty "+" .same true),
  ("+|(Quantity, Number)|ka.functions.register_quantities_op.<locals>.right_is_number[ka.functions.register_quantities_op.<locals>.f['+',None,True]]", .qtyNum "+" .same true),
  ("-|(Quantity, Quantity)|ka.functions.register_quantities_op.<locals>.f['-',None,True]", .qtyQty "-" .same true),
  ("-|(Number, Quantity)|ka.functions.register_quantities_op.<locals>.left_is_number[ka.functions.register_quantities_op.<locals>.f['-',None,True]]", .numQty "-" .same true),
  ("-|(Quantity, Number)|ka.functions.register_quantities_op.<locals>.right_is_number[ka.functions.register_quantities_op.<locals>.f['-',None,True]]", .qtyNum "-" .same true),
  ("*|(Quantity, Quantity)|ka.functions.register_quantities_op.<locals>.f['*',ka.functions.<lambda:register_quantities_op(\"*\", lambda qv1, qv2: qv1*qv2)>,True]", .qtyQty "*" .mul true),
  ("*|(Number, Quantity)|ka.functions.register_quantities_op.<locals>.left_is_number[ka.functions.register_quantities_op.<locals>.f['*',ka.functions.<lambda:register_quantities_op(\"*\", lambda qv1, qv2: qv1*qv2)>,True]]", .numQty "*" .mul true),
  ("*|(Quantity, Number)|ka.functions.register_quantities_op.<locals>.right_is_number[ka.functions.register_quantities_op.<locals>.f['*',ka.functions.<lambda:register_quantities_op(\"*\", lambda qv1, qv2: qv1*qv2)>,True]]", .qtyNum "*" .mul true),
  ("/|(Quantity, Quantity)|ka.functions.register_quantities_op.<locals>.f['/',ka.functions.<lambda:register_quantities_op(\"/\", lambda qv1, qv2: qv1/qv2)>,True]", .qtyQty "/" .div true),
  ("/|(Number, Quantity)|ka.functions.register_quantities_op.<locals>.left_is_number[ka.functions.register_quantities_op.<locals>.f['/',ka.functions.<lambda:register_quantities_op(\"/\", lambda qv1, qv2: qv1/qv2)>,True]]", .numQty "/" .div true),
  ("/|(Quantity, Number)|ka.functions.register_quantities_op.<locals>.right_is_number[ka.functions.register_quantities_op.<locals>.f['/',ka.functions.<lambda:register_quantities_op(\"/\", lambda qv1, qv2: qv1/qv2)>,True]]", .qtyNum "/" .div true),
  ("<|(Quantity, Quantity)|ka.functions.register_quantities_op.<locals>.f['<',None,False]", .qtyQty "<" .same false),
  ("<|(Number, Quantity)|ka.functions.register_quantities_op.<locals>.left_is_number[ka.functions.register_quantities_op.<locals>.f['<',None,False]]", .numQty "<" .same false),
  ("<|(Quantity, Number)|ka.functions.register_quantities_op.<locals>.right_is_number[ka.functions.register_quantities_op.<locals>.f['<',None,False]]", .qtyNum "<" .same false),
  ("<=|(Quantity, Quantity)|ka.functions.register_quantities_op.<locals>.f['<=',None,False]", .qtyQty "<=" .same false),
  ("<=|(Number, Quantity)|ka.functions.register_quantities_op.<locals>.left_is_number[ka.functions.register_quantities_op.<locals>.f['<=',None,False]]", .numQty "<=" .same false),
  ("<=|(Quantity, Number)|ka.functions.register_quantities_op.<locals>.right_is_number[ka.functions.register_quantities_op.<locals>.f['<=',None,False]]", .qtyNum "<=" .same false),
  ("==|(Quantity, Quantity)|ka.functions.register_quantities_op.<locals>.f['==',None,False]", .qtyQty "==" .same false),
  ("==|(Number, Quantity)|ka.functions.register_quantities_op.<locals>.left_is_number[ka.functions.register_quantities_op.<locals>.f['==',None,False]]", .numQty "==" .same false),
  ("==|(Quantity, Number)|ka.functions.register_quantities_op.<locals>.right_is_number[ka.functions.register_quantities_op.<locals>.f['==',None,False]]", .qtyNum "==" .same false),
  ("!=|(Quantity, Quantity)|ka.functions.register_quantities_op.<locals>.f['!=',None,False]", .qtyQty "!=" .same false),
  ("!=|(Number, Quantity)|ka.functions.register_quantities_op.<locals>.left_is_number[ka.functions.register_quantities_op.<locals>.f['!=',None,False]]", .numQty "!=" .same false),
  ("!=|(Quantity, Number)|ka.functions.register_quantities_op.<locals>.right_is_number[ka.functions.register_quantities_op.<locals>.f['!=',None,False]]", .qtyNum "!=" .same false),
  (">|(Quantity, Quantity)|ka.functions.register_quantities_op.<locals>.f['>',None,False]", .qtyQty ">" .same false),
  (">|(Number, Quantity)|ka.functions.register_quantities_op.<locals>.left_is_number[ka.functions.register_quantities_op.<locals>.f['>',None,False]]", .numQty ">" .same false),
  (">|(Quantity, Number)|ka.functions.register_quantities_op.<locals>.right_is_number[ka.functions.register_quantities_op.<locals>.f['>',None,False]]", .qtyNum ">" .same false),
  (">=|(Quantity, Quantity)|ka.functions.register_quantities_op.<locals>.f['>=',None,False]", .qtyQty ">=" .same false),
  (">=|(Number, Quantity)|ka.functions.register_quantities_op.<locals>.left_is_number[ka.functions.register_quantities_op.<locals>.f['>=',None,False]]", .numQty ">=" .same false),
  (">=|(Quantity, Number)|ka.functions.register_quantities_op.<locals>.right_is_number[ka.functions.register_quantities_op.<locals>.f['>=',None,False]]", .qtyNum ">=" .same false),
  -- arrays
  ("prod|(Array)|ka.functions.array_prod", .arrProd),
  ("sum|(Array)|ka.functions.array_sum", .arrSum),
  ("mean|(Array)|ka.functions.array_mean", .arrMean),
  ("median|(Array)|ka.functions.array_median", .arrMedian),
  ("size|(Array)|ka.functions.array_size", .arrSize),
  ("max|(Array)|ka.functions.array_max", .arrMax),
  ("min|(Array)|ka.functions.array_min", .arrMin),
  ("in|(Any, Array)|ka.functions.in_array", .inArray),
  ("range|(Integral, Integral)|ka.functions.<lambda:register_function(lambda lo, hi: Array(list(range(lo, hi+1))), \"range\", (Integral, Integral), \"Returns an array of the i>", .range),
  ("range|(Number, Number, Number)|ka.functions.ka_range", .kaRange),
  -- intervals
  ("+|(Interval, Number)|ka.functions.make_interval_with_num_op.<locals>.op['+']", .ivNumOp "+"),
  ("+|(Number, Interval)|ka.functions.register_commutative_op.<locals>.reverse_f[ka.functions.make_interval_with_num_op.<locals>.op['+']]", .rev (.ivNumOp "+")),
  ("*|(Interval, Number)|ka.functions.make_interval_with_num_op.<locals>.op['*']", .ivNumOp "*"),
  ("*|(Number, Interval)|ka.functions.register_commutative_op.<locals>.reverse_f[ka.functions.make_interval_with_num_op.<locals>.op['*']]", .rev (.ivNumOp "*")),
  ("-|(Interval, Number)|ka.functions.make_interval_with_num_op.<locals>.op['-']", .ivNumOp "-"),
  ("/|(Interval, Number)|ka.functions.make_interval_with_num_op.<locals>.op['/']", .ivNumOp "/"),
  ("interval|(Number, Number)|ka.functions.make_interval", .makeInterval),
  ("contains|(Interval, Number)|ka.functions.interval_contains", .ivContains),
  ("in|(Number, Interval)|ka.functions.in_interval", .inInterval),
  ("^|(Interval, Number)|ka.functions.interval_to_power", .ivPow),
  ("+|(Interval)|ka.functions.<lambda:register_function(lambda x: x, \"+\", (Interval,))>", .ident),
  ("-|(Interval)|ka.functions.interval_flip", .ivFlip),
  ("sqrt|(Interval)|ka.functions.interval_sqrt", .ivSqrt),
  ("ln|(Interval)|ka.functions.interval_ln", .ivLogFixed .e),
  ("log10|(Interval)|ka.functions.interval_log10", .ivLogFixed .ten),
  ("log2|(Interval)|ka.functions.interval_log2", .ivLogFixed .two),
  ("log|(Interval, Number)|ka.functions.interval_log", .ivLog),
  ("abs|(Interval)|ka.functions.interval_abs", .ivAbs),
  ("<|(Interval, Number)|ka.functions.register_interval_cmp.<locals>.interval_num['<']", .ivCmp "<" .intervalNum),
  ("<|(Number, Interval)|ka.functions.register_interval_cmp.<locals>.num_interval['<']", .ivCmp "<" .numInterval),
  ("<|(Interval, Interval)|ka.functions.register_interval_cmp.<locals>.interval_interval['<']", .ivCmp "<" .intervalInterval),
  ("<=|(Interval, Number)|ka.functions.register_interval_cmp.<locals>.interval_num['<=']", .ivCmp "<=" .intervalNum),
  ("<=|(Number, Interval)|ka.functions.register_interval_cmp.<locals>.num_interval['<=']", .ivCmp "<=" .numInterval),
  ("<=|(Interval, Interval)|ka.functions.register_interval_cmp.<locals>.interval_interval['<=']", .ivCmp "<=" .intervalInterval),
  (">|(Interval, Number)|ka.functions.register_interval_cmp.<locals>.swap.<locals>.swapped_f[ka.functions.register_interval_cmp.<locals>.num_interval['<']]", .rev (.ivCmp "<" .numInterval)),
  (">|(Number, Interval)|ka.functions.register_interval_cmp.<locals>.swap.<locals>.swapped_f[ka.functions.register_interval_cmp.<locals>.interval_num['<']]", .rev (.ivCmp "<" .intervalNum)),
  (">|(Interval, Interval)|ka.functions.register_interval_cmp.<locals>.swap.<locals>.swapped_f[ka.functions.register_interval_cmp.<locals>.interval_interval['<']]", .rev (.ivCmp "<" .intervalInterval)),
  (">=|(Interval, Number)|ka.functions.register_interval_cmp.<locals>.swap.<locals>.swapped_f[ka.functions.register_interval_cmp.<locals>.num_interval['<=']]", .rev (.ivCmp "<=" .numInterval)),
  (">=|(Number, Interval)|ka.functions.register_interval_cmp.<locals>.swap.<locals>.swapped_f[ka.functions.register_interval_cmp.<locals>.interval_num['<=']]", .rev (.ivCmp "<=" .intervalNum)),
  (">=|(Interval, Interval)|ka.functions.register_interval_cmp.<locals>.swap.<locals>.swapped_f[ka.functions.register_interval_cmp.<locals>.interval_interval['<=']]", .rev (.ivCmp "<=" .intervalInterval)),
  ("==|(Interval, Interval)|ka.functions.interval_eq", .ivEq false),
  ("!=|(Interval, Interval)|ka.functions.interval_neq", .ivEq true),
  ("lower|(Interval)|ka.types.interval_get_lower", .ivLower),
  ("upper|(Interval)|ka.types.interval_get_upper", .ivUpper),
  ("min|(Interval, Number)|ka.functions.interval_min", .ivMin),
  ("min|(Number, Interval)|ka.functions.register_commutative_op.<locals>.reverse_f[ka.functions.interval_min]", .rev .ivMin),
  ("max|(Interval, Number)|ka.functions.interval_max", .ivMax),
  ("max|(Number, Interval)|ka.functions.register_commutative_op.<locals>.reverse_f[ka.functions.interval_max]", .rev .ivMax),
  ("size|(Interval)|ka.functions.interval_size", .ivSize),
  ("±|(Number, Number)|ka.functions.interval_plusminus", .plusMinus),
  ("tol|(Number, Number)|ka.functions.interval_plusminus", .plusMinus),
  -- instants
  ("floor|(Instant)|ka.types.floor_instant", .instFloor),
  ("ceil|(Instant)|ka.types.ceil_instant", .instCeil),
  ("-|(Instant, Instant)|ka.types.instant_minus_instant", .instSub),
  ("+|(Instant, Quantity)|ka.types.instant_plus_quantity", .instQty true),
  ("+|(Quantity, Instant)|ka.functions.register_commutative_op.<locals>.reverse_f[ka.types.instant_plus_quantity]", .rev (.instQty true)),
  ("+|(Instant, Integral)|ka.types.instant_plus_int", .instInt true),
  ("+|(Integral, Instant)|ka.functions.register_commutative_op.<locals>.reverse_f[ka.types.instant_plus_int]", .rev (.instInt true)),
  ("-|(Instant, Quantity)|ka.types.instant_minus_quantity", .instQty false),
  ("-|(Instant, Integral)|ka.types.instant_minus_int", .instInt false),
  ("==|(Instant, Instant)|ka.functions.intify.<locals>.f_new[_operator.eq]", .instCmp .eq),
  ("!=|(Instant, Instant)|ka.functions.intify.<locals>.f_new[_operator.ne]", .instCmp .ne),
  ("<|(Instant, Instant)|ka.functions.intify.<locals>.f_new[ka.types.instant_lt]", .instCmp .lt),
  ("<=|(Instant, Instant)|ka.functions.intify.<locals>.f_new[ka.types.instant_leq]", .instCmp .le),
  (">|(Instant, Instant)|ka.functions.intify.<locals>.f_new[ka.types.instant_gt]", .instCmp .gt),
  (">=|(Instant, Instant)|ka.functions.intify.<locals>.f_new[ka.types.instant_geq]", .instCmp .ge),
  ("year|(Instant)|ka.types.get_year", .instField .year),
  ("month|(Instant)|ka.types.get_month", .instField .month),
  ("day|(Instant)|ka.types.get_day", .instField .day),
  ("hour|(Instant)|ka.types.get_hour", .instField .hour),
  ("minute|(Instant)|ka.types.get_minute", .instField .minute),
  ("second|(Instant)|ka.types.get_second", .instField .second),
  -- probability
  ("Binomial|(Integral, Number)|ka.probability.Binomial", .mkRv .binomial),
  ("Poisson|(Integral)|ka.probability.Poisson", .mkRv .poisson),
  ("Geometric|(Number)|ka.probability.Geometric", .mkRv .geometric),
  ("Bernoulli|(Number)|ka.probability.Bernoulli", .mkRv .bernoulli),
  ("UniformInt|(Integral, Integral)|ka.probability.UniformInt", .mkRv .uniformInt),
  ("Exponential|(Number)|ka.probability.Exponential", .mkRv .exponential),
  ("Uniform|(Number, Number)|ka.probability.Uniform", .mkRv .uniform),
  ("Gaussian|(Number, Number)|ka.probability.Gaussian", .mkRv .gaussian),
  ("mean|(RandomVariable)|ka.functions.<lambda:register_function(lambda rv: rv.mean(), \"mean\", (RandomVariable,), \"Get the mean of a random variable.\")>", .rvMean),
  ("E|(RandomVariable)|ka.functions.<lambda:register_function(lambda rv: rv.mean(), \"E\", (RandomVariable,), \"Expectation of a random variable.\")>", .rvMean),
  ("=|(DiscreteRandomVariable, Integral)|ka.functions.<lambda:register_function(lambda x, y: Event(ComparisonOp.EQ, x, y), ComparisonOp.EQ, (DiscreteRandomVariable, Integral), \"Compa>", .event1 .eq),
  ("<|(Number, RandomVariable)|ka.functions.make_event_fun.<locals>.event_fun['<']", .event1 .lt),
  ("<|(RandomVariable, Number)|ka.functions.make_event_fun.<locals>.event_fun['<']", .event1 .lt),
  ("<=|(Number, RandomVariable)|ka.functions.make_event_fun.<locals>.event_fun['<=']", .event1 .le),
  ("<=|(RandomVariable, Number)|ka.functions.make_event_fun.<locals>.event_fun['<=']", .event1 .le),
  ("<_<|(Number, RandomVariable, Number)|ka.functions.make_double_event_fun.<locals>.event_fun['<','<']", .event2 .lt .lt),
  ("<_<=|(Number, RandomVariable, Number)|ka.functions.make_double_event_fun.<locals>.event_fun['<','<=']", .event2 .lt .le),
  ("<=_<|(Number, RandomVariable, Number)|ka.functions.make_double_event_fun.<locals>.event_fun['<=','<']", .event2 .le .lt),
  ("<=_<=|(Number, RandomVariable, Number)|ka.functions.make_double_event_fun.<locals>.event_fun['<=','<=']", .event2 .le .le),
  ("P|(Event)|ka.functions.<lambda:register_function(lambda event: event.probability(), \"P\", (etype,), \"Evaluate the probability of an event.\")>", .prob),
  ("P|(DoubleEvent)|ka.functions.<lambda:register_function(lambda event: event.probability(), \"P\", (etype,), \"Evaluate the probability of an event.\")>", .prob)]

/-- the body registered under an implementation descriptor -/
def implBody (rec : Disp) (desc : String) : Option (List Val → R Val) :=
  (implTable.lookup desc).map (fun c => c.run rec)

/-! ### dispatch -/

def derr : Dispatch.DErr → Err
  | .unknownFunction => .unknownFn
  | .noMatch => .noMatch
  | .unknownKeyword => .unknownKw
  | .badKeyword => .badKw

/-- what `dispatch` is about to call: positional types and vararg type of the chosen signature, the
    descriptor of its implementation, and the modelled body registered under that descriptor -/
structure Chosen where
  pos : List Nat
  vararg : Option Nat
  desc : String
  code : Option BodyCode
deriving DecidableEq, Repr

/-- `dispatch` up to the call, over the generated registry -/
def resolveDesc (name : String) (classes : List Nat) (kw : List (Nat × Nat)) : Except Dispatch.DErr Chosen :=
  match Dispatch.resolve Gen.Registry.inst Gen.Registry.sub Gen.Registry.registry name classes kw with
  | .error e => .error e
  | .ok s =>
    let desc := (Gen.Registry.implNames[s.impl]?).getD "?"
    .ok ⟨s.pos, s.vararg, desc, implTable.lookup desc⟩

/-- `coerce_to(x, t)`: a lazy combinatoric is resolved for a parameter declared exactly `Number` -/
def coerceTo (x : Val) (t : Nat) : R Val :=
  match x with
  | .comb c => if t == tNumber then liftE c.resolve |>.map .num else .ok (.comb c)
  | v => .ok v

/-- `FunctionSignature.coerce_args` -/
def coerceArgs : List Nat → Option Nat → List Val → R (List Val)
  | t :: ts, va, a :: as => do
    let c ← coerceTo a t
    let cs ← coerceArgs ts va as
    .ok (c :: cs)
  | [], some v, a :: as => do
    let c ← coerceTo a v
    let cs ← coerceArgs [] (some v) as
    .ok (c :: cs)
  | _, _, _ => .ok []

/-- the keyword arguments as the `dict` eval_funcall builds: a repeated name keeps its first
    position and its last value -/
def kwDict : List (String × Val) → List (String × Val)
  | [] => []
  | (k, v) :: rest =>
    let tail := kwDict rest
    match tail.lookup k with
    | some v' => (k, v') :: tail.filter (fun p => p.1 != k)
    | Option.none => (k, v) :: tail

def kwIds (kw : List (String × Val)) : List (Nat × Nat) :=
  (kwDict kw).map (fun p => (Gen.Registry.kwNames.idxOf p.1, classOf p.2))

def shortName (desc : String) : String := (desc.splitOn "|").headD desc

/-- `functions.dispatch(name, args, kw_args)`; the fuel bounds the nesting of dispatch calls made
    by registered bodies -/
def dispatchV : Nat → String → List Val → List (String × Val) → R Val
  | 0, _, _, _ => .error .fuel
  | n + 1, name, args, kw =>
    match resolveDesc name (args.map classOf) (kwIds kw) with
    | .error e => raise (derr e)
    | .ok ⟨_, _, desc, Option.none⟩ => .error (.unmodelled ("function " ++ shortName desc))
    | .ok ⟨pos, va, _, some code⟩ => do
      let cargs ← coerceArgs pos va args
      let r ← code.run (fun nm as => dispatchV n nm as []) cargs
      simplifyVal r

/-- nesting depth of `dispatch` supplied at top level (the code never nests deeper than 6) -/
def dispatchFuel : Nat := 10

def dispatchTop (name : String) (args : List Val) (kw : List (String × Val)) : R Val :=
  dispatchV dispatchFuel name args kw

/-! ### quantities -/

def cps (s : String) : List Nat := s.toList.map Char.toNat

def toQSig (s : Parser.UnitSig) : Qty.Sig :=
  ⟨s.units.map (fun p => (cps p.1, p.2)), s.inv.map (fun p => (cps p.1, p.2))⟩

def ofQVal : Qty.QVal → Val
  | .num n => .num n
  | .qty m d => .qty m d

/-- a unit exponent beyond this is outside the model (`unit.multiple ** exp` with a huge exponent) -/
def hugeSig (s : Parser.UnitSig) : Bool := (s.units ++ s.inv).any (fun p => p.2.natAbs > 10000)

/-- `make_quantity(magnitude, unit_signature)` -/
def makeQuantity (v : Val) (sig : Parser.UnitSig) : R Val := do
  if hugeSig sig then .error (.unmodelled "huge unit exponent") else
  match ← resolveLazy v with
  | .num x => liftE (Qty.makeQuantity Gen.Units.table (.num x) (toQSig sig)) |>.map ofQVal
  | _ => raise .eval

/-- `convert_quantity(quantity, unit_sig)`: the signature is composed first, then the operand is
    required to be a Quantity of that dimension -/
def convertQuantity (v : Val) (sig : Parser.UnitSig) : R Val :=
  if hugeSig sig then .error (.unmodelled "huge unit exponent") else
  let q : Qty.QVal := match v with
    | .qty m d => .qty m d
    | _ => .num (.int 0)                  -- any non-quantity: EvalError after compose_units
  liftE (Qty.convertQuantity Gen.Units.table q (toQSig sig)) |>.map ofQVal

/-! ### comprehensions (`eval_comprehension`, `run_comprehension`) -/

/-- `bool_like(x)` and `x == 0`: `some true` = 1, `some false` = 0, `none` = not boolean-interpretable.
    A lazy combinatoric compares through `Combinatoric.__eq__`, i.e. by its resolved value. -/
def boolLike : Val → R (Option Bool)
  | .num x => .ok (if cmpEq x (.int 1) then some true else if cmpEq x (.int 0) then some false else Option.none)
  | .comb c => do
    let x ← liftE c.resolve
    .ok (if cmpEq x (.int 1) then some true else if cmpEq x (.int 0) then some false else Option.none)
  | _ => .ok Option.none

/-- the `for name, subarray in zip(assign_names, subarrays)` loop at index `i`: `none` when some
    generator is exhausted -/
def bindGens (i : Nat) : List (String × List Val) → Env → Option Env
  | [], env => some env
  | (n, a) :: rest, env =>
    match a[i]? with
    | some v => bindGens i rest (env.set n v)
    | Option.none => Option.none

/-- the `for condition in condition_nodes` loop: every condition is evaluated (no short-circuit),
    each must be 0 or 1 -/
def condLoop (env : Env) : List (Env → R Val) → Bool → R Bool
  | [], ok => .ok ok
  | c :: cs, ok => do
    let v ← c env
    match ← boolLike v with
    | Option.none => raise .eval
    | some b => condLoop env cs (ok && b)

/-- `run_comprehension`: indices 0, 1, 2, … until a generator is exhausted -/
def comprLoop (gens : List (String × List Val)) (conds : List (Env → R Val)) (body : Env → R Val) (env : Env) :
    Nat → Nat → List Val → R Val
  | 0, _, _ => .error .fuel
  | f + 1, i, acc =>
    match bindGens i gens env with
    | Option.none => .ok (.arr acc.reverse)
    | some env' => do
      let keep ← condLoop env' conds true
      if keep then do
        let v ← body env'
        let v ← resolveLazy v
        comprLoop gens conds body env f (i + 1) (v :: acc)
      else comprLoop gens conds body env f (i + 1) acc

def arrays? : List (String × Val) → Option (List (String × List Val))
  | [] => some []
  | (n, .arr xs) :: r => (arrays? r).map ((n, xs) :: ·)
  | _ => Option.none

/-- `eval_comprehension` after the generator expressions have been evaluated.  The generator
    variables are saved before and restored after the loop (also when it raises), and no other
    variable can be assigned inside an expression: the session's bindings are unchanged, so the
    loop runs on a local copy. -/
def comprehension (subs : List (String × Val)) (conds : List (Env → R Val)) (body : Env → R Val) (env : Env) : R Val :=
  match arrays? subs with
  | Option.none => raise .eval
  | some gens =>
    let n := (gens.map (fun g => g.2.length)).foldl min ((gens.headD ("", [])).2.length)
    comprLoop gens conds body env (n + 1) 0 []

/-! ### eval_node -/

def cmpName (o : Parser.PCmp) : String := o.spelling

/-- the value of an instant literal: `instant_from_iso(raw)` (types.py).  It is computed when the
    PARSER reads the token (parse.py `parse_instant`), so a malformed literal fails the parse stage:
    `runTree` / `runTokens` check every literal before anything is evaluated (`checkInstants`) and
    the two failure branches here are not reached from `execute`. -/
def instLeaf (s : String) : R Val :=
  match Instant.instantFromIso s.toList with
  | .ok i => .ok (.inst i)
  | .invalid => raise .runtime
  | .notModelled => .error (.unmodelled "instant form")

mutual
/-- `eval_node` on an expression tree (every mode except ASSIGNMENT and STATEMENTS, which only
    occur at statement level: `wfE`).  Children left to right, then `eval_based_on_mode`. -/
def evalE (env : Env) : Parser.Ast → R Val
  | .num v => liftE (simplify v) |>.map .num          -- LEAF: `simplify_number(v)` (parse_number)
  | .str s => .ok (.str s)
  | .inst s => instLeaf s                             -- LEAF: the Instant built by `parse_instant`
  | .var x =>
    match env.get x with
    | some v => .ok v
    | Option.none => raise .eval                      -- "Unassigned variable"
  | .bin o l r => do
    let x ← evalE env l
    let y ← evalE env r
    dispatchTop o.spelling [x, y] []
  | .sign neg x => do
    let v ← evalE env x
    dispatchTop (if neg then "-" else "+") [v] []
  | .fact x => do
    let v ← evalE env x
    dispatchTop "!" [v] []
  | .range lo hi => do
    let x ← evalE env lo
    let y ← evalE env hi
    dispatchTop "range" [x, y] []
  | .interval lo hi => do
    let x ← evalE env lo
    let y ← evalE env hi
    dispatchTop "interval" [x, y] []
  | .cmp1 o a b => do
    let x ← evalE env a
    let y ← evalE env b
    dispatchTop (cmpName o) [x, y] []
  | .cmp2 o1 o2 a b c => do
    let x ← evalE env a
    let y ← evalE env b
    let z ← evalE env c
    dispatchTop (cmpName o1 ++ "_" ++ cmpName o2) [x, y, z] []
  | .call name args kws => do
    let xs ← evalEs env args
    let ks ← evalKs env kws
    dispatchTop name xs ks
  | .quantity t sig => do
    let v ← evalE env t
    makeQuantity v sig
  | .convert e sig => do
    let v ← evalE env e
    convertQuantity v sig
  | .array xs => do
    let vs ← evalEs env xs
    let rs ← vs.mapM resolveLazy
    .ok (.arr rs)
  | .compr body gens conds =>
    if gens.isEmpty then raise .eval else do
      let subs ← evalKs env gens
      comprehension subs (evalConds conds) (fun env' => evalE env' body) env
  | .assign _ _ => .error (.unmodelled "assignment inside an expression")
  | .stmts _ => .error (.unmodelled "statements inside an expression")
/-- the children of a node, left to right -/
def evalEs (env : Env) : List Parser.Ast → R (List Val)
  | [] => .ok []
  | x :: xs => do
    let v ← evalE env x
    let vs ← evalEs env xs
    .ok (v :: vs)
/-- named children (KEYWORD_ARG nodes; generator clauses) left to right -/
def evalKs (env : Env) : List (String × Parser.Ast) → R (List (String × Val))
  | [] => .ok []
  | (k, x) :: xs => do
    let v ← evalE env x
    let vs ← evalKs env xs
    .ok ((k, v) :: vs)
/-- the condition nodes of a comprehension as functions of the loop's environment -/
def evalConds : List Parser.Ast → List (Env → R Val)
  | [] => []
  | c :: cs => (fun env' => evalE env' c) :: evalConds cs
end

/-- one statement: the bindings after it (an assignment binds its name; a failing statement
    leaves them as they were) and its value -/
def evalStmt (env : Env) : Parser.Ast → Env × R Val
  | .assign x e =>
    match evalE env e with
    | .ok v => (env.set x v, .ok v)
    | .error er => (env, .error er)
  | s => (env, evalE env s)

/-- the children of the STATEMENTS node, left to right; the first failure aborts, the bindings
    made so far stay (the environment is mutated in place) -/
def runStmts (env : Env) (last : Val) : List Parser.Ast → Env × R Val
  | [] => (env, .ok last)
  | s :: rest =>
    match evalStmt env s with
    | (env', .ok v) => runStmts env' v rest
    | (env', .error e) => (env', .error e)

/-- `eval_parse_tree(root, env)` on a program tree: the session's bindings afterwards and the
    value (`child_values[-1] if child_values else None`) or the failure -/
def runProgram (env : Env) : Parser.Ast → Env × R Val
  | .stmts ss => runStmts env .none ss
  | s => evalStmt env s

/-- `eval_node` on any tree: value and bindings -/
def evalAst (env : Env) (t : Parser.Ast) : R (Val × Env) :=
  match runProgram env t with
  | (env', .ok v) => .ok (v, env')
  | (_, .error e) => .error e

/-! ### reduce_result, display_result, execute -/

/-- `reduce_result` (plots never arise here) -/
def reduceResult : Val → R Val := resolveLazy

/-- `Instant.__str__` = `datetime.isoformat()`: `YYYY-MM-DDTHH:MM:SS`, with `.ffffff` when the
    microsecond is not zero -/
def isoText (i : Instant.Inst) : Display.Text :=
  Instant.textDate i.year i.month i.dayOfMonth ++ 'T' ::
    (if i.micro = 0 then Instant.textHMS i.hour i.minute i.second
     else Instant.textHMSU i.hour i.minute i.second i.micro)

/-- the shortest decimal digits (1 … 17) that read back as the double of exact value `a > 0` -/
def reprSearch (a : Rat) : Nat → Nat → Nat × Int
  | 0, P => Display.sigDigits P a
  | f + 1, P =>
    let me := Display.sigDigits P a
    if ratToFloat ((me.1 : Rat) * Display.pow10 (me.2 - (P : Int) + 1)) == ratToFloat a then me
    else reprSearch a f (P + 1)

/-- `repr(x)` of a finite double (`float_repr_style = 'short'`): shortest round-tripping digits,
    exponent form iff the decimal point position is ≤ -4 or > 16, `.0` appended to a bare integer -/
def reprFloat (x : Float) : Display.Text :=
  let q := floatToRat x
  if q = 0 then ['0', '.', '0'] else
  let a := Display.absRat q
  let me := reprSearch a 16 1
  let body := Display.layoutG 16 (Display.stripZeros (Display.natText me.1)) me.2
  let body := if body.contains '.' || body.contains 'e' then body else body ++ ['.', '0']
  if q < 0 then '-' :: body else body

/-- `str(x)` of a Python number (inside an f-string) -/
def pyStr : Num → Display.Text
  | .int n => Display.intText n
  | .frac q => Display.fracText q
  | .flt x => reprFloat x

/-- `RandomVariable.__str__` -/
def RV.text (x : RV) : Display.Text :=
  let p := fun (i : Nat) => pyStr (x.params.getD i (.int 0))
  match x.law with
  | .disc (.binomial _ _) => "Binomial(n=".toList ++ p 0 ++ ", p=".toList ++ p 1 ++ [')']
  | .disc (.poisson _ _) => "Poisson(rate=".toList ++ p 0 ++ [')']
  | .disc (.geometric _) => "Geometric(p=".toList ++ p 0 ++ [')']
  | .disc (.bernoulli _) => "Bernoulli(p=".toList ++ p 0 ++ [')']
  | .disc (.uniformInt _ _) => "UniformInt(lo=".toList ++ p 0 ++ ", hi=".toList ++ p 1 ++ [')']
  | .cont (.exponential _) => "Exponential(rate=".toList ++ p 0 ++ [')']
  | .cont (.uniform _ _) => "Uniform(lo=".toList ++ p 0 ++ ", hi=".toList ++ p 1 ++ [')']
  | .cont (.gaussian _ _) => "Gaussian(mean=".toList ++ p 0 ++ ", stddev=".toList ++ p 1 ++ [')']

/-- `ComparisonOp` values -/
def opText : Prob.Op → Display.Text
  | .le => ['<', '='] | .lt => ['<'] | .gt => ['>'] | .ge => ['>', '='] | .eq => ['=']

/-- `x op y [op z]` with single spaces -/
def chainText : List Display.Text → List Prob.Op → Display.Text
  | t :: ts, o :: os => t ++ ' ' :: opText o ++ ' ' :: chainText ts os
  | [t], [] => t
  | _, _ => []

/-- `Event.__str__` / `DoubleEvent.__str__` -/
def eventText (ops : List Prob.Op) (pos : Nat) (x : RV) (args : List Num) : Display.Text :=
  "Event(".toList ++
    chainText ((eventSlots pos args).map (fun s => match s with | some a => pyStr a | Option.none => x.text)) ops ++ [')']

mutual
def toDVal : Val → Option Display.DVal
  | .inst i => some (.inst (isoText i))
  | .num n => some (.num n)
  | .qty m d => some (.qty m d)
  | .arr xs => (toDVals xs).map .arr
  | .intv a b => some (.intv a b)
  | .str s => some (.str s.toList)
  | .comb _ => Option.none
  | .rv _ => Option.none                  -- inside an array: `str(rv)` without quotes — not a `DVal`
  | .event _ _ _ _ => Option.none
  | .none => Option.none
def toDVals : List Val → Option (List Display.DVal)
  | [] => some []
  | x :: xs =>
    match toDVal x, toDVals xs with
    | some d, some ds => some (d :: ds)
    | _, _ => Option.none
end

/-- `BASE_UNITS`, the names `QuantityVector.prettified` prints -/
def unitNames : List Display.Text := Gen.Units.baseUnitsS.map String.toList

/-- the text `execute` writes to `out` for a reduced result (default precision, no brackets) -/
def displayText : Val → R String
  | .none => .ok "\n"                                   -- `print(file=out)`
  | .rv x => .ok (String.ofList (x.text ++ ['\n']))      -- `print(r)`: `str(r)`
  | .event ops pos x args => .ok (String.ofList (eventText ops pos x args ++ ['\n']))
  | v =>
    match toDVal v with
    | Option.none => .error (.unmodelled "display")
    | some d => liftE (Display.displayResult unitNames Display.defaultPrecision false d) |>.map String.ofList

/-- observable outcome of one `execute(s, env)` -/
inductive Outcome where
  | ok (out : String)                 -- status 0, this text on the output stream, nothing on the error stream
  | lexErr (cls : String) (index : Nat)      -- status 1, diagnostic with the marker under `index`
  | parseErr (index : Nat)                   -- status 1, diagnostic with the marker under `index`
  | evalErr (e : Err)                        -- status 1, diagnostic of that class
  | escaped (cls : String)                   -- an exception leaves execute()
  | unmodelled (why : String)
deriving Repr, Inhabited

def Outcome.render : Outcome → String
  | .ok s => "ok " ++ s
  | .lexErr c i => s!"err lex:{c}:{i}"
  | .parseErr i => s!"err parse:{i}"
  | .evalErr e => "err " ++ e.code
  | .escaped c => "escaped " ++ c
  | .unmodelled w => "unmodelled " ++ w

def ofEvalErr : EvalErr → Outcome
  | .err e => .evalErr e
  | .unmodelled w => .unmodelled w
  | .fuel => .unmodelled "model bound"

mutual
/-- an instant literal anywhere in the tree -/
def hasInstant : Parser.Ast → Bool
  | .inst _ => true
  | .num _ | .str _ | .var _ => false
  | .bin _ l r => hasInstant l || hasInstant r
  | .sign _ x => hasInstant x
  | .fact x => hasInstant x
  | .range a b => hasInstant a || hasInstant b
  | .interval a b => hasInstant a || hasInstant b
  | .cmp1 _ a b => hasInstant a || hasInstant b
  | .cmp2 _ _ a b c => hasInstant a || hasInstant b || hasInstant c
  | .call _ args kws => hasInstantL args || hasInstantK kws
  | .quantity t _ => hasInstant t
  | .convert e _ => hasInstant e
  | .array xs => hasInstantL xs
  | .compr b gens conds => hasInstant b || hasInstantK gens || hasInstantL conds
  | .assign _ e => hasInstant e
  | .stmts ss => hasInstantL ss
def hasInstantL : List Parser.Ast → Bool
  | [] => false
  | x :: xs => hasInstant x || hasInstantL xs
def hasInstantK : List (String × Parser.Ast) → Bool
  | [] => false
  | (_, x) :: xs => hasInstant x || hasInstantK xs
end

mutual
/-- the raw texts of the instant literals of a tree -/
def instTexts : Parser.Ast → List String
  | .inst s => [s]
  | .num _ | .str _ | .var _ => []
  | .bin _ l r => instTexts l ++ instTexts r
  | .sign _ x => instTexts x
  | .fact x => instTexts x
  | .range a b => instTexts a ++ instTexts b
  | .interval a b => instTexts a ++ instTexts b
  | .cmp1 _ a b => instTexts a ++ instTexts b
  | .cmp2 _ _ a b c => instTexts a ++ instTexts b ++ instTexts c
  | .call _ args kws => instTextsL args ++ instTextsK kws
  | .quantity t _ => instTexts t
  | .convert e _ => instTexts e
  | .array xs => instTextsL xs
  | .compr b gens conds => instTexts b ++ instTextsK gens ++ instTextsL conds
  | .assign _ e => instTexts e
  | .stmts ss => instTextsL ss
def instTextsL : List Parser.Ast → List String
  | [] => []
  | x :: xs => instTexts x ++ instTextsL xs
def instTextsK : List (String × Parser.Ast) → List String
  | [] => []
  | (_, x) :: xs => instTexts x ++ instTextsK xs
end

def isoNotModelled (s : String) : Bool :=
  match Instant.instantFromIso s.toList with
  | .notModelled => true
  | _ => false

def isoInvalid (s : String) : Bool :=
  match Instant.instantFromIso s.toList with
  | .invalid => true
  | _ => false

/-- `instant_from_iso` on the instant literals the parser has read (it runs at PARSE time):
    `none` = every literal is an instant; a literal in a form the ISO model does not cover puts the
    input outside the model; otherwise a malformed literal is the KaRuntimeError that
    `execute`'s handler around `parse_tokens` reports (status 1, no position marker) — whichever
    literal the parser meets first, the class is the same. -/
def checkInstants (texts : List String) : Option Outcome :=
  if texts.any isoNotModelled then some (.unmodelled "instant form")
  else if texts.any isoInvalid then some (.evalErr .runtime)
  else Option.none

/-- the raw texts of the instant tokens -/
def tokInstTexts (tokens : List Token) : List String :=
  tokens.filterMap (fun t => match Parser.PTok.ofToken t with | .inst s => some s | _ => Option.none)

/-- the part of `execute` after parsing: evaluate, reduce, display -/
def runTree (env : Env) (t : Parser.Ast) : Env × Outcome :=
  match checkInstants (instTexts t) with
  | some o => (env, o)
  | Option.none =>
  match runProgram env t with
  | (env', .error e) => (env', ofEvalErr e)
  | (env', .ok v) =>
    match reduceResult v >>= displayText with
    | .ok s => (env', .ok s)
    | .error e => (env', ofEvalErr e)

/-- the character index `execute` hands to `error()` for a ParsingError at `token_index` -/
def parseErrIndex (tokens : List Token) (tokenIndex : Nat) : Nat :=
  match tokens.getLast? with
  | Option.none => 0
  | some lastTok =>
    match tokens[tokenIndex]? with
    | some t => t.b
    | Option.none => lastTok.e

/-- `execute` from the token list on -/
def runTokens (env : Env) (tokens : List Token) : Env × Outcome :=
  match Parser.parse tokens with
  | .error (.parsing i) =>
    -- `instant_from_iso` runs when the parser reads an instant token and may raise there: the instant
    -- tokens before the offending one have been read (a ParsingError points at the token being read)
    match checkInstants (tokInstTexts (tokens.take i)) with
    | some o => (env, o)
    | Option.none => (env, .parseErr (parseErrIndex tokens i))
  | .error .overflow =>
    -- where `parse_number` overflowed is not recorded: with a malformed instant literal around, which
    -- of the two exceptions comes first is not known
    if (checkInstants (tokInstTexts tokens)).isSome then (env, .unmodelled "instant") else (env, .escaped "OverflowError")
  | .error .fuel => (env, .unmodelled "parser bound")
  | .ok t => runTree env t

def lexOutcome : Lexer.LexErr → Outcome
  | .unknownToken i => .lexErr "UnknownTokenError" i
  | .badNumber i => .lexErr "BadNumberError" i
  | .unclosedString i => .lexErr "UnclosedStringError" i
  | .unclosedInstant i => .lexErr "UnclosedInstantError" i
  | .outOfFuel => .unmodelled "lexer bound"

/-- a literal `…e±ddddd…` with five or more exponent digits (the lexer would compute `10**exponent`) -/
def hugeExponent : List Char → Bool
  | [] => false
  | c :: r =>
    (c == 'e' &&
      (let r' := match r with | '-' :: t => t | '+' :: t => t | t => t
       decide ((r'.takeWhile Lexer.isDigit).length ≥ 5))) || hugeExponent r

/-- `interpret.execute(s, env)` -/
def runIn (env : Env) (s : List Char) : Env × Outcome :=
  if !s.all Lexer.inAlphabet then (env, .unmodelled "character outside the lexer model's alphabet") else
  if hugeExponent s then (env, .unmodelled "huge literal exponent") else
  match Lexer.tokenise s with
  | .error e => (env, lexOutcome e)
  | .ok toks => runTokens env toks

/-- one input against a fresh session -/
def runText (s : String) : Outcome := (runIn initialEnv s.toList).2

/-- successive inputs against one session; once an input leaves the model the bindings are no
    longer known and every later answer is `unmodelled` -/
def runSession : Env → Bool → List String → List Outcome
  | _, _, [] => []
  | env, lost, s :: rest =>
    if lost then .unmodelled "after an unmodelled input" :: runSession env true rest else
    match runIn env s.toList with
    | (_, .unmodelled w) => .unmodelled w :: runSession env true rest
    | (env', o) => o :: runSession env' false rest

end KaVerif.Eval
