/-
  S-expression reader/printer used by the line-protocol driver.
  Import-free.  Not part of any theorem: it is glue between the Python
  harness and the model's executable definitions.
-/
namespace KaVerif

inductive Sexp where
  | atom (s : String)
  | list (xs : List Sexp)
deriving Repr, Inhabited, BEq

namespace Sexp

/-- Tokenise: parentheses are their own tokens, atoms are maximal runs of
    non-space, non-paren characters.  A double-quoted atom may contain any
    characters; `\"` and `\\` are escapes; the quotes are kept in the atom so
    the consumer can tell a string from a symbol. -/
partial def tokens (cs : List Char) (acc : List String) : List String :=
  match cs with
  | [] => acc.reverse
  | c :: rest =>
    if c == ' ' || c == '\t' || c == '\n' || c == '\r' then tokens rest acc
    else if c == '(' then tokens rest ("(" :: acc)
    else if c == ')' then tokens rest (")" :: acc)
    else if c == '"' then
      let rec str (cs : List Char) (cur : List Char) : List Char × List Char :=
        match cs with
        | [] => (cur.reverse, [])
        | '\\' :: d :: r => str r (d :: cur)
        | '"' :: r => (cur.reverse, r)
        | d :: r => str r (d :: cur)
      let (body, r) := str rest []
      tokens r (String.ofList ('"' :: body) :: acc)
    else
      let rec atomc (cs : List Char) (cur : List Char) : List Char × List Char :=
        match cs with
        | [] => (cur.reverse, [])
        | d :: r =>
          if d == ' ' || d == '\t' || d == '\n' || d == '\r' || d == '(' || d == ')' then (cur.reverse, d :: r)
          else atomc r (d :: cur)
      let (body, r) := atomc (c :: rest) []
      tokens r (String.ofList body :: acc)

partial def parseList (ts : List String) (acc : List Sexp) : Option (List Sexp × List String) :=
  match ts with
  | [] => none
  | ")" :: r => some (acc.reverse, r)
  | "(" :: r =>
    match parseList r [] with
    | some (xs, r') => parseList r' (Sexp.list xs :: acc)
    | none => none
  | a :: r => parseList r (Sexp.atom a :: acc)

def parse (s : String) : Option Sexp :=
  match tokens s.toList [] with
  | "(" :: r =>
    match parseList r [] with
    | some (xs, []) => some (.list xs)
    | _ => none
  | [a] => if a == ")" then none else some (.atom a)
  | _ => none

partial def toString : Sexp → String
  | .atom s => s
  | .list xs => "(" ++ " ".intercalate (xs.map toString) ++ ")"

instance : ToString Sexp := ⟨Sexp.toString⟩

def int? : Sexp → Option Int
  | .atom s => s.toInt?
  | _ => none

def nat? : Sexp → Option Nat
  | .atom s => s.toNat?
  | _ => none

end Sexp
end KaVerif
