import KaVerif.Model.Num
import KaVerif.Model.Arith
/-
  C15 — what Ka prints for a result, and the text the GUI offers for re-entry.

  Anchors: src/ka/interpret.py  display_result (396-431), stringify_result (433-458),
           approximate_frac (460-467), precisionify_float (469-471), prettify_frac (473-481),
           default_unit_format (221-222);
           src/ka/units.py      QuantityVector.prettified (143-146);
           src/ka/types.py      Instant.__str__ (214-215);
           src/ka/gui.py        on_key (268-292): execute(..., brackets_for_frac=True) and then
                                stringify_result(result_box.value, brackets_for_frac=True);
           src/ka/config.py     ConfigProperties.PRECISION (default 6, any int from the config file).

  No Mathlib.  All text is `List Char` (`Text`) so that the theorems can talk about it;
  the driver converts to `String` at the very end.

  `fmtG` is an exact implementation of CPython's `"{:.Ng}".format(x)` for a double `x`:
  correctly rounded (half-to-even on the exact binary value) to `max N 1` significant decimal
  digits, `%g`'s rule for fixed vs exponent notation (exponent of the *rounded* value < -4 or
  >= precision), trailing zeros (and a then-trailing point) removed, exponent with sign and at
  least two digits, `-0`, `inf`, `nan`.  For N < 0 the format string would be `"{:.-1g}"`, which
  CPython rejects with ValueError ("Format specifier missing precision"): `fmtG` models that as
  `Err.py "ValueError"`.  `precisionify_float` itself (since fix 79dad83) replaces a configured
  precision outside 0..2^31-1 by the default 6, so it never reaches that case (`usedPrecision`).
-/
namespace KaVerif.Display
open KaVerif

abbrev Text := List Char

/-! ### integers and fractions -/

/-- `str(n)` for a natural number: CPython prints every digit (the int↔str digit limit is lifted
    in interpret.py:24-27). -/
def natText (n : Nat) : Text := Nat.toDigits 10 n

/-- `str(n)` for an int. -/
def intText (n : Int) : Text := if n < 0 then '-' :: natText n.natAbs else natText n.natAbs

/-- `str(Fraction)`: `"n"` when the denominator is 1, else `"n/d"` (sign on the numerator). -/
def fracText (q : Rat) : Text :=
  if q.den = 1 then intText q.num else intText q.num ++ '/' :: natText q.den

def absRat (q : Rat) : Rat := if q < 0 then -q else q

/-- `prettify_frac(f, brackets)` (interpret.py:473-481). -/
def prettifyFrac (q : Rat) (brackets : Bool) : Text :=
  let sign : Int := if q ≥ 0 then 1 else -1
  let whole : Nat := q.num.natAbs / q.den                     -- abs(numerator) // abs(denominator)
  let s : Text :=
    if whole > 0 then intText (sign * (whole : Int)) ++ ' ' :: fracText (absRat q - (whole : Rat))
    else fracText q
  if brackets then '(' :: s ++ [')'] else s

/-! ### `%g` -/

/-- 10^k as a rational, k any integer. -/
def pow10 (k : Int) : Rat :=
  if k ≥ 0 then ((10 ^ k.toNat : Nat) : Rat) else 1 / ((10 ^ (-k).toNat : Nat) : Rat)

/-- ⌊log10 a⌋ for a > 0: from the digit counts of numerator and denominator, corrected by one comparison. -/
def floorLog10 (a : Rat) : Int :=
  let e : Int := ((natText a.num.natAbs).length : Int) - ((natText a.den).length : Int)
  if pow10 e ≤ a then e else e - 1

/-- The `P` significant digits of `a > 0`, correctly rounded half-to-even, as an integer
    `m ∈ [10^(P-1), 10^P)` together with the decimal exponent `e` of the rounded value:
    the rounded value is `m · 10^(e-P+1)`.  (`_Py_dg_dtoa(x, mode 2, P)`.) -/
def sigDigits (P : Nat) (a : Rat) : Nat × Int :=
  let e := floorLog10 a
  let m := (Num.roundHalfEven (a * pow10 ((P : Int) - 1 - e))).toNat
  if m = 10 ^ P then (10 ^ (P - 1), e + 1) else (m, e)

/-- remove trailing `'0'` characters (dtoa never returns them; `%g` without `#` strips them) -/
def stripZeros : Text → Text
  | [] => []
  | d :: ds =>
    match stripZeros ds with
    | [] => if d = '0' then [] else [d]
    | r => d :: r

/-- exponent part: `e`, sign, at least two digits -/
def expText (e : Int) : Text :=
  let ds := natText e.natAbs
  'e' :: (if e < 0 then '-' else '+') :: (if ds.length < 2 then '0' :: ds else ds)

/-- `d.ddd` + exponent -/
def layoutExp (ds : Text) (e : Int) : Text :=
  (match ds with
   | [] => []
   | [d] => [d]
   | d :: rest => d :: '.' :: rest) ++ expText e

/-- positional notation for digits `ds` (no trailing zeros) with decimal exponent `e` -/
def layoutFixed (ds : Text) (e : Int) : Text :=
  if e ≥ 0 then
    let k := e.toNat + 1
    if ds.length ≤ k then ds ++ List.replicate (k - ds.length) '0'
    else ds.take k ++ '.' :: ds.drop k
  else '0' :: '.' :: (List.replicate ((-e).toNat - 1) '0' ++ ds)

/-- `%.Pg` layout rule (CPython format_float_short, case 'g'): exponent notation iff
    `decpt <= -4 || decpt > precision`, where `decpt = e + 1`. -/
def layoutG (P : Nat) (ds : Text) (e : Int) : Text :=
  if e < -4 ∨ e ≥ (P : Int) then layoutExp ds e else layoutFixed ds e

/-- `"{:.Pg}"` of a positive rational (P ≥ 1). -/
def fmtPos (P : Nat) (a : Rat) : Text :=
  let (m, e) := sigDigits P a
  layoutG P (stripZeros (natText m)) e

/-- `"{:.Pg}"` of any rational (P ≥ 1); zero prints `0`. -/
def fmtRat (P : Nat) (q : Rat) : Text :=
  if q = 0 then ['0'] else if q < 0 then '-' :: fmtPos P (-q) else fmtPos P q

def signBit (x : Float) : Bool := x.toBits.toNat / 2 ^ 63 % 2 = 1

/-- `"{:.Ng}".format(x)`, N the configured precision (any int). -/
def fmtG (N : Int) (x : Float) : Except Err Text :=
  if N < 0 then .error (.py "ValueError")
  else
    let P : Nat := if N = 0 then 1 else N.toNat
    if x.isNaN then .ok "nan".toList
    else if x.isInf then .ok (if signBit x then "-inf".toList else "inf".toList)
    else if x == 0 then .ok (if signBit x then "-0".toList else "0".toList)
    else .ok (fmtRat P (Num.floatToRat x))

/-- `ConfigProperties.PRECISION.default` (config.py:27) -/
def defaultPrecision : Int := 6

/-- the precision `precisionify_float` actually formats with (interpret.py:473-477): a
    configured value outside `0 .. 2^31-1` falls back to the default -/
def usedPrecision (N : Int) : Int := if 0 ≤ N ∧ N ≤ 2 ^ 31 - 1 then N else defaultPrecision

/-- number of significant digits that precision means for `%g` (0 counts as 1) -/
def effDigits (N : Int) : Nat := if usedPrecision N = 0 then 1 else (usedPrecision N).toNat

/-- `precisionify_float(f)` under the configured precision `N` (any int). -/
def precisionifyFloat (N : Int) (x : Float) : Except Err Text := fmtG (usedPrecision N) x

/-! ### values -/

/-- A displayable result.  `dim` is the exponent vector of a quantity over the base units
    (`QSPACE`: kg m s A K mol cd + base currency); `inst` carries `datetime.isoformat()` text. -/
inductive DVal where
  | num (n : Num)
  | qty (mag : Num) (dim : List Int)
  | arr (xs : List DVal)
  | intv (a b : Num)
  | str (s : Text)
  | inst (iso : Text)
deriving Inhabited

def joinWith (sep : Text) : List Text → Text
  | [] => []
  | [t] => t
  | t :: ts => t ++ sep ++ joinWith sep ts

/-- `QuantityVector.prettified()` (units.py:143-146): names of the base units with a non-zero
    exponent, `name^exp` unless the exponent is 1, separated by one space. -/
def unitParts (names : List Text) (dim : List Int) : List Text :=
  (List.zip dim names).filterMap fun (p : Int × Text) =>
    if p.1 = 0 then none else some (if p.1 = 1 then p.2 else p.2 ++ '^' :: intText p.1)

def prettified (names : List Text) (dim : List Int) : Text :=
  joinWith [' '] (unitParts names dim)

/-- `approximate_frac(f)` (interpret.py:460-467). -/
def approximateFrac (N : Int) (q : Rat) : Except Err Text :=
  let f := Num.ratToFloat q
  if f.isFinite then precisionifyFloat N f
  else
    -- OverflowError from float(f): integer arithmetic fallback
    let whole : Nat := q.num.natAbs / q.den
    .ok ('~' :: ((if q < 0 then ['-'] else []) ++ '1' :: 'e' :: natText ((natText whole).length - 1)))

/-- the rational that the text `"{:.Pg}"` of `q` denotes: `q` rounded half-to-even to `P` significant digits -/
def roundedAt (P : Nat) (q : Rat) : Rat :=
  if q = 0 then 0
  else
    let (m, e) := sigDigits P (if q < 0 then -q else q)
    let v := (m : Rat) * pow10 (e - (P : Int) + 1)
    if q < 0 then -v else v

/-- the rational that a number's `stringify_result` text denotes (`Fraction(text)` in the interval branch): exact for
    ints and fractions, the value rounded to the configured digits for a float -/
def shownValue (N : Int) : Num → Rat
  | .int n => (n : Rat)
  | .frac q => q
  | .flt x => roundedAt (effDigits N) (Num.floatToRat x)

/-- `reads_back_as(text)` (interpret.py, since fix 419b022) on the `stringify_result` text of a number: what the tokeniser makes of
    that text — the NEAREST FLOAT of the shown decimal when the text has a decimal point, the shown decimal itself (exact) when
    it has none (`5e-05`, `100000`), the value itself for ints and fractions -/
def readsBack (N : Int) : Num → Rat
  | .int n => (n : Rat)
  | .frac q => q
  | .flt x =>
    let v := roundedAt (effDigits N) (Num.floatToRat x)
    match precisionifyFloat N x with
    | .ok t => if t.contains '.' then Num.floatToRat (Num.ratToFloat v) else v
    | .error _ => v

/-- `"{:.16e}".format(x)`: 17 significant digits, always `d.dddddddddddddddd` and an exponent — a text with a decimal point, which the
    tokeniser reads back as the float (fix a02f165; `{:.17g}` printed the float nearest to 2e-12 as `2e-12`, read back exactly) -/
def fmtE16 (x : Float) : Text :=
  if x.isNaN then "nan".toList
  else if x.isInf then (if signBit x then "-inf".toList else "inf".toList)
  else if x == 0 then (if signBit x then "-0.0000000000000000e+00".toList else "0.0000000000000000e+00".toList)
  else
    let q := Num.floatToRat x
    let (m, e) := sigDigits 17 (if q < 0 then -q else q)
    (if q < 0 then ['-'] else []) ++ layoutExp (natText m) e

/-- `"{:.16e}".format(x)` for a float bound, `stringify_result(x)` for an exact one: the second rendering of an interval's
    bounds (interpret.py, interval branch of `stringify_result`, fixes d33389f / a02f165) -/
def stringifyNumFull (N : Int) : Num → Except Err Text
  | .flt x => .ok (fmtE16 x)
  | n => match n with
    | .int k => .ok (intText k)
    | .frac q => .ok (fracText q)
    | .flt x => precisionifyFloat N x

/-- how the number kinds are stringified by `stringify_result` -/
def stringifyNum (N : Int) (brackets : Bool) : Num → Except Err Text
  | .int n => .ok (intText n)                                   -- falls to `return str(r)`
  | .frac q => .ok (if brackets then '(' :: fracText q ++ [')'] else fracText q)
  | .flt x => precisionifyFloat N x

mutual
/-- `stringify_result(r, brackets_for_frac)` (interpret.py:433-458). -/
def stringify (names : List Text) (N : Int) (brackets : Bool) : DVal → Except Err Text
  | .num n => stringifyNum N brackets n
  | .qty mag dim => do
    let m ← stringifyNum N brackets mag
    .ok (m ++ ' ' :: prettified names dim)
  | .arr xs => do
    let ts ← stringifyList names N brackets xs
    .ok ('{' :: joinWith [',', ' '] ts ++ ['}'])
  | .str s => .ok ('"' :: s ++ ['"'])
  | .intv a b => do
    -- the recursive calls do NOT pass brackets_for_frac on
    let x ← stringifyNum N false a
    let y ← stringifyNum N false b
    -- fixes d33389f, 419b022: in the text that is going to be parsed again, a float bound whose rounding carried it across the
    -- other bound is given all its digits (`reads_back_as(a) > reads_back_as(b)` on the two texts)
    if brackets && decide (readsBack N a > readsBack N b) then do
      let x' ← stringifyNumFull N a
      let y' ← stringifyNumFull N b
      .ok ('[' :: x' ++ ',' :: ' ' :: y' ++ [']'])
    else .ok ('[' :: x ++ ',' :: ' ' :: y ++ [']'])
  | .inst iso => .ok ('#' :: iso ++ ['#'])
def stringifyList (names : List Text) (N : Int) (brackets : Bool) : List DVal → Except Err (List Text)
  | [] => .ok []
  | x :: xs => do
    let t ← stringify names N brackets x
    let ts ← stringifyList names N brackets xs
    .ok (t :: ts)
end

/-- display of a bare number: the `frac`, `float` and fall-through (`print(r)`) branches of
    `display_result`, without the newline.  A bare fraction is printed WITHOUT brackets even
    when `brackets_for_frac` is set (the flag is only used for quantity magnitudes). -/
def displayNum (N : Int) : Num → Except Err Text
  | .int n => .ok (intText n)
  | .frac q => do
    let ap ← approximateFrac N q
    .ok (prettifyFrac q false ++ ' ' :: ("    (".toList ++ ap ++ [')']))
  | .flt x => precisionifyFloat N x

/-- `display_result(r, out, brackets_for_frac, newline=True)` with the default unit format:
    the text written to `out`, including the final newline (interpret.py:400-441; intervals go
    through `stringify_result` since fix 120834b). -/
def displayResult (names : List Text) (N : Int) (brackets : Bool) : DVal → Except Err Text
  | .qty (.frac q) dim => do
    -- print(prettify_frac(mag, brackets), unit, end="") ; print("    (" + approx + " " + unit + ")", end="")
    let u := prettified names dim
    let ap ← approximateFrac N q
    .ok (prettifyFrac q brackets ++ ' ' :: u ++ ("    (".toList ++ ap ++ ' ' :: u ++ [')']) ++ ['\n'])
  | .qty mag dim => do
    let m ← displayNum N mag
    .ok (m ++ ' ' :: prettified names dim ++ ['\n'])
  | .num n => do
    let t ← displayNum N n
    .ok (t ++ ['\n'])
  | .arr xs => do
    -- elements through stringify_result(e) with the DEFAULT brackets_for_frac=False
    let ts ← stringifyList names N false xs
    .ok ('{' :: joinWith [',', ' '] ts ++ ['}', '\n'])
  | .intv a b => do
    -- print(stringify_result(r)): default brackets_for_frac=False
    let t ← stringify names N false (.intv a b)
    .ok (t ++ ['\n'])
  | .str s => .ok (s ++ ['\n'])
  | .inst iso => .ok (iso ++ ['\n'])

/-- What the GUI puts back into the input line after a result (gui.py:287-289). -/
def reentryText (names : List Text) (N : Int) (v : DVal) : Except Err Text :=
  stringify names N true v

/-! ### readers (specification side): how a person reads the printed text -/

/-- read a run of decimal digits: value so far, number of digits read, rest -/
def readDigits : Text → Nat → Nat → Nat × Nat × Text
  | [], acc, k => (acc, k, [])
  | c :: cs, acc, k =>
    if c.isDigit then readDigits cs (10 * acc + (c.toNat - '0'.toNat)) (k + 1) else (acc, k, c :: cs)

/-- a leading minus sign -/
def splitSign : Text → Bool × Text
  | '-' :: r => (true, r)
  | r => (false, r)

def applySign (neg : Bool) (x : Rat) : Rat := if neg then -x else x

/-- `[-]digits` with nothing after it -/
def readInt (t : Text) : Option Int :=
  let (neg, body) := splitSign t
  let (v, k, rest) := readDigits body 0 0
  if k = 0 then none
  else match rest with
    | [] => some (if neg then -(v : Int) else (v : Int))
    | _ => none

/-- `digits` or `digits/digits` (a non-negative fraction) with nothing after it -/
def readPosFrac (t : Text) : Option Rat :=
  let (n, k, rest) := readDigits t 0 0
  if k = 0 then none
  else match rest with
    | [] => some (n : Rat)
    | '/' :: r =>
      let (d, k', rest') := readDigits r 0 0
      if k' = 0 then none
      else (match rest' with
        | [] => some ((n : Rat) / (d : Rat))
        | _ => none)
    | _ => none

/-- A mixed number as a person reads it: `[-]n/d`, `[-]n`, or `[-]w n/d` meaning ±(w + n/d). -/
def readMixed (t : Text) : Option Rat :=
  let (neg, body) := splitSign t
  let (w, k, rest) := readDigits body 0 0
  let v : Option Rat :=
    if k = 0 then none
    else match rest with
      | ' ' :: r => (readPosFrac r).map fun f => (w : Rat) + f
      | _ => readPosFrac body
  v.map (applySign neg)

/-- exponent part `e(+|-)digits`, or nothing -/
def readExp (t : Text) : Option Int :=
  match t with
  | [] => some 0
  | 'e' :: s :: r =>
    let (ex, k, rest) := readDigits r 0 0
    if k = 0 then none
    else (match rest with
      | [] => if s = '+' then some (ex : Int) else if s = '-' then some (-(ex : Int)) else none
      | _ => none)
  | _ => none

/-- A decimal numeral `[-]ddd[.ddd][e(+|-)dd]` as a rational. -/
def readDecimal (t : Text) : Option Rat :=
  let (neg, body) := splitSign t
  let (ip, k, r1) := readDigits body 0 0
  if k = 0 then none
  else
    let (mant, r2) : Rat × Text :=
      match r1 with
      | '.' :: r =>
        let (fp, k', r') := readDigits r 0 0
        ((ip : Rat) + (fp : Rat) * pow10 (-(k' : Int)), r')
      | r => ((ip : Rat), r)
    (readExp r2).map fun ex => applySign neg (mant * pow10 ex)

/-- `[-]digits` at the start of a text, as a C01 expression (`-7` is the negation of the literal 7,
    parse.py: a sign applies to a primary), and the rest -/
def readSigned (t : Text) : Option (AExp × Text) :=
  let (neg, body) := splitSign t
  let (v, k, rest) := readDigits body 0 0
  if k = 0 then none else some (if neg then .un .neg (.lit v) else .lit v, rest)

/-- The number sub-language of the re-entry text, read into the C01 expression type:
    `[-]digits` and `([-]digits/digits)` — the latter is the quotient of the signed numerator
    by the denominator, as Ka's parser reads it. -/
def readEntryNum (t : Text) : Option AExp :=
  match t with
  | '(' :: r =>
    (match readSigned r with
     | some (n, '/' :: r2) =>
       let (d, k, rest) := readDigits r2 0 0
       if k = 0 then none
       else (match rest with
         | [')'] => some (.bin .div n (.lit d))
         | _ => none)
     | _ => none)
  | _ =>
    (match readSigned t with
     | some (n, []) => some n
     | _ => none)

/-- `[-]digits` at the start of a text: the integer and the rest -/
def readIntPrefix (t : Text) : Option (Int × Text) :=
  let (neg, body) := splitSign t
  let (v, k, rest) := readDigits body 0 0
  if k = 0 then none else some (if neg then -(v : Int) else (v : Int), rest)

/-- after a unit name: `^exponent`, or nothing (exponent 1) -/
def readUnitExp (r : Text) : Option (Int × Text) :=
  match r with
  | '^' :: r' => readIntPrefix r'
  | _ => some (1, r)

/-- after a unit: the end, or one space followed by more -/
def skipSpace (r : Text) : Option Text :=
  match r with
  | [] => some []
  | ' ' :: c :: cs => some (c :: cs)
  | _ => none

/-- Read a unit text back into the exponent vector over `names` (in base order): each base
    unit either heads the remaining text as a whole word — optionally followed by `^exponent` —
    or is absent (exponent 0); words are separated by single spaces. -/
def readDim : List Text → Text → Option (List Int)
  | [], [] => some []
  | [], _ :: _ => none
  | nm :: nms, t =>
    let w := t.takeWhile Char.isAlpha
    let r := t.dropWhile Char.isAlpha
    if w = nm ∧ w ≠ [] then
      match readUnitExp r with
      | none => none
      | some (e, r2) =>
        if e = 0 then none
        else
          match skipSpace r2 with
          | none => none
          | some r4 => (readDim nms r4).map (e :: ·)
    else (readDim nms t).map ((0 : Int) :: ·)

/-- number of significant digits shown: digits of the mantissa from the first non-zero one on -/
def sigCount (t : Text) : Nat :=
  let body := (t.takeWhile (· ≠ 'e')).filter Char.isDigit
  (body.dropWhile (· = '0')).length

end KaVerif.Display
