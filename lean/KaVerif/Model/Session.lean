import KaVerif.Model.Num
/-
  C14 — variables, sessions, namespaces.
  Anchors: eval.py CONSTANTS / EvalEnvironment (set_variable, get_variable), eval_based_on_mode
  (VARIABLE reads the session's bindings only, ASSIGNMENT writes them, STATEMENTS returns the last
  value), eval_funcall → functions.dispatch (the global FUNCTIONS table, never the session),
  make_quantity → units.lookup_unit (the unit tables, never the session); interpret.execute threads
  the caller's environment through successive inputs.

  The expression language here is the fragment the correspondence drives: integer literals,
  variables, + and *, a call of a one-argument function taken from the FUNCTION namespace, and a
  unit tag taken from the UNIT namespace (the value of `n u` is n times the unit's factor, which is
  all the session can observe of it).
-/
namespace KaVerif.Session
open KaVerif

abbrev Env := List (String × Int)          -- most recent binding first

def Env.get (env : Env) (x : String) : Option Int := env.lookup x
def Env.set (env : Env) (x : String) (v : Int) : Env := (x, v) :: env.filter (fun p => p.1 != x)

/-- the namespaces that no statement can modify -/
structure World where
  funs : List (String × (Int → Int))       -- function namespace
  units : List (String × Int)              -- unit namespace: name ↦ factor

inductive Exp where
  | lit (n : Int)
  | var (x : String)
  | add (a b : Exp)
  | mul (a b : Exp)
  | call (f : String) (a : Exp)             -- `f(a)`
  | unit (a : Exp) (u : String)             -- `a u`
deriving Repr, Inhabited

inductive SErr where
  | unassigned (x : String) | unknownFn | unknownUnit
deriving DecidableEq, Repr

def evalE (w : World) (env : Env) : Exp → Except SErr Int
  | .lit n => .ok n
  | .var x => match env.get x with
    | some v => .ok v
    | none => .error (.unassigned x)
  | .add a b => do let x ← evalE w env a; let y ← evalE w env b; .ok (x + y)
  | .mul a b => do let x ← evalE w env a; let y ← evalE w env b; .ok (x * y)
  | .call f a => do
    let x ← evalE w env a
    match w.funs.lookup f with
    | some g => .ok (g x)
    | none => .error .unknownFn
  | .unit a u => do
    let x ← evalE w env a
    match w.units.lookup u with
    | some k => .ok (x * k)
    | none => .error .unknownUnit

inductive Stmt where
  | assign (x : String) (e : Exp)
  | expr (e : Exp)
deriving Repr, Inhabited

/-- one statement: the new bindings and the statement's value -/
def step (w : World) (env : Env) : Stmt → Except SErr (Env × Int)
  | .assign x e => do let v ← evalE w env e; .ok (env.set x v, v)
  | .expr e => do let v ← evalE w env e; .ok (env, v)

/-- outcome of one input: bindings after it (in-place mutation survives a failure), and either the
    value of the last statement (`none` for an empty input) or the error of the first failing one -/
structure Outcome where
  env : Env
  result : Except SErr (Option Int)

/-- one input `s1; s2; …; sn` run against a session (eval_node on a STATEMENTS node: children left
    to right, the environment mutated in place, the first failure aborts) -/
def runInput (w : World) (env : Env) (last : Option Int) : List Stmt → Outcome
  | [] => ⟨env, .ok last⟩
  | s :: rest =>
    match step w env s with
    | .error e => ⟨env, .error e⟩
    | .ok (env', v) => runInput w env' (some v) rest

/-- a session: successive inputs against the same environment; an input that fails leaves its
    earlier statements' effects and the session carries on with the next input -/
def runSession (w : World) (env : Env) : List (List Stmt) → Env × List (Except SErr (Option Int))
  | [] => (env, [])
  | inp :: rest =>
    let o := runInput w env none inp
    let (e', rs) := runSession w o.env rest
    (e', o.result :: rs)

/-- constants every fresh session starts with (eval.CONSTANTS; pi and e are floats in the code,
    the model keeps the two integer-valued ones and treats pi/e as opaque initial bindings) -/
def initial (extra : Env) : Env := [("true", 1), ("false", 0)] ++ extra

end KaVerif.Session
