import KaVerif.Model.Num
/-
  Intervals of Ka (src/ka/functions.py, section "Intervals"; types.py `class Interval`), written ONCE,
  generically over the type `α` of the bounds and the operations the code uses on
  them.  The same definitions are
    * executed at `α = Rat` by the driver (Driver/Interval.lean; core `Rat` has every
      instance below, no import needed), and
    * reasoned about at an arbitrary linearly ordered field (Props/C07.lean; `ℚ`, `ℝ`).

  Every `dispatch(name, (x, y))` on two numbers becomes the corresponding operation on
  `α` ("real regime" of DESIGN 2.3: exact values, IEEE rounding not modelled); the
  branch order, the operand order, which bound is used where, and the order of the
  guards follow the Python line by line.  The three libm-backed functions the interval
  code reaches (`math.sqrt`, `math.log(x, base)`, a power with a non-integer exponent)
  are parameters (`Fns`), constrained only by the theorems that need a law of them.

  Comparisons return the Python ints 0/1 (`intify`), as `Int`.
-/
namespace KaVerif.Interval

/-- `types.Interval`: lower bound `a`, upper bound `b`. -/
structure Intv (α : Type) where
  a : α
  b : α
deriving Repr, Inhabited

/-- A Ka number in exponent position, classified the way `is_fractional` classifies it:
    `int k` when `int(y) == y` (then `y` is the integer `k`), `real y` otherwise. -/
inductive Expo (α : Type) where
  | int (k : Int)
  | real (y : α)
deriving Repr, Inhabited

/-- The libm-backed functions reached from interval code. -/
structure Fns (α : Type) where
  sqrt : α → α            -- math.sqrt
  log  : α → α → α        -- math.log(x, base)
  rpow : α → α → α        -- x ** y for a non-integer y and x ≥ 0
  e    : α                -- math.e (the base `interval_ln` passes)

namespace Intv
variable {α : Type}

/-- lower bound ≤ upper bound -/
def WF [LE α] (I : Intv α) : Prop := I.a ≤ I.b

/-- `x ∈ I`: the points of the interval, `lower ≤ x ≤ upper`. -/
instance [LE α] : Membership α (Intv α) := ⟨fun I x => I.a ≤ x ∧ x ≤ I.b⟩

instance [LE α] [DecidableLE α] (x : α) (I : Intv α) : Decidable (x ∈ I) :=
  inferInstanceAs (Decidable (I.a ≤ x ∧ x ≤ I.b))

/-- `1 if p else 0` (`intify`). -/
def b2i (p : Prop) [Decidable p] : Int := if p then 1 else 0

section ops
variable [Add α] [Sub α] [Mul α] [Div α] [Neg α] [OfNat α 0] [OfNat α 1] [LE α] [LT α]
  [DecidableLE α] [DecidableLT α] [DecidableEq α] [Min α] [Max α] [HPow α Nat α]

/-! ### the number-level functions `dispatch` reaches from interval code -/

/-- `dispatch("/", (x, y))`: ZeroDivisionError for a zero divisor (all kinds). -/
def divN (x y : α) : Except Err α := if y = 0 then .error .divZero else .ok (x / y)

/-- `dispatch("abs", (x,))`. -/
def absN (x : α) : α := if x < 0 then -x else x

def _root_.KaVerif.Interval.Expo.isFractional : Expo α → Bool
  | .int _ => false
  | .real _ => true

/-- `dispatch("<", (exponent, 0))`. -/
def _root_.KaVerif.Interval.Expo.isNeg : Expo α → Bool
  | .int k => decide (k < 0)
  | .real y => decide (y < 0)

/-- `strict_pow` followed by Python's `x ** y`:
    integer exponents by exact repeated multiplication (a negative one through the
    reciprocal; `0 ** negative` is ZeroDivisionError), non-integer exponents through `rpow`. -/
def powN (F : Fns α) (x : α) : Expo α → Except Err α
  | .int k =>
    if k ≥ 0 then .ok (x ^ k.toNat)
    else if x = 0 then .error .divZero
    else .ok ((1 / x) ^ (-k).toNat)
  | .real y =>
    if x < 0 then .error .runtime          -- "Tried to take fractional power of a negative number."
    else if x = 0 ∧ y < 0 then .error .divZero
    else .ok (F.rpow x y)

/-- `ka_sqrt`. -/
def sqrtN (F : Fns α) (x : α) : Except Err α :=
  if x < 0 then .error .runtime else .ok (F.sqrt x)

/-- `ka_log`: value guard first, then the base guard. -/
def logN (F : Fns α) (x base : α) : Except Err α :=
  if x ≤ 0 then .error .runtime
  else if base ≤ 0 ∨ base = 1 then .error .runtime
  else .ok (F.log x base)

/-! ### constructors -/

/-- `make_interval_from_bounds`: `Interval(min(x, y), max(x, y))`. -/
def fromBounds (x y : α) : Intv α := ⟨min x y, max x y⟩

/-- `make_interval`, the `[a, b]` literal: `a > b` collapses to `[0, 0]`. -/
def make (a b : α) : Intv α := if a ≤ b then ⟨a, b⟩ else ⟨0, 0⟩

/-- `interval_plusminus`, `x ± y` and `tol(x, y)`. -/
def plusMinus (x y : α) : Intv α := fromBounds (x - y) (x + y)

/-! ### Interval op Number (`make_interval_with_num_op`) -/

def addN (I : Intv α) (n : α) : Intv α := fromBounds (I.a + n) (I.b + n)
def subN (I : Intv α) (n : α) : Intv α := fromBounds (I.a - n) (I.b - n)
def mulN (I : Intv α) (n : α) : Intv α := fromBounds (I.a * n) (I.b * n)
def divIN (I : Intv α) (n : α) : Except Err (Intv α) := do
  let x ← divN I.a n
  let y ← divN I.b n
  .ok (fromBounds x y)

/-- `register_commutative_op`'s `reverse_f(y, x) = f(x, y)`: `Number + Interval` and
    `Number * Interval` call the very same `op(intr, n)` with the operands exchanged. -/
def reverse {β γ δ : Type} (f : β → γ → δ) : γ → β → δ := fun y x => f x y
def nAdd : α → Intv α → Intv α := reverse addN
def nMul : α → Intv α → Intv α := reverse mulN

/-! ### membership -/

/-- `interval_contains(intr, x)`: product of two 0/1 comparisons. -/
def contains (I : Intv α) (x : α) : Int := b2i (I.a ≤ x) * b2i (x ≤ I.b)

/-- `in_interval(x, intr)`, the `x in I` operator. -/
def inI (x : α) (I : Intv α) : Int := b2i (I.a ≤ x) * b2i (x ≤ I.b)

/-- `interval_has_negative`. -/
def hasNegative (I : Intv α) : Bool := decide (I.a < 0)

/-! ### power, sign, roots, logarithms, abs -/

/-- `interval_to_power`: guard 1 (negative lower bound and fractional exponent),
    candidates `a`, `b`, guard 2 (zero inside and negative exponent), `0` as a third
    candidate when zero is inside, bounds = min / max of the candidates' powers. -/
def powI (F : Fns α) (I : Intv α) (e : Expo α) : Except Err (Intv α) :=
  if hasNegative I ∧ e.isFractional then .error .runtime else
  if contains I 0 ≠ 0 then
    if e.isNeg then .error .runtime else do
      let pa ← powN F I.a e
      let pb ← powN F I.b e
      let p0 ← powN F 0 e
      .ok ⟨min (min pa pb) p0, max (max pa pb) p0⟩
  else do
    let pa ← powN F I.a e
    let pb ← powN F I.b e
    .ok ⟨min pa pb, max pa pb⟩

/-- `interval_flip`, unary minus. -/
def flip (I : Intv α) : Intv α := ⟨-I.b, -I.a⟩

/-- `interval_sqrt`. -/
def sqrtI (F : Fns α) (I : Intv α) : Except Err (Intv α) :=
  if hasNegative I then .error .runtime else do
    let x ← sqrtN F I.a
    let y ← sqrtN F I.b
    .ok ⟨x, y⟩

/-- `interval_log`: base guard, then lower-bound guard, then the two number-level
    logarithms (which re-check the value and reject base 1), bounds re-ordered. -/
def logI (F : Fns α) (I : Intv α) (base : α) : Except Err (Intv α) :=
  if base ≤ 0 then .error .runtime
  else if I.a ≤ 0 then .error .runtime
  else do
    let x ← logN F I.a base
    let y ← logN F I.b base
    .ok (fromBounds x y)

def lnI (F : Fns α) (I : Intv α) : Except Err (Intv α) := logI F I F.e
def log10I (ten : α) (F : Fns α) (I : Intv α) : Except Err (Intv α) := logI F I ten
def log2I (two : α) (F : Fns α) (I : Intv α) : Except Err (Intv α) := logI F I two

/-- `interval_abs`. -/
def absI (I : Intv α) : Intv α :=
  ⟨if contains I 0 ≠ 0 then 0 else min (absN I.a) (absN I.b), max (absN I.a) (absN I.b)⟩

/-! ### comparisons: `register_interval_cmp(name, reverse_name)` -/

/-- the `name` a call of `register_interval_cmp` is made with -/
inductive Base where
  | lt | le
deriving DecidableEq, Repr

/-- `dispatch(name, (x, y))` on two numbers. -/
def Base.run : Base → α → α → Int
  | .lt, x, y => b2i (x < y)
  | .le, x, y => b2i (x ≤ y)

def intervalNum (c : Base) (I : Intv α) (x : α) : Int := c.run I.b x
def numInterval (c : Base) (x : α) (I : Intv α) : Int := c.run x I.a
def intervalInterval (c : Base) (I J : Intv α) : Int := c.run I.b J.a

/-- `swap(f)(y, x) = f(x, y)` -/
def swap {β γ δ : Type} (f : β → γ → δ) : γ → β → δ := fun y x => f x y

/-- the four operator names the two calls `register_interval_cmp("<", ">")`,
    `register_interval_cmp("<=", ">=")` register -/
inductive Rel where
  | lt | le | gt | ge
deriving DecidableEq, Repr

/-- `(Interval, Number)`: `name ↦ interval_num`, `reverse_name ↦ swap(num_interval)`. -/
def cmpIN : Rel → Intv α → α → Int
  | .lt => intervalNum .lt
  | .gt => swap (numInterval .lt)
  | .le => intervalNum .le
  | .ge => swap (numInterval .le)

/-- `(Number, Interval)`: `name ↦ num_interval`, `reverse_name ↦ swap(interval_num)`. -/
def cmpNI : Rel → α → Intv α → Int
  | .lt => numInterval .lt
  | .gt => swap (intervalNum .lt)
  | .le => numInterval .le
  | .ge => swap (intervalNum .le)

/-- `(Interval, Interval)`: `name ↦ interval_interval`, `reverse_name ↦ swap(interval_interval)`. -/
def cmpII : Rel → Intv α → Intv α → Int
  | .lt => intervalInterval .lt
  | .gt => swap (intervalInterval .lt)
  | .le => intervalInterval .le
  | .ge => swap (intervalInterval .le)

/-- `interval_eq`. -/
def eqI (I J : Intv α) : Int := b2i (I.a = J.a) * b2i (I.b = J.b)
/-- `interval_neq`. -/
def neqI (I J : Intv α) : Int := 1 - eqI I J

/-! ### min / max / size -/

/-- `interval_min`. -/
def minIN (I : Intv α) (x : α) : Intv α :=
  if I.b ≤ x then I
  else if x ≤ I.a then ⟨x, x⟩
  else ⟨I.a, x⟩

/-- `interval_max`. -/
def maxIN (I : Intv α) (x : α) : Intv α :=
  if I.b ≤ x then ⟨x, x⟩
  else if x ≤ I.a then I
  else ⟨x, I.b⟩

def nMin : α → Intv α → Intv α := reverse minIN
def nMax : α → Intv α → Intv α := reverse maxIN

/-- `interval_size`: `abs(b - a)`. -/
def size (I : Intv α) : α := absN (I.b - I.a)

def lower (I : Intv α) : α := I.a
def upper (I : Intv α) : α := I.b

/-- Every interval operation, bundled.  Used to state (Props/C07.lean, `C07_rat_model`) that
    the model the driver executes at core `Rat` is literally the `α := ℚ` instance of the
    generic model the theorems quantify over. -/
structure Ops (α : Type) where
  make : α → α → Intv α
  fromBounds : α → α → Intv α
  plusMinus : α → α → Intv α
  addN : Intv α → α → Intv α
  subN : Intv α → α → Intv α
  mulN : Intv α → α → Intv α
  divIN : Intv α → α → Except Err (Intv α)
  nAdd : α → Intv α → Intv α
  nMul : α → Intv α → Intv α
  contains : Intv α → α → Int
  inI : α → Intv α → Int
  powI : Fns α → Intv α → Expo α → Except Err (Intv α)
  flip : Intv α → Intv α
  sqrtI : Fns α → Intv α → Except Err (Intv α)
  logI : Fns α → Intv α → α → Except Err (Intv α)
  lnI : Fns α → Intv α → Except Err (Intv α)
  absI : Intv α → Intv α
  cmpIN : Rel → Intv α → α → Int
  cmpNI : Rel → α → Intv α → Int
  cmpII : Rel → Intv α → Intv α → Int
  eqI : Intv α → Intv α → Int
  neqI : Intv α → Intv α → Int
  minIN : Intv α → α → Intv α
  maxIN : Intv α → α → Intv α
  nMin : α → Intv α → Intv α
  nMax : α → Intv α → Intv α
  size : Intv α → α

def ops : Ops α :=
  { make := make, fromBounds := fromBounds, plusMinus := plusMinus, addN := addN, subN := subN,
    mulN := mulN, divIN := divIN, nAdd := nAdd, nMul := nMul, contains := contains, inI := inI,
    powI := powI, flip := flip, sqrtI := sqrtI, logI := logI, lnI := lnI, absI := absI,
    cmpIN := cmpIN, cmpNI := cmpNI, cmpII := cmpII, eqI := eqI, neqI := neqI,
    minIN := minIN, maxIN := maxIN, nMin := nMin, nMax := nMax, size := size }

end ops

/-- The model at core `Rat` (core's own `+ - * / < ≤ min max ^` on `Rat`): what the driver runs. -/
def ratOps : Ops Rat := ops

end Intv

/-- `is_fractional(y)` on an exact rational: `int(y) == y` iff the
    reduced denominator is 1. -/
def Expo.ofRat (y : Rat) : Expo Rat := if y.den = 1 then .int y.num else .real y

end KaVerif.Interval
