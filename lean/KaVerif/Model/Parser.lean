import KaVerif.Model.Token
/-
  The recursive-descent parser of Ka, `src/ka/parse.py`, function by function.

  * `PTok` is a typed view of a `Token` (what the parser looks at: the tag, and the one metadata
    field it reads).  `PTok.ofToken` / `PTok.toToken` convert; the parser proper works on `List PTok`.
  * `Ast` has one constructor per shape of `ParseNode` the parser builds.  A FUNCALL node is split
    by syntactic origin (binary operator, sign, `!`, `..`, `[ , ]`, comparison chain, named call);
    `Ast.label` gives back the Python label (so `1..3` and `range(1,3)` have the same dump, as in Python).
  * Every Python function `parse_xxx(t)` is `pXxx rec toks`: `toks` is the unread part of the
    `BagOfTokens`, the result is the node and the new unread part.  `rec` stands for the nested
    call of `parse_expression`; the knot is tied by `pExpr` with an explicit fuel (nesting depth).
    Python `while` loops are structural recursions on a counter started at the number of unread
    tokens (every iteration reads at least one token, so the counter never runs out).
  * A `ParsingError(msg, token_index)` is `PErr.at k` where `k` is the number of tokens still unread
    *including the offending one*; `token_index = len(tokens) - k`.

  No Mathlib.  Anchors: src/ka/parse.py:100-401.
-/
namespace KaVerif.Parser

/-- Binary operator tokens `+ - ± * / % ^` (parse.py:194-209). -/
inductive PBin where
  | add | sub | pm | mul | div | mod | pow
deriving DecidableEq, Repr, Inhabited

/-- Comparison operator tokens `== != < > <= >= = in` (parse.py:183-185). -/
inductive PCmp where
  | eq | neq | lt | gt | leq | geq | asg | elem
deriving DecidableEq, Repr, Inhabited

/-- The remaining constant tokens: `( ) , ; : { } [ ] ! | to ..`. -/
inductive Punct where
  | lpar | rpar | comma | semi | colon | lbrace | rbrace | lbrack | rbrack | bang | bar | to | dots
deriving DecidableEq, Repr, Inhabited

/-- What the parser sees of a token. -/
inductive PTok where
  | num (v : Num)          -- tag 'number', meta value (before simplify_number)
  | var (name : String)    -- tag 'identifier', meta name
  | str (s : String)       -- tag 'string', meta value
  | inst (s : String)      -- tag 'instant', meta value (raw text)
  | op (o : PBin)
  | cmp (c : PCmp)
  | p (s : Punct)
  | bad                    -- never produced by the tokeniser (unknown spelling / missing metadata)
deriving Inhabited

def PBin.spelling : PBin → String
  | .add => "+" | .sub => "-" | .pm => "±" | .mul => "*" | .div => "/" | .mod => "%" | .pow => "^"

def PCmp.spelling : PCmp → String
  | .eq => "==" | .neq => "!=" | .lt => "<" | .gt => ">" | .leq => "<=" | .geq => ">="
  | .asg => "=" | .elem => "in"

def Punct.spelling : Punct → String
  | .lpar => "(" | .rpar => ")" | .comma => "," | .semi => ";" | .colon => ":" | .lbrace => "{"
  | .rbrace => "}" | .lbrack => "[" | .rbrack => "]" | .bang => "!" | .bar => "|" | .to => "to"
  | .dots => ".."

def PTok.ofConst : String → PTok
  | "+" => .op .add | "-" => .op .sub | "±" => .op .pm | "*" => .op .mul | "/" => .op .div
  | "%" => .op .mod | "^" => .op .pow
  | "==" => .cmp .eq | "!=" => .cmp .neq | "<" => .cmp .lt | ">" => .cmp .gt | "<=" => .cmp .leq
  | ">=" => .cmp .geq | "=" => .cmp .asg | "in" => .cmp .elem
  | "(" => .p .lpar | ")" => .p .rpar | "," => .p .comma | ";" => .p .semi | ":" => .p .colon
  | "{" => .p .lbrace | "}" => .p .rbrace | "[" => .p .lbrack | "]" => .p .rbrack | "!" => .p .bang
  | "|" => .p .bar | "to" => .p .to | ".." => .p .dots
  | _ => .bad

def PTok.ofToken (t : Token) : PTok :=
  match t.tag, t.val with
  | .num, .num v => .num v
  | .var, .name s => .var s
  | .str, .text s => .str s
  | .inst, .text s => .inst s
  | .const s, _ => PTok.ofConst s
  | _, _ => .bad

/-- A token with this view (positions are irrelevant to the parser; 0 is used). -/
def PTok.toToken : PTok → Token
  | .num v => { tag := .num, b := 0, e := 0, val := .num v }
  | .var s => { tag := .var, b := 0, e := 0, val := .name s }
  | .str s => { tag := .str, b := 0, e := 0, val := .text s }
  | .inst s => { tag := .inst, b := 0, e := 0, val := .text s }
  | .op o => { tag := .const o.spelling, b := 0, e := 0 }
  | .cmp c => { tag := .const c.spelling, b := 0, e := 0 }
  | .p s => { tag := .const s.spelling, b := 0, e := 0 }
  | .bad => { tag := .const "", b := 0, e := 0 }

/-- `UnitSignature(units, inverted_units)`: lists of (name, exponent). -/
structure UnitSig where
  units : List (String × Int)
  inv : List (String × Int)
deriving Repr, Inhabited, DecidableEq

/-- Parse trees (`ParseNode`). -/
inductive Ast where
  | num (v : Num)                    -- LEAF; label str(v), value simplify_number(v)
  | str (s : String)                 -- LEAF; value s
  | inst (s : String)                -- LEAF; label = raw text, value instant_from_iso(raw)
  | var (name : String)              -- VARIABLE
  | bin (o : PBin) (l r : Ast)       -- FUNCALL label = operator tag, children [l, r]
  | sign (neg : Bool) (x : Ast)      -- FUNCALL label "+" / "-", one child
  | fact (x : Ast)                   -- FUNCALL label "!"
  | range (lo hi : Ast)              -- FUNCALL "range"
  | interval (lo hi : Ast)           -- FUNCALL "interval"
  | cmp1 (o : PCmp) (a b : Ast)      -- FUNCALL label = op, as built by make_comparison_node
  | cmp2 (o1 o2 : PCmp) (a b c : Ast) -- FUNCALL label = op1_op2
  | call (name : String) (args : List Ast) (kwargs : List (String × Ast))
                                     -- FUNCALL name; children = args ++ KEYWORD_ARG nodes
  | quantity (term : Ast) (sig : UnitSig)   -- QUANTITY
  | convert (e : Ast) (sig : UnitSig)       -- CONVERT_UNIT
  | array (xs : List Ast)                   -- ARRAY
  | compr (body : Ast) (gens : List (String × Ast)) (conds : List Ast)
                                     -- ARRAY_WITH_CONDITION; children [body] ++ generators ++ conditions
  | assign (name : String) (e : Ast) -- ASSIGNMENT
  | stmts (ss : List Ast)            -- STATEMENTS
deriving Inhabited

/-- Parse failure.  `at k`: ParsingError with `token_index = len(tokens) - k`. -/
inductive PErr where
  | at (unread : Nat)
  | overflow        -- OverflowError from simplify_number(inf) escapes parse_number
  | fuel            -- the model ran out of fuel (never with the fuel `parse` supplies)
deriving DecidableEq, Repr, Inhabited

abbrev Res (α : Type) := Except PErr (α × List PTok)

/-- `t.next_is(tag)` for a punctuation tag. -/
def nextIsP (s : Punct) : List PTok → Bool
  | .p s' :: _ => s' == s
  | _ => false

/-- `t.next_is_one_of(Tokens.VAR)`. -/
def nextVar : List PTok → Bool
  | .var _ :: _ => true
  | _ => false

/-- `t.next_is_one_of(*operator_tokens)`, returning the operator. -/
def nextOp (f : PBin → Bool) : List PTok → Option PBin
  | .op o :: _ => if f o then some o else none
  | _ => none

def nextCmp : List PTok → Option PCmp
  | .cmp c :: _ => some c
  | _ => none

/-- `t.read(tag)` for a punctuation tag: the unread rest, or the error at the offending token / end. -/
def expect (s : Punct) : List PTok → Except PErr (List PTok)
  | .p s' :: r => if s' == s then .ok r else .error (.at (r.length + 1))
  | toks => .error (.at toks.length)

/-! ### unit signatures (parse.py:354-401) -/

def pIntegerU (sg : Int) : List PTok → Res Int
  | .num (.int n) :: r => .ok (sg * n, r)
  | toks => .error (.at toks.length)

/-- `parse_integer`. -/
def pInteger : List PTok → Res Int
  | .op .add :: r => pIntegerU 1 r
  | .op .sub :: r => pIntegerU (-1) r
  | toks => pIntegerU 1 toks

/-- the `while t.next_is_one_of(Tokens.VAR)` loop of `parse_units`. -/
def pUnitsLoop : Nat → List PTok → Res (List (String × Int))
  | fuel, toks =>
    match toks with
    | .var name :: r =>
      match fuel with
      | 0 => .error .fuel
      | k + 1 =>
        match r with
        | .op .pow :: r2 =>
          match pInteger r2 with
          | .error e => .error e
          | .ok (ex, r3) =>
            match pUnitsLoop k r3 with
            | .error e => .error e
            | .ok (us, r4) => .ok ((name, ex) :: us, r4)
        | _ =>
          match pUnitsLoop k r with
          | .error e => .error e
          | .ok (us, r4) => .ok ((name, 1) :: us, r4)
    | _ => .ok ([], toks)

/-- `parse_units`. -/
def pUnits (toks : List PTok) : Res (List (String × Int)) :=
  match pUnitsLoop toks.length toks with
  | .error e => .error e
  | .ok ([], r) => .error (.at r.length)
  | .ok (u :: us, r) => .ok (u :: us, r)

/-- `parse_unit_signature`. -/
def pUnitSig (toks : List PTok) : Res UnitSig :=
  match pUnits toks with
  | .error e => .error e
  | .ok (us, r) =>
    if nextIsP .bar r then
      match pUnits (r.drop 1) with
      | .error e => .error e
      | .ok (iv, r2) => .ok (⟨us, iv⟩, r2)
    else .ok (⟨us, []⟩, r)

/-! ### function arguments (parse.py:316-348) -/

def isKwStart : List PTok → Bool
  | .var _ :: .p .colon :: _ => true
  | _ => false

/-- `parse_positional_args`; `started` = `bool(args)`. -/
def pPositional (rec : List PTok → Res Ast) : Nat → Bool → List PTok → Res (List Ast)
  | fuel, started, toks =>
    if nextIsP .rpar toks then .ok ([], toks) else
    match fuel with
    | 0 => .error .fuel
    | k + 1 =>
      match (if started then expect .comma toks else .ok toks) with
      | .error e => .error e
      | .ok t1 =>
        if isKwStart t1 then .ok ([], t1) else
        match rec t1 with
        | .error e => .error e
        | .ok (a, t2) =>
          match pPositional rec k true t2 with
          | .error e => .error e
          | .ok (as, t3) => .ok (a :: as, t3)

/-- `parse_keyword_args`; `started` = `bool(kw_args)`. -/
def pKeyword (rec : List PTok → Res Ast) : Nat → Bool → List PTok → Res (List (String × Ast))
  | fuel, started, toks =>
    if nextIsP .rpar toks then .ok ([], toks) else
    match fuel with
    | 0 => .error .fuel
    | k + 1 =>
      match (if started then expect .comma toks else .ok toks) with
      | .error e => .error e
      | .ok t1 =>
        match t1 with
        | .var name :: t2 =>
          match expect .colon t2 with
          | .error e => .error e
          | .ok t3 =>
            match rec t3 with
            | .error e => .error e
            | .ok (a, t4) =>
              match pKeyword rec k true t4 with
              | .error e => .error e
              | .ok (kws, t5) => .ok ((name, a) :: kws, t5)
        | _ => .error (.at t1.length)

/-- `parse_function` after the identifier and `(` have been read. -/
def pCall (rec : List PTok → Res Ast) (name : String) (toks : List PTok) : Res Ast :=
  match pPositional rec (toks.length + 1) false toks with
  | .error e => .error e
  | .ok (args, t1) =>
    match pKeyword rec (t1.length + 1) false t1 with
    | .error e => .error e
    | .ok (kws, t2) =>
      match expect .rpar t2 with
      | .error e => .error e
      | .ok t3 => .ok (.call name args kws, t3)

/-! ### primaries and the tight levels (parse.py:268-314) -/

/-- `parse_unsigned_term_without_factorial`. -/
def pUwf (rec : List PTok → Res Ast) : List PTok → Res Ast
  | .p .lpar :: r =>
    match rec r with
    | .error e => .error e
    | .ok (e, r2) =>
      match expect .rpar r2 with
      | .error e' => .error e'
      | .ok r3 => .ok (e, r3)
  | .num v :: r =>
    match Num.simplify v with
    | .ok _ => .ok (.num v, r)
    | .error _ => .error .overflow
  | .var name :: r =>
    if nextIsP .lpar r then pCall rec name (r.drop 1) else .ok (.var name, r)
  | toks => .error (.at toks.length)

/-- `parse_unsigned_term`. -/
def pUnsigned (rec : List PTok → Res Ast) (toks : List PTok) : Res Ast :=
  match pUwf rec toks with
  | .error e => .error e
  | .ok (t, r) => if nextIsP .bang r then .ok (.fact t, r.drop 1) else .ok (t, r)

/-- `parse_unitless_term`. -/
def pUnitless (rec : List PTok → Res Ast) : List PTok → Res Ast
  | .op .add :: r =>
    match pUnsigned rec r with
    | .error e => .error e
    | .ok (t, r2) => .ok (.sign false t, r2)
  | .op .sub :: r =>
    match pUnsigned rec r with
    | .error e => .error e
    | .ok (t, r2) => .ok (.sign true t, r2)
  | toks => pUnsigned rec toks

/-- `parse_maybe_quantity`. -/
def pQuantity (rec : List PTok → Res Ast) (toks : List PTok) : Res Ast :=
  match pUnitless rec toks with
  | .error e => .error e
  | .ok (t, r) =>
    if nextVar r then
      match pUnitSig r with
      | .error e => .error e
      | .ok (sig, r2) => .ok (.quantity t sig, r2)
    else .ok (t, r)

/-- `parse_maybe_range`. -/
def pRange (rec : List PTok → Res Ast) (toks : List PTok) : Res Ast :=
  match pQuantity rec toks with
  | .error e => .error e
  | .ok (lo, r) =>
    if nextIsP .dots r then
      match pQuantity rec (r.drop 1) with
      | .error e => .error e
      | .ok (hi, r2) => .ok (.range lo hi, r2)
    else .ok (lo, r)

/-! ### arrays, comprehensions, intervals (parse.py:230-266) -/

/-- `while t.next_are(ARRAY_SEPARATOR): t.read_any(); xs.append(parse_expression(t))`. -/
def pElems (rec : List PTok → Res Ast) : Nat → List PTok → Res (List Ast)
  | fuel, toks =>
    if nextIsP .comma toks then
      match fuel with
      | 0 => .error .fuel
      | k + 1 =>
        match rec (toks.drop 1) with
        | .error e => .error e
        | .ok (x, r) =>
          match pElems rec k r with
          | .error e => .error e
          | .ok (xs, r2) => .ok (x :: xs, r2)
    else .ok ([], toks)

/-- A clause of a comprehension: generator `name in expr` or a condition. -/
inductive Clause where
  | gen (name : String) (e : Ast)
  | cond (e : Ast)

/-- `parse_clause`. -/
def pClause (rec : List PTok → Res Ast) : List PTok → Res Clause
  | .var name :: .cmp .elem :: r =>
    match rec r with
    | .error e => .error e
    | .ok (a, r2) => .ok (.gen name a, r2)
  | toks =>
    match rec toks with
    | .error e => .error e
    | .ok (a, r2) => .ok (.cond a, r2)

def pClauses (rec : List PTok → Res Ast) : Nat → List PTok → Res (List Clause)
  | fuel, toks =>
    if nextIsP .comma toks then
      match fuel with
      | 0 => .error .fuel
      | k + 1 =>
        match pClause rec (toks.drop 1) with
        | .error e => .error e
        | .ok (x, r) =>
          match pClauses rec k r with
          | .error e => .error e
          | .ok (xs, r2) => .ok (x :: xs, r2)
    else .ok ([], toks)

def clauseGens : List Clause → List (String × Ast)
  | [] => []
  | .gen n e :: cs => (n, e) :: clauseGens cs
  | .cond _ :: cs => clauseGens cs

def clauseConds : List Clause → List Ast
  | [] => []
  | .gen _ _ :: cs => clauseConds cs
  | .cond e :: cs => e :: clauseConds cs

/-- `make_array_with_condition_node`: generators first, then conditions. -/
def mkCompr (body : Ast) (cs : List Clause) : Ast := .compr body (clauseGens cs) (clauseConds cs)

/-- `parse_array` after `{` has been read. -/
def pArray (rec : List PTok → Res Ast) (r : List PTok) : Res Ast :=
  if nextIsP .rbrace r then .ok (.array [], r.drop 1) else
  match rec r with
  | .error e => .error e
  | .ok (x, r1) =>
    if nextIsP .colon r1 then
      match pClause rec (r1.drop 1) with
      | .error e => .error e
      | .ok (c, r2) =>
        match pClauses rec r2.length r2 with
        | .error e => .error e
        | .ok (cs, r3) =>
          match expect .rbrace r3 with
          | .error e => .error e
          | .ok r4 => .ok (mkCompr x (c :: cs), r4)
    else
      match pElems rec r1.length r1 with
      | .error e => .error e
      | .ok (xs, r2) =>
        match expect .rbrace r2 with
        | .error e => .error e
        | .ok r3 => .ok (.array (x :: xs), r3)

/-- `parse_interval` after `[` has been read. -/
def pInterval (rec : List PTok → Res Ast) (r : List PTok) : Res Ast :=
  match rec r with
  | .error e => .error e
  | .ok (lo, r1) =>
    match expect .comma r1 with
    | .error e => .error e
    | .ok r2 =>
      match rec r2 with
      | .error e => .error e
      | .ok (hi, r3) =>
        match expect .rbrack r3 with
        | .error e => .error e
        | .ok r4 => .ok (.interval lo hi, r4)

/-- `parse_term`. -/
def pTerm (rec : List PTok → Res Ast) : List PTok → Res Ast
  | .str s :: r => .ok (.str s, r)
  | .inst s :: r => .ok (.inst s, r)
  | .p .lbrace :: r => pArray rec r
  | .p .lbrack :: r => pInterval rec r
  | toks => pRange rec toks

/-! ### binary levels (parse.py:194-209) -/

def isPowOp : PBin → Bool
  | .pow => true | _ => false
def isProdOp : PBin → Bool
  | .mul | .div | .mod => true | _ => false
def isSumOp : PBin → Bool
  | .add | .sub | .pm => true | _ => false

/-- the `while` loop of `parse_binary_op`: folds to the left. -/
def binLoop (operand : List PTok → Res Ast) (f : PBin → Bool) : Nat → Ast → List PTok → Res Ast
  | fuel, left, toks =>
    match nextOp f toks with
    | none => .ok (left, toks)
    | some o =>
      match fuel with
      | 0 => .error .fuel
      | k + 1 =>
        match operand (toks.drop 1) with
        | .error e => .error e
        | .ok (x, r) => binLoop operand f k (.bin o left x) r

/-- `parse_binary_op`. -/
def binLevel (operand : List PTok → Res Ast) (f : PBin → Bool) (toks : List PTok) : Res Ast :=
  match operand toks with
  | .error e => .error e
  | .ok (l, r) => binLoop operand f toks.length l r

def pFactor (rec : List PTok → Res Ast) : List PTok → Res Ast := binLevel (pTerm rec) isPowOp
def pProduct (rec : List PTok → Res Ast) : List PTok → Res Ast := binLevel (pFactor rec) isProdOp
def pSum (rec : List PTok → Res Ast) : List PTok → Res Ast := binLevel (pProduct rec) isSumOp

/-! ### comparisons (parse.py:47-67, 179-192) -/

def PCmp.backward : PCmp → Bool
  | .gt | .geq => true | _ => false
def PCmp.forward : PCmp → Bool
  | .lt | .leq => true | _ => false
/-- `FORWARD_OPS[BACKWARD_OPS.index(op)]` for backward operators, identity otherwise. -/
def PCmp.flip : PCmp → PCmp
  | .gt => .lt | .geq => .leq | c => c

/-- `make_comparison_node` for one operator. -/
def mkCmp1 (o : PCmp) (a b : Ast) : Ast :=
  if o.backward && !o.forward then .cmp1 o.flip b a else .cmp1 o a b

/-- `make_comparison_node` for two operators: if some operator is backward and none forward,
    flip the backward ones, reverse the operators and reverse the operands. -/
def mkCmp2 (o1 o2 : PCmp) (a b c : Ast) : Ast :=
  if (o1.backward || o2.backward) && !(o1.forward || o2.forward)
  then .cmp2 o2.flip o1.flip c b a else .cmp2 o1 o2 a b c

/-- `parse_comparison`: at most two operators. -/
def pComparison (rec : List PTok → Res Ast) (toks : List PTok) : Res Ast :=
  match pSum rec toks with
  | .error e => .error e
  | .ok (a, r1) =>
    match nextCmp r1 with
    | none => .ok (a, r1)
    | some o1 =>
      match pSum rec (r1.drop 1) with
      | .error e => .error e
      | .ok (b, r2) =>
        match nextCmp r2 with
        | none => .ok (mkCmp1 o1 a b, r2)
        | some o2 =>
          match pSum rec (r2.drop 1) with
          | .error e => .error e
          | .ok (c, r3) => .ok (mkCmp2 o1 o2 a b c, r3)

/-- `parse_expression` with the nested `parse_expression` abstracted as `rec`. -/
def pExprBody (rec : List PTok → Res Ast) (toks : List PTok) : Res Ast :=
  match pComparison rec toks with
  | .error e => .error e
  | .ok (e, r) =>
    if nextIsP .to r then
      match pUnitSig (r.drop 1) with
      | .error e' => .error e'
      | .ok (sig, r2) => .ok (.convert e sig, r2)
    else .ok (e, r)

/-- `parse_expression` with nesting depth bounded by the fuel. -/
def pExpr : Nat → List PTok → Res Ast
  | 0 => fun _ => .error .fuel
  | n + 1 => pExprBody (pExpr n)

/-! ### statements (parse.py:146-171) -/

/-- `parse_statement` (with `parse_assignment` inlined). -/
def pStatement (rec : List PTok → Res Ast) : List PTok → Res Ast
  | .var name :: .cmp .asg :: r =>
    match rec r with
    | .error e => .error e
    | .ok (e, r2) => .ok (.assign name e, r2)
  | toks => rec toks

/-- the `while not t.empty()` loop of `parse_statements`. -/
def pStatements (rec : List PTok → Res Ast) : Nat → List PTok → Except PErr (List Ast)
  | _, [] => .ok []
  | 0, _ :: _ => .error .fuel
  | k + 1, tok :: toks =>
    match pStatement rec (tok :: toks) with
    | .error e => .error e
    | .ok (s, r) =>
      match r with
      | [] => .ok [s]
      | _ :: _ =>
        match expect .semi r with
        | .error e => .error e
        | .ok r2 =>
          match pStatements rec k r2 with
          | .error e => .error e
          | .ok ss => .ok (s :: ss)

/-- `parse_tokens` on the typed view.  Fuel: nesting depth and number of statements are both
    bounded by the number of tokens. -/
def parseToks (toks : List PTok) : Except PErr Ast :=
  match pStatements (pExpr (toks.length + 1)) (toks.length + 1) toks with
  | .error e => .error e
  | .ok ss => .ok (.stmts ss)

/-- What escapes `parse_tokens`. -/
inductive ParseError where
  | parsing (tokenIndex : Nat)    -- ParsingError.token_index
  | overflow
  | fuel
deriving DecidableEq, Repr, Inhabited

/-- `parse_tokens(tokens)`. -/
def parse (tokens : List Token) : Except ParseError Ast :=
  match parseToks (tokens.map PTok.ofToken) with
  | .ok t => .ok t
  | .error (.at k) => .error (.parsing (tokens.length - k))
  | .error .overflow => .error .overflow
  | .error .fuel => .error .fuel

end KaVerif.Parser
