import KaVerif.Model.Eval
import KaVerif.Gen.Bodies
/-
  The unified pipeline model of `Model/Eval.lean` with the function bodies TRANSLATED from the Python source
  (`Gen/Bodies.lean`, translate/gen_bodies.py) substituted for the hand-written bodies: `dispatchVG` prefers the entry of
  `Gen.Bodies.bodiesTable` under the chosen implementation descriptor and falls back to `implTable` for descriptors the
  translator refused.  Everything else (overload resolution over the generated registry, coercion, `simplify_type`,
  `eval_node`, statements, display, `execute`) is `Model/Eval.lean`'s, copied with the dispatcher as a parameter: the
  definitions below from `evalEW` on are textually those of `Eval.evalE … Eval.runSession` with `dispatchTop` replaced by
  the parameter `disp` — and that is CHECKED, not trusted: `BODIES_evalG_instance` (Props/Bodies.lean) proves that
  at `disp := Eval.dispatchTop` every one of them IS the `Eval` definition (structural induction over `Parser.Ast`), so a
  copy that falls behind `Model/Eval.lean` (as it did when instants and probability entered the model) stops building.  Driver streams `runG` / `runsessG` (Driver/EvalG.lean) run whole programs through it; the harness
  compares them with the real `execute()` exactly like the `run` / `runsess` streams.

  The translated bodies carry no size bounds of their own; where the hand-written body refuses an astronomically large
  result (`lo..hi` beyond `maxRange`), `refusesSize` keeps that refusal (it is the side condition of the corresponding
  `Props/Bodies` theorem).  Import-free apart from Model/Gen modules.
-/
namespace KaVerif.EvalG
open KaVerif Num Eval

/-- the size refusals of the hand-written bodies that a translated body does not have -/
def refusesSize (code : Option BodyCode) (args : List Val) : Option String :=
  match code, args with
  | some .range, [.num (.int lo), .num (.int hi)] => if (hi + 1 - lo).toNat > maxRange then some "huge range" else Option.none
  -- `bPow` declines powers with millions of digits (`10^12!` is `10^(12!)`); the translated `strict_pow` would compute them
  | some .pow, [.num x, .num y] => if hugePow x y then some "huge power" else Option.none
  | some .kaRange, [.num lo, .num hi, .num step] =>
    -- `bKaRange` declines a nominal length beyond `maxRange` after its two guards passed (the translated `while` loop would
    -- only stop at `pyLoopFuel`, after 20000 quadratic `append`s)
    if cmpLt (.int 0) step && cmpLe lo hi && decide ((((hi.toRat - lo.toRat) / step.toRat).floor.toNat) + 3 > maxRange)
    then some "huge range" else Option.none
  | _, _ => Option.none

/-- `Eval.dispatchV` with the translated bodies `tbl` taking precedence over the hand-written ones -/
def dispatchVG (tbl : List (String × Body)) : Nat → String → List Val → List (String × Val) → R Val
  | 0, _, _, _ => .error .fuel
  | n + 1, name, args, kw =>
    match resolveDesc name (args.map classOf) (kwIds kw) with
    | .error e => raise (derr e)
    | .ok ⟨pos, va, desc, code?⟩ =>
      match tbl.lookup desc, code? with
      | some g, _ => do
        let cargs ← coerceArgs pos va args
        match refusesSize code? cargs with
        | some why => .error (.unmodelled why)
        | Option.none =>
          let r ← g (fun nm as => dispatchVG tbl n nm as []) cargs
          simplifyVal r
      | Option.none, some code => do
        let cargs ← coerceArgs pos va args
        let r ← code.run (fun nm as => dispatchVG tbl n nm as []) cargs
        simplifyVal r
      | Option.none, Option.none => .error (.unmodelled ("function " ++ shortName desc))

/-- the top-level dispatcher over the translated bodies -/
def dispatchTopG (name : String) (args : List Val) (kw : List (String × Val)) : R Val :=
  dispatchVG Gen.Bodies.bodiesTable dispatchFuel name args kw

abbrev DispK := String → List Val → List (String × Val) → R Val

/-! ### `eval_node` … `execute` with the dispatcher as a parameter (copies of Model/Eval.lean) -/

mutual
/-- `eval_node` on an expression tree (every mode except ASSIGNMENT and STATEMENTS, which only
    occur at statement level: `wfE`).  Children left to right, then `eval_based_on_mode`. -/
def evalEW (disp : DispK) (env : Env) : Parser.Ast → R Val
  | .num v => liftE (simplify v) |>.map .num          -- LEAF: `simplify_number(v)` (parse_number)
  | .str s => .ok (.str s)
  | .inst s => instLeaf s                             -- LEAF: the Instant built by `parse_instant`
  | .var x =>
    match env.get x with
    | some v => .ok v
    | Option.none => raise .eval                      -- "Unassigned variable"
  | .bin o l r => do
    let x ← evalEW disp env l
    let y ← evalEW disp env r
    disp o.spelling [x, y] []
  | .sign neg x => do
    let v ← evalEW disp env x
    disp (if neg then "-" else "+") [v] []
  | .fact x => do
    let v ← evalEW disp env x
    disp "!" [v] []
  | .range lo hi => do
    let x ← evalEW disp env lo
    let y ← evalEW disp env hi
    disp "range" [x, y] []
  | .interval lo hi => do
    let x ← evalEW disp env lo
    let y ← evalEW disp env hi
    disp "interval" [x, y] []
  | .cmp1 o a b => do
    let x ← evalEW disp env a
    let y ← evalEW disp env b
    disp (cmpName o) [x, y] []
  | .cmp2 o1 o2 a b c => do
    let x ← evalEW disp env a
    let y ← evalEW disp env b
    let z ← evalEW disp env c
    disp (cmpName o1 ++ "_" ++ cmpName o2) [x, y, z] []
  | .call name args kws => do
    let xs ← evalEsW disp env args
    let ks ← evalKsW disp env kws
    disp name xs ks
  | .quantity t sig => do
    let v ← evalEW disp env t
    makeQuantity v sig
  | .convert e sig => do
    let v ← evalEW disp env e
    convertQuantity v sig
  | .array xs => do
    let vs ← evalEsW disp env xs
    let rs ← vs.mapM resolveLazy
    .ok (.arr rs)
  | .compr body gens conds =>
    if gens.isEmpty then raise .eval else do
      let subs ← evalKsW disp env gens
      comprehension subs (evalCondsW disp conds) (fun env' => evalEW disp env' body) env
  | .assign _ _ => .error (.unmodelled "assignment inside an expression")
  | .stmts _ => .error (.unmodelled "statements inside an expression")
/-- the children of a node, left to right -/
def evalEsW (disp : DispK) (env : Env) : List Parser.Ast → R (List Val)
  | [] => .ok []
  | x :: xs => do
    let v ← evalEW disp env x
    let vs ← evalEsW disp env xs
    .ok (v :: vs)
/-- named children (KEYWORD_ARG nodes; generator clauses) left to right -/
def evalKsW (disp : DispK) (env : Env) : List (String × Parser.Ast) → R (List (String × Val))
  | [] => .ok []
  | (k, x) :: xs => do
    let v ← evalEW disp env x
    let vs ← evalKsW disp env xs
    .ok ((k, v) :: vs)
/-- the condition nodes of a comprehension as functions of the loop's environment -/
def evalCondsW (disp : DispK) : List Parser.Ast → List (Env → R Val)
  | [] => []
  | c :: cs => (fun env' => evalEW disp env' c) :: evalCondsW disp cs
end

/-- one statement: the bindings after it (an assignment binds its name; a failing statement
    leaves them as they were) and its value -/
def evalStmtW (disp : DispK) (env : Env) : Parser.Ast → Env × R Val
  | .assign x e =>
    match evalEW disp env e with
    | .ok v => (env.set x v, .ok v)
    | .error er => (env, .error er)
  | s => (env, evalEW disp env s)

/-- the children of the STATEMENTS node, left to right; the first failure aborts, the bindings
    made so far stay (the environment is mutated in place) -/
def runStmtsW (disp : DispK) (env : Env) (last : Val) : List Parser.Ast → Env × R Val
  | [] => (env, .ok last)
  | s :: rest =>
    match evalStmtW disp env s with
    | (env', .ok v) => runStmtsW disp env' v rest
    | (env', .error e) => (env', .error e)

/-- `eval_parse_tree(root, env)` on a program tree: the session's bindings afterwards and the
    value (`child_values[-1] if child_values else None`) or the failure -/
def runProgramW (disp : DispK) (env : Env) : Parser.Ast → Env × R Val
  | .stmts ss => runStmtsW disp env .none ss
  | s => evalStmtW disp env s

/-- `eval_node` on any tree: value and bindings -/
def evalAstW (disp : DispK) (env : Env) (t : Parser.Ast) : R (Val × Env) :=
  match runProgramW disp env t with
  | (env', .ok v) => .ok (v, env')
  | (_, .error e) => .error e


/-- the part of `execute` after parsing: evaluate, reduce, display -/
def runTreeW (disp : DispK) (env : Env) (t : Parser.Ast) : Env × Outcome :=
  match checkInstants (instTexts t) with
  | some o => (env, o)
  | Option.none =>
  match runProgramW disp env t with
  | (env', .error e) => (env', ofEvalErr e)
  | (env', .ok v) =>
    match reduceResult v >>= displayText with
    | .ok s => (env', .ok s)
    | .error e => (env', ofEvalErr e)

/-- `execute` from the token list on -/
def runTokensW (disp : DispK) (env : Env) (tokens : List Token) : Env × Outcome :=
  match Parser.parse tokens with
  | .error (.parsing i) =>
    -- `instant_from_iso` runs when the parser reads an instant token and may raise there: the instant
    -- tokens before the offending one have been read (a ParsingError points at the token being read)
    match checkInstants (tokInstTexts (tokens.take i)) with
    | some o => (env, o)
    | Option.none => (env, .parseErr (parseErrIndex tokens i))
  | .error .overflow =>
    -- where `parse_number` overflowed is not recorded: with a malformed instant literal around, which
    -- of the two exceptions comes first is not known
    if (checkInstants (tokInstTexts tokens)).isSome then (env, .unmodelled "instant") else (env, .escaped "OverflowError")
  | .error .fuel => (env, .unmodelled "parser bound")
  | .ok t => runTreeW disp env t

/-- `interpret.execute(s, env)` -/
def runInW (disp : DispK) (env : Env) (s : List Char) : Env × Outcome :=
  if !s.all Lexer.inAlphabet then (env, .unmodelled "character outside the lexer model's alphabet") else
  if hugeExponent s then (env, .unmodelled "huge literal exponent") else
  match Lexer.tokenise s with
  | .error e => (env, lexOutcome e)
  | .ok toks => runTokensW disp env toks

/-- one input against a fresh session -/
def runTextW (disp : DispK) (s : String) : Outcome := (runInW disp initialEnv s.toList).2

/-- successive inputs against one session; once an input leaves the model the bindings are no
    longer known and every later answer is `unmodelled` -/
def runSessionW (disp : DispK) : Env → Bool → List String → List Outcome
  | _, _, [] => []
  | env, lost, s :: rest =>
    if lost then .unmodelled "after an unmodelled input" :: runSessionW disp env true rest else
    match runInW disp env s.toList with
    | (_, .unmodelled w) => .unmodelled w :: runSessionW disp env true rest
    | (env', o) => o :: runSessionW disp env' false rest


end KaVerif.EvalG
