/-
  C18 — sampling.  Every sampler of `src/ka/probability.py` as a PURE FUNCTION OF THE STREAM
  OF UNIFORM DRAWS `u₀, u₁, … ∈ [0,1)`: draw `i` is the value returned by the `i`-th call of
  `probability.unit()` (= `random.random()`) after the generator was (re)seeded.  The only
  randomness sources in `src/ka` are that call and the `seed` registration (`random.seed`);
  `Gen/RandomSources.lean` re-establishes this from the `ast` of the sources on every run.

  Anchors: src/ka/probability.py  unit():8-9, Binomial.sample:53-60, Poisson.sample:82-91 (pmf:74-77),
           Geometric.sample:115-119, Bernoulli.sample:143-144, UniformInt.sample:173-176,
           Exponential.sample:196-197, Uniform.sample:218-219, Gaussian.sample:238-239;
           src/ka/functions.py:396-401 (rand, seed), :425-432 (sample, sample_multiple).

  Import-free and executable.  Exact regime (DESIGN 2.3): draws and parameters are the exact
  rational values of the Python numbers (a double in [0,1) is `m/2^53`); arithmetic is exact, IEEE
  rounding is not modelled.  `ln`, `erfinv`, `sqrt 2`, `exp(-mu)` are abstract parameters (`Fns`);
  the theorems constrain them only by the laws they need, the driver runs them with `Float`.
-/
namespace KaVerif.Sample

/-- the stream of draws produced by successive `unit()` calls -/
abbrev Draws := Nat → Rat

/-- the generator state: the current stream and how many draws were taken from it -/
structure Gen where
  us : Draws
  i : Nat

/-- `unit()`: take the next draw. -/
def unit (g : Gen) : Rat × Gen := (g.us g.i, { g with i := g.i + 1 })

/-- the transcendental functions and constants the samplers go through -/
structure Fns where
  ln : Rat → Rat          -- math.log
  erfinv : Rat → Rat      -- utils.erfinv
  sqrt2 : Rat             -- math.sqrt(2)
  expNeg : Int → Rat      -- mu ↦ math.exp(-mu)
  fuel : Nat              -- bound on the Poisson scan (Python: `while True`)

/-! ### the samplers on single draws -/

/-- `1 if unit() < self.p else 0` -/
def bernoulli (p u : Rat) : Int := if u < p then 1 else 0

/-- `min(self.hi, self.lo + math.floor(unit()*(self.hi-self.lo+1)))` (after fix 2bc01ee; before it the
    code was `math.floor(self.lo + unit()*(self.hi-self.lo+1))`, equal in exact arithmetic for
    `u ∈ [0,1)` — `uniformInt_eq_floor` — but rounding across `hi` in floating point) -/
def uniformInt (lo hi : Int) (u : Rat) : Int :=
  min hi (lo + (u * ((hi - lo + 1 : Int) : Rat)).floor)

/-- `self.lo + unit()*(self.hi - self.lo)` -/
def uniform (lo hi u : Rat) : Rat := lo + u * (hi - lo)

/-- `-math.log(1-unit())/self.lam`, generic in the number type: executed over `Rat` (driver), reasoned
    about over `ℝ` with the real logarithm (Props/C18Real.lean) — one formula, two instances -/
def exponentialG {α : Type} [Neg α] [Sub α] [Div α] [OfNat α 1] (ln : α → α) (lam u : α) : α :=
  -(ln (1 - u)) / lam

def exponential (ln : Rat → Rat) (lam u : Rat) : Rat := exponentialG ln lam u

/-- `math.ceil(math.log(1-unit())/math.log(1-self.p))` (the branch `p ≠ 1`), generic likewise -/
def geometricG {α : Type} [Sub α] [Div α] [OfNat α 1] (ln : α → α) (ceil : α → Int) (p u : α) : Int :=
  ceil (ln (1 - u) / ln (1 - p))

def geometric (ln : Rat → Rat) (p u : Rat) : Int := geometricG ln Rat.ceil p u

/-- `self.stddev*math.sqrt(2)*erfinv(2*unit()-1) + self.mu` -/
def gaussian (sqrt2 : Rat) (erfinv : Rat → Rat) (mu sd u : Rat) : Rat :=
  sd * sqrt2 * erfinv (2 * u - 1) + mu

def fact : Nat → Nat
  | 0 => 1
  | n + 1 => (n + 1) * fact n

/-- `Poisson.pmf(k)` for `k ≥ 0`: `self.mu**x * math.exp(-self.mu) / factorial(x)` with `E = exp(-mu)` -/
def poissonPmf (mu E : Rat) (k : Nat) : Rat := mu ^ k * E / (fact k : Rat)

/-- the cdf the scan accumulates: `Σ_{j ≤ k} pmf j` -/
def poissonCdf (mu E : Rat) : Nat → Rat
  | 0 => poissonPmf mu E 0
  | k + 1 => poissonCdf mu E k + poissonPmf mu E (k + 1)

/-- `Poisson.sample`'s loop `while True: p += pmf(k); if p > u: break; k += 1` entered with
    counter `k` and accumulator `p`; `none` = the fuel ran out. -/
def poissonScan (mu E u : Rat) : Nat → Nat → Rat → Option Nat
  | 0, _, _ => none
  | fuel + 1, k, p =>
    let p' := p + poissonPmf mu E k
    if p' > u then some k else poissonScan mu E u fuel (k + 1) p'

def poisson (mu E : Rat) (fuel : Nat) (u : Rat) : Option Nat := poissonScan mu E u fuel 0 0

/-- `Binomial.sample`: `for _ in range(n): if unit() < p: c += 1` — `n` successive draws. -/
def binomial (p : Rat) : Nat → Gen → Int × Gen
  | 0, g => (0, g)
  | n + 1, g =>
    let (u, g1) := unit g
    let (c, g2) := binomial p n g1
    (bernoulli p u + c, g2)

/-! ### the cdfs `P(X <= t)` reports (probability.py `cdf` methods), restated for the
    inverse-transform theorems; tied to the code by the `scdf` correspondence stream -/

/-- `Bernoulli.cdf`: `if x >= 1: 1; if x >= 0: 1 - p; else 0` -/
def cdfBernoulli (p : Rat) (t : Int) : Rat := if t ≥ 1 then 1 else if t ≥ 0 then 1 - p else 0

/-- `UniformInt.cdf`: `0` below `lo`, `1` from `hi` on, `(x-lo+1)/(hi-lo+1)` between -/
def cdfUniformInt (lo hi t : Int) : Rat :=
  if t < lo then 0 else if t ≥ hi then 1 else ((t - lo + 1 : Int) : Rat) / ((hi - lo + 1 : Int) : Rat)

/-- `Uniform.cdf` -/
def cdfUniform (lo hi t : Rat) : Rat :=
  if t < lo then 0 else if t ≥ hi then 1 else (t - lo) / (hi - lo)

/-- `Σ_{j ≤ k} mu**j / factorial(j)` -/
def poissonSeries (mu : Rat) : Nat → Rat
  | 0 => mu ^ 0 / (fact 0 : Rat)
  | k + 1 => poissonSeries mu k + mu ^ (k + 1) / (fact (k + 1) : Rat)

/-- `Poisson.cdf(x)` for `x ≥ 0`: `math.exp(-mu) * sum(mu**j / factorial(j) for j in range(x+1))` -/
def cdfPoisson (mu E : Rat) (t : Nat) : Rat := E * poissonSeries mu t

/-! ### distributions as values -/

/-- a random variable object: constructor name and the parameters it stores -/
inductive Dist where
  | binomial (n : Int) (p : Rat)
  | poisson (mu : Int)
  | geometric (p : Rat)
  | bernoulli (p : Rat)
  | uniformInt (lo hi : Int)
  | exponential (lam : Rat)
  | uniform (lo hi : Rat)
  | gaussian (mu sd : Rat)
deriving Repr

/-- the constructor's parameter checks (`InvalidParameterException` otherwise) -/
def Dist.valid : Dist → Bool
  | .binomial n p => decide (0 < n) && decide (0 ≤ p) && decide (p ≤ 1)
  | .poisson mu => decide (0 < mu)
  | .geometric p => decide (0 < p) && decide (p ≤ 1)
  | .bernoulli p => decide (0 ≤ p) && decide (p ≤ 1)
  | .uniformInt lo hi => decide (lo ≤ hi)
  | .exponential lam => decide (0 < lam)
  | .uniform lo hi => decide (lo ≤ hi)
  | .gaussian _ sd => decide (0 < sd)

/-- `rv.sample()`: the value (`none` = the Poisson scan ran out of fuel) and the generator afterwards. -/
def Dist.sample (F : Fns) : Dist → Gen → Option Rat × Gen
  | .binomial n p, g => let (c, g') := Sample.binomial p n.toNat g; (some (c : Rat), g')
  | .poisson mu, g =>
    let (u, g') := unit g
    ((Sample.poisson (mu : Rat) (F.expNeg mu) F.fuel u).map (fun k => ((k : Int) : Rat)), g')
  | .geometric p, g =>
    if p = 1 then (some 1, g)
    else let (u, g') := unit g; (some ((Sample.geometric F.ln p u : Int) : Rat), g')
  | .bernoulli p, g => let (u, g') := unit g; (some ((Sample.bernoulli p u : Int) : Rat), g')
  | .uniformInt lo hi, g => let (u, g') := unit g; (some ((Sample.uniformInt lo hi u : Int) : Rat), g')
  | .exponential lam, g => let (u, g') := unit g; (some (Sample.exponential F.ln lam u), g')
  | .uniform lo hi, g => let (u, g') := unit g; (some (Sample.uniform lo hi u), g')
  | .gaussian mu sd, g => let (u, g') := unit g; (some (Sample.gaussian F.sqrt2 F.erfinv mu sd u), g')

/-- how many draws one `sample()` takes — a function of the distribution object alone -/
def Dist.cost : Dist → Nat
  | .binomial n _ => n.toNat
  | .geometric p => if p = 1 then 0 else 1
  | _ => 1

/-- `[rv.sample() for _ in range(n)]` -/
def sampleMany (F : Fns) (d : Dist) : Nat → Gen → List (Option Rat) × Gen
  | 0, g => ([], g)
  | n + 1, g =>
    let (x, g1) := d.sample F g
    let (xs, g2) := sampleMany F d n g1
    (x :: xs, g2)

/-! ### histories of `rand()` / `seed(k)` / `sample(X)` / `sample(X, n)` -/

inductive Op where
  | rand                               -- rand()
  | seed (k : Int)                     -- seed(k)
  | sample (d : Dist)                  -- sample(X)
  | sampleN (d : Dist) (n : Int)       -- sample(X, n)
deriving Repr

inductive Res where
  | none                               -- seed returns None
  | num (x : Option Rat)
  | arr (xs : List (Option Rat))

/-- One operation.  `seeded k` is the stream `random.seed(k)` installs (the Mersenne Twister as an
    abstract function of the seed). -/
def Op.run (seeded : Int → Draws) (F : Fns) : Op → Gen → Res × Gen
  | .rand, g => let (u, g') := unit g; (.num (some u), g')
  | .seed k, _ => (.none, { us := seeded k, i := 0 })
  | .sample d, g => let (x, g') := d.sample F g; (.num x, g')
  | .sampleN d n, g => let (xs, g') := sampleMany F d n.toNat g; (.arr xs, g')

/-- A history, executed in order on one generator. -/
def run (seeded : Int → Draws) (F : Fns) : List Op → Gen → List Res × Gen
  | [], g => ([], g)
  | op :: ops, g =>
    let (r, g1) := op.run seeded F g
    let (rs, g2) := run seeded F ops g1
    (r :: rs, g2)

/-- number of draws an operation takes (`seed` takes none and resets the position) -/
def Op.cost : Op → Nat
  | .rand => 1
  | .seed _ => 0
  | .sample d => d.cost
  | .sampleN d n => n.toNat * d.cost

end KaVerif.Sample
