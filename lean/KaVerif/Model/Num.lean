/-
  Numeric tower of Ka = the Python kinds `int`, `fractions.Fraction`, `float`
  and the operator semantics Ka reaches through `dispatch`.

  Anchors: src/ka/types.py (simplify_number, simplify_type, fraction_divide),
           src/ka/functions.py:239-270 (is_fractional, strict_pow, BINARY_OPS,
           the (Integral, Integral) override of "/"), :312-330 (NUMERIC_FUNCTIONS).

  Import-free and executable.  `Num.flt` carries a real IEEE double so the
  driver reproduces Python's float results; no theorem reasons about the
  *value* of a float, only about which kind comes out.
-/
namespace KaVerif

/-- Error classes, one per exception class the code can raise (coarse enum used
    by the correspondence check; messages are not compared). -/
inductive Err where
  | divZero          -- ZeroDivisionError (→ EvalError "Attempted to divide by zero.")
  | overflow         -- OverflowError     (→ EvalError "Overflow, …")
  | runtime          -- KaRuntimeError
  | noMatch          -- NoMatchingFunctionSignatureError
  | unknownFn        -- UnknownFunctionError
  | unknownKw        -- UnknownKeywordError
  | badKw            -- BadTypeKeywordError
  | incompatible     -- IncompatibleQuantitiesError
  | funArg           -- FunctionArgError
  | invalidParam     -- InvalidParameterException
  | eval             -- any other EvalError
  | py (cls : String) -- a host exception the code does not convert
  | diverges         -- the Python loop would not terminate
deriving DecidableEq, Repr, Inhabited

def Err.code : Err → String
  | .divZero => "divzero" | .overflow => "overflow" | .runtime => "runtime"
  | .noMatch => "nomatch" | .unknownFn => "unknownfn" | .unknownKw => "unknownkw"
  | .badKw => "badkw" | .incompatible => "incompatible" | .funArg => "funarg"
  | .invalidParam => "invalidparam" | .eval => "eval" | .py c => "py:" ++ c
  | .diverges => "diverges"

/-- A Python number of one of the three kinds Ka computes with. -/
inductive Num where
  | int (n : Int)
  | frac (q : Rat)
  | flt (x : Float)
deriving Inhabited

namespace Num

def isFloat : Num → Bool
  | flt _ => true
  | _ => false

def isInt : Num → Bool
  | int _ => true
  | _ => false

/-- Exact rational value of a finite IEEE double, from its bit pattern. -/
def floatToRat (x : Float) : Rat :=
  let b : Nat := x.toBits.toNat
  let sign : Int := if b / 2^63 % 2 = 1 then -1 else 1
  let e : Nat := b / 2^52 % 2^11
  let m : Nat := b % 2^52
  if e = 0 then
    ((sign * (m : Int) : Int) : Rat) / ((2:Rat)^(1074:Nat))
  else
    let mant : Int := ((2^52 + m : Nat) : Int)
    if e ≥ 1075 then ((sign * mant * (2:Int)^(e - 1075) : Int) : Rat)
    else ((sign * mant : Int) : Rat) / ((2:Rat)^(1075 - e))

/-- Correctly rounded (half-to-even) conversion of the positive rational `n/d` to an IEEE
    double, returned as its bit pattern without sign; `none` on overflow.  This is what
    CPython's `int.__truediv__`/`float(int)`/`Fraction.__float__` compute. -/
def posRatToBits (n d : Nat) : Option Nat :=
  if n = 0 then some 0 else
  -- e = floor(log2(n/d)) up to one: compare bit lengths, then normalise
  let e0 : Int := (n.log2 : Int) - (d.log2 : Int)
  -- scaled so that quotient has at least 54 significant bits
  let shift : Int := 54 - e0
  let (num, den) := if shift ≥ 0 then (n * 2 ^ shift.toNat, d) else (n, d * 2 ^ (-shift).toNat)
  let q := num / den
  let r := num % den
  -- q has 54 or 55 bits; value = (q + r/den) * 2^(-shift)
  let bits := q.log2 + 1
  -- target: 53-bit mantissa m, value = m * 2^(ex)
  let drop := bits - 53
  let ex : Int := (drop : Int) - shift
  -- subnormal handling: minimum exponent of the unit in the last place is -1074
  let (drop, ex) := if ex < -1074 then (drop + (-1074 - ex).toNat, (-1074 : Int)) else (drop, ex)
  let m0 := q / 2 ^ drop
  let rem := q % 2 ^ drop
  let half := 2 ^ (drop - 1)
  let sticky := r != 0
  let up := if drop = 0 then false
            else if rem > half then true
            else if rem < half then false
            else if sticky then true
            else m0 % 2 = 1
  let m := if up then m0 + 1 else m0
  -- renormalise if the mantissa overflowed to 2^53
  let (m, ex) := if m = 2 ^ 53 then (2 ^ 52, ex + 1) else (m, ex)
  if m < 2 ^ 52 then
    -- subnormal (ex = -1074) or zero
    some m
  else
    let biased : Int := ex + 1075
    if biased ≥ 2047 then none else some (biased.toNat * 2 ^ 52 + (m - 2 ^ 52))

/-- `float(q)` for a rational, correctly rounded; a non-finite result signals overflow. -/
def ratToFloat (q : Rat) : Float :=
  match posRatToBits q.num.natAbs q.den with
  | some b => Float.ofBits (UInt64.ofNat (if q.num < 0 then b + 2 ^ 63 else b))
  | none => if q.num < 0 then -(1.0 / 0.0) else (1.0 / 0.0)

def intToFloat (n : Int) : Float := ratToFloat (n : Rat)

/-- Exact value of an exact kind; floats through their bit pattern. -/
def toRat : Num → Rat
  | int n => (n : Rat)
  | frac q => q
  | flt x => floatToRat x

/-- Python's `float(x)`; `OverflowError` when the int / Fraction is too large. -/
def toFloat : Num → Except Err Float
  | int n => let f := intToFloat n; if f.isFinite then .ok f else .error .overflow
  | frac q => let f := ratToFloat q; if f.isFinite then .ok f else .error .overflow
  | flt x => .ok x

/-- `simplify_number` (types.py:40-51): a Fraction whose numerator is divisible by its
    denominator becomes an int; an integral float becomes an int (`int(inf)` is
    OverflowError); everything else is unchanged. -/
def simplify : Num → Except Err Num
  | int n => .ok (int n)
  | frac q => if q.num % (q.den : Int) == 0 then .ok (int (q.num / (q.den : Int))) else .ok (frac q)
  | flt x =>
    if x.isFinite then (if x.floor == x then .ok (int (floatToRat x).num) else .ok (flt x))
    else if x.isNaN then .ok (flt x)     -- modf(nan) = (nan, nan): returned unchanged
    else .error .overflow                -- int(inf)

/-- The canonical delivery of an exact rational: int when integral, reduced fraction otherwise. -/
def canon (q : Rat) : Num := if q.den = 1 then int q.num else frac q

def isExact : Num → Bool
  | flt _ => false
  | _ => true

/-- not an infinity or NaN -/
def finite : Num → Bool
  | flt x => x.isFinite
  | _ => true

/-- Floored modulo on rationals: `a - b * floor(a / b)` (Fraction.__mod__). -/
def fmodRat (a b : Rat) : Rat := a - b * ((a / b).floor : Rat)

/-- Python float `%`: C `fmod` (exact, sign of the dividend), then `+ y` when the signs differ. -/
def fmodFloat (x y : Float) : Float :=
  let xr := floatToRat x; let yr := floatToRat y
  let t : Int := let q := xr / yr; if q < 0 then q.ceil else q.floor
  let m := ratToFloat (xr - yr * (t : Rat))
  if m == 0 then (if y < 0 then -0.0 else 0.0)
  else if (y < 0) != (m < 0) then m + y else m

/-- `Fraction.__pow__` with a non-negative integer exponent: numerator and denominator are
    raised separately (no intermediate normalisation — they stay coprime) -/
def ratPowNat (q : Rat) (n : Nat) : Rat := mkRat (q.num ^ n) (q.den ^ n)

inductive BinOp where
  | add | sub | mul | div | mod | pow
deriving DecidableEq, Repr, Inhabited

/-- Python's float arithmetic result check: a non-finite result of an operation
    on finite operands is reported as overflow (Python raises OverflowError for
    `**`, and `simplify_number` raises it for an infinite `+ - * /` result). -/
def fin (x : Float) : Except Err Num :=
  if x.isFinite then .ok (flt x) else .error .overflow

/-- `operator.add/sub/mul` on two Python numbers, before `simplify_type`. -/
def pyLin (op : BinOp) (a b : Num) : Except Err Num :=
  match a, b with
  | int x, int y =>
    match op with
    | .add => .ok (int (x + y)) | .sub => .ok (int (x - y)) | _ => .ok (int (x * y))
  | flt _, _ | _, flt _ => do
    let x ← a.toFloat; let y ← b.toFloat
    match op with
    | .add => fin (x + y) | .sub => fin (x - y) | _ => fin (x * y)
  | _, _ =>
    let x := a.toRat; let y := b.toRat
    match op with
    | .add => .ok (frac (x + y)) | .sub => .ok (frac (x - y)) | _ => .ok (frac (x * y))

/-- `fraction_divide` = `Fraction(n1, n2)`, the (Integral, Integral) override of "/". -/
def fractionDivide (x y : Int) : Except Err Num :=
  if y = 0 then .error .divZero else .ok (frac ((x : Rat) / (y : Rat)))

/-- `operator.truediv` on the remaining kind pairs. -/
def pyTrueDiv (a b : Num) : Except Err Num :=
  match a, b with
  | flt _, _ | _, flt _ => do
    let x ← a.toFloat; let y ← b.toFloat
    if y == 0 then .error .divZero else fin (x / y)
  | int x, int y =>   -- only reached if the override were missing: Python's int/int is a float
    if y = 0 then .error .divZero else fin (ratToFloat ((x : Rat) / (y : Rat)))
  | _, _ => if b.toRat = 0 then .error .divZero else .ok (frac (a.toRat / b.toRat))

/-- `operator.mod`. -/
def pyMod (a b : Num) : Except Err Num :=
  match a, b with
  | int x, int y => if y = 0 then .error .divZero else .ok (int (Int.fmod x y))
  | flt _, _ | _, flt _ => do
    let x ← a.toFloat; let y ← b.toFloat
    if y == 0 then .error .divZero else fin (fmodFloat x y)
  | _, _ => if b.toRat = 0 then .error .divZero else .ok (frac (fmodRat a.toRat b.toRat))

/-- `int(x)`: truncation toward zero. -/
def pyInt : Num → Except Err Int
  | int n => .ok n
  | frac q => .ok (if q.num < 0 then -((-q.num) / (q.den : Int)) else q.num / (q.den : Int))
  | flt x => if x.isFinite then .ok ((floatToRat (if x < 0 then x.ceil else x.floor)).num) else .error .overflow

/-- exact comparison across kinds (Python compares int/Fraction/float exactly). -/
def cmpLt (a b : Num) : Bool := a.toRat < b.toRat
def cmpLe (a b : Num) : Bool := a.toRat ≤ b.toRat
def cmpEq (a b : Num) : Bool := a.toRat = b.toRat

/-- `is_fractional(y)`: `int(y) != y`. -/
def isFractional (y : Num) : Except Err Bool := do
  let t ← pyInt y
  .ok (!(cmpEq (int t) y))

/-- Python `x ** y` on the kinds, after `strict_pow`'s guard. -/
def pyPow (a b : Num) : Except Err Num := do
  let fracl ← isFractional b
  if fracl && cmpLt a (int 0) then .error .runtime else
  match a, b with
  | int x, int y =>
    if y ≥ 0 then .ok (int (x ^ y.toNat))
    else if x = 0 then .error .divZero
    else do let xf ← a.toFloat; let yf ← b.toFloat; fin (xf.pow yf)
  | frac q, int y =>
    if y ≥ 0 then .ok (frac (ratPowNat q y.toNat))
    else if q = 0 then .error .divZero else .ok (frac (ratPowNat (1 / q) (-y).toNat))
  | flt _, _ | _, flt _ | _, frac _ => do
    -- float power (a Fraction exponent reaching here is non-integral: values are simplified)
    let x ← a.toFloat; let y ← b.toFloat
    if x == 0 && y < 0 then .error .divZero else fin (x.pow y)

/-- A binary arithmetic operator as Ka's `dispatch` runs it on two numbers:
    the registered implementation for the kind pair, then `simplify_type`. -/
def binop (op : BinOp) (a b : Num) : Except Err Num := do
  let r ← match op with
    | .add | .sub | .mul => pyLin op a b
    | .div => (match a, b with
        | int x, int y => fractionDivide x y
        | _, _ => pyTrueDiv a b)
    | .mod => pyMod a b
    | .pow => pyPow a b
  simplify r

inductive UnOp where
  | pos | neg | abs | floor | ceil | round | toInt | toFloat
deriving DecidableEq, Repr, Inhabited

/-- Python's `round(x)` for a rational: nearest integer, ties to even. -/
def roundHalfEven (q : Rat) : Int :=
  let f := q.floor
  let d := q - (f : Rat)
  if d < 1/2 then f
  else if d > 1/2 then f + 1
  else if f % 2 = 0 then f else f + 1

def unop (op : UnOp) (a : Num) : Except Err Num := do
  let r ← match op, a with
    | .pos, x => .ok x
    | .neg, int n => .ok (int (-n))
    | .neg, frac q => .ok (frac (-q))
    | .neg, flt x => .ok (flt (-x))
    | .abs, int n => .ok (int (if n < 0 then -n else n))
    | .abs, frac q => .ok (frac (if q < 0 then -q else q))
    | .abs, flt x => .ok (flt x.abs)
    | .floor, int n => .ok (int n)
    | .floor, frac q => .ok (int q.floor)
    | .floor, flt x => if x.isFinite then .ok (int (floatToRat x).floor) else .error .overflow
    | .ceil, int n => .ok (int n)
    | .ceil, frac q => .ok (int q.ceil)
    | .ceil, flt x => if x.isFinite then .ok (int (floatToRat x).ceil) else .error .overflow
    | .round, int n => .ok (int n)
    | .round, frac q => .ok (int (roundHalfEven q))
    | .round, flt x => if x.isFinite then .ok (int (roundHalfEven (floatToRat x))) else .error .overflow
    | .toInt, x => do let t ← pyInt x; .ok (int t)
    | .toFloat, x => do let f ← x.toFloat; .ok (flt f)
  simplify r

/-- canonical text for the line protocol: `i:<n>`, `q:<n>/<d>`, `f:<bits>` -/
def render : Num → String
  | int n => s!"i:{n}"
  | frac q => s!"q:{q.num}/{q.den}"
  | flt x => s!"f:{x.toBits.toNat}"

end Num
end KaVerif
