import KaVerif.Model.Token
import KaVerif.Gen.Tokens
/-
  The lexer of Ka: src/ka/tokens.py, function by function.

  Strings are `List Char` (Python indexes `str` by code point, so do we).  Every Python function
  that takes `(i, s)` is modelled with the same two arguments and reaches into `s` only through
  `s[i]?`, `s.drop i` and `s.length`, exactly where the Python uses `s[i]`, `regex.match(s, i)` /
  `s.startswith(t, i)` and `len(s)`.  The regular expressions are hand-written readers on the suffix
  (`Gen/Tokens` carries the pattern sources; the translator fails when they change).

  Alphabet of the model: printable ASCII, the six ASCII whitespace characters and `€ £ ¥ ± μ`.
  On that alphabet `isSpace`/`isNumeric`/`isAlpha` below are Python's `str.isspace`/`isnumeric`/
  `isalpha` (corresponded character by character); outside it they are not (e.g. `'\x1c'.isspace()`,
  `'²'.isnumeric()`), which is why the harness sends only in-alphabet strings to the model.

  Import-free and executable.
-/
namespace KaVerif.Lexer
open KaVerif

/-- the four lexical exception classes, each with the `index` it carries; `outOfFuel` is the model's
    "the Python loop would not terminate" outcome (proved unreachable: `tokenise_fuel`). -/
inductive LexErr where
  | unknownToken (i : Nat)
  | badNumber (i : Nat)
  | unclosedString (i : Nat)
  | unclosedInstant (i : Nat)
  | outOfFuel
deriving DecidableEq, Repr, Inhabited

/-! ### character classes (explicit for the model alphabet) -/

/-- `str.isspace` on the alphabet: space, \t, \n, \v, \f, \r -/
def isSpace (c : Char) : Bool :=
  c == ' ' || c == '\t' || c == '\n' || c == '\x0b' || c == '\x0c' || c == '\r'

/-- `[0-9]` -/
def isDigit (c : Char) : Bool := 48 ≤ c.toNat && c.toNat ≤ 57

/-- `str.isnumeric` on the alphabet -/
def isNumeric (c : Char) : Bool := isDigit c

def isLetter (c : Char) : Bool := (97 ≤ c.toNat && c.toNat ≤ 122) || (65 ≤ c.toNat && c.toNat ≤ 90)

/-- `str.isalpha` on the alphabet: ASCII letters and `μ` (U+03BC) -/
def isAlpha (c : Char) : Bool := isLetter c || c == 'μ'

/-- `[0-9a-fA-F]` -/
def isHex (c : Char) : Bool :=
  isDigit c || (97 ≤ c.toNat && c.toNat ≤ 102) || (65 ≤ c.toNat && c.toNat ≤ 70)

/-- `[a-zA-Zμ€$£¥]` -/
def isVarStart (c : Char) : Bool := isLetter c || c == 'μ' || c == '€' || c == '$' || c == '£' || c == '¥'

/-- `[_a-zA-Z0-9μ€$£¥]` -/
def isVarChar (c : Char) : Bool := isVarStart c || c == '_' || isDigit c

/-- the alphabet on which the model claims to be the code -/
def inAlphabet (c : Char) : Bool :=
  (32 ≤ c.toNat && c.toNat ≤ 126) || isSpace c
    || c == '€' || c == '£' || c == '¥' || c == '±' || c == 'μ'

/-- value of a digit character as `int(…, base)` reads it -/
def digitVal (c : Char) : Nat :=
  if isDigit c then c.toNat - 48
  else if 97 ≤ c.toNat then c.toNat - 87
  else c.toNat - 55

/-- `int(ds, base)` for a string of valid digits: most significant digit first -/
def digitsVal (base : Nat) (ds : List Char) : Nat :=
  ds.foldl (fun acc c => acc * base + digitVal c) 0

/-! ### skip_whitespace -/

/-- `skip_whitespace(i, s)` -/
def skipWs (i : Nat) (s : List Char) : Nat := i + ((s.drop i).takeWhile isSpace).length

/-! ### read_string / read_instant -/

/-- the `while` loop of `read_string` on the text after the opening quote: offset of the closing
    quote, skipping `\"` pairs; `none` when the loop runs off the end. -/
def scanString : List Char → Option Nat
  | [] => none
  | '\\' :: '"' :: r => (scanString r).map (· + 2)
  | '"' :: _ => some 0
  | _ :: r => (scanString r).map (· + 1)

/-- the loop of `read_instant`: offset of the first `#` -/
def scanInstant : List Char → Option Nat
  | [] => none
  | c :: r => if c == '#' then some 0 else (scanInstant r).map (· + 1)

/-- `read_string(i, s)` -/
def readString (i : Nat) (s : List Char) : Except LexErr (Option Token) :=
  let body := s.drop (i + 1)
  match scanString body with
  | some k => .ok (some ⟨.str, i, i + 1 + k + 1, .text (String.ofList (body.take k))⟩)
  | none => .error (.unclosedString i)

/-- `read_instant(i, s)` -/
def readInstant (i : Nat) (s : List Char) : Except LexErr (Option Token) :=
  let body := s.drop (i + 1)
  match scanInstant body with
  | some k => .ok (some ⟨.inst, i, i + 1 + k + 1, .text (String.ofList (body.take k))⟩)
  | none => .error (.unclosedInstant i)

/-! ### read_num_token -/

/-- `BASED_INT_REGEX = 0(x|o|b|d)([0-9a-fA-F]+)` on the suffix: the base letter and group 2 -/
def matchBased : List Char → Option (Char × List Char)
  | '0' :: m :: r =>
    if m == 'x' || m == 'o' || m == 'b' || m == 'd' then
      let hs := r.takeWhile isHex
      if hs.isEmpty then none else some (m, hs)
    else none
  | _ => none

def baseOf (m : Char) : Nat :=
  if m == 'b' then 2 else if m == 'o' then 8 else if m == 'x' then 16 else 10

/-- Python's `int(text, base=2)` accepts a base prefix of its own (`int("0b1", 2) == 1`); group 2 can carry
    one because `b`/`B` are hexadecimal digit characters.  (`0x`/`0o` cannot occur inside group 2, and `0d` is
    no Python prefix.) -/
def stripBinPrefix : List Char → List Char
  | '0' :: p :: rest => if p == 'b' || p == 'B' then rest else '0' :: p :: rest
  | hs => hs

/-- `int(group2, base)`; `none` = ValueError (no digit left, or a digit not below the base).
    `Gen.Tokens.intAcceptsBinPrefix` records (probed by the translator) whether the code still lets `int()`
    swallow a second binary prefix. -/
def basedValue (m : Char) (hs : List Char) : Option Nat :=
  let ds := if m == 'b' && Gen.Tokens.intAcceptsBinPrefix then stripBinPrefix hs else hs
  if !ds.isEmpty && ds.all (fun c => digitVal c < baseOf m) then some (digitsVal (baseOf m) ds) else none

/-- what `NUM_REGEX` matched: group 1 = `ip`, an optional `.`, `fp`; group 4 = `e`, optional sign, digits -/
structure NumMatch where
  ip : List Char
  dot : Bool
  fp : List Char
  exp : Option (Option Char × List Char)
deriving Inhabited

/-- `r` with a leading `c` removed; `none` when `r` does not start with `c` -/
def afterChar (c : Char) : List Char → Option (List Char)
  | d :: r => if d == c then some r else none
  | [] => none

/-- `[\-+]` at the head: the sign and the text after it -/
def signTail : List Char → Option (Char × List Char)
  | c :: r => if c == '-' || c == '+' then some (c, r) else none
  | [] => none

/-- first alternative `[0-9]+\.?[0-9]*` (greedy; never needs to give anything back because
    whatever follows in the pattern is optional) -/
def matchAlt1 (r : List Char) : Option (List Char × Bool × List Char) :=
  let ds := r.takeWhile isDigit
  if ds.isEmpty then none else
  match afterChar '.' (r.dropWhile isDigit) with
  | some r2 => some (ds, true, r2.takeWhile isDigit)
  | none => some (ds, false, [])

/-- second alternative `[0-9]*\.?[0-9]+`, tried only after the first failed: greedy digits, the
    optional point, at least one digit; when no digit follows the point the regex engine backtracks
    (`\.?` matches empty and `[0-9]*` gives its last digit to `[0-9]+`), matching the digits only. -/
def matchAlt2 (r : List Char) : Option (List Char × Bool × List Char) :=
  let ds := r.takeWhile isDigit
  let back := if ds.isEmpty then none else some (ds, false, [])
  match afterChar '.' (r.dropWhile isDigit) with
  | some r2 =>
    let fs := r2.takeWhile isDigit
    if fs.isEmpty then back else some (ds, true, fs)
  | none => back

/-- group 4 `(e[\-+]?[0-9]+)?` at the suffix after group 1: `none` = the optional group matched empty.
    (With a sign present but no digit after it the engine retries without the sign and fails on the
    sign character, so the group is empty.) -/
def matchExp (r : List Char) : Option (Option Char × List Char) :=
  match afterChar 'e' r with
  | none => none
  | some r1 =>
    match signTail r1 with
    | some (c, r2) =>
      let ds := r2.takeWhile isDigit
      if ds.isEmpty then none else some (some c, ds)
    | none =>
      let ds := r1.takeWhile isDigit
      if ds.isEmpty then none else some (none, ds)

def mantLen (m : List Char × Bool × List Char) : Nat :=
  m.1.length + (if m.2.1 then 1 else 0) + m.2.2.length

def expLen : Option (Option Char × List Char) → Nat
  | none => 0
  | some (none, ds) => 1 + ds.length
  | some (some _, ds) => 2 + ds.length

/-- group 1 `(alt1|alt2)`: the first alternative, and only when it fails the second -/
def matchMant (r : List Char) : Option (List Char × Bool × List Char) :=
  (matchAlt1 r).orElse (fun _ => matchAlt2 r)

/-- `NUM_REGEX.match` on the suffix -/
def numRegex (r : List Char) : Option NumMatch :=
  match matchMant r with
  | none => none
  | some m => some ⟨m.1, m.2.1, m.2.2, matchExp (r.drop (mantLen m))⟩

/-- length of `m.group(0)` -/
def NumMatch.len (m : NumMatch) : Nat := mantLen (m.ip, m.dot, m.fp) + expLen m.exp

/-- `float(raw_value)` for `raw_value = ip . fp`: the correctly rounded double of the exact decimal -/
def decimalToFloat (ip fp : List Char) : Float :=
  Num.ratToFloat ((digitsVal 10 (ip ++ fp) : Rat) / ((10 ^ fp.length : Nat) : Rat))

/-- `int(m.group(4)[1:])` -/
def expValue (sg : Option Char) (ds : List Char) : Int :=
  if sg == some '-' then -((digitsVal 10 ds : Nat) : Int) else ((digitsVal 10 ds : Nat) : Int)

/-- exact value of the spelling `ip . fp e ex` -/
def sciRat (ip fp : List Char) (ex : Int) : Rat :=
  let mant : Rat := (digitsVal 10 (ip ++ fp) : Rat) / ((10 ^ fp.length : Nat) : Rat)
  if ex < 0 then mant / ((10 ^ (-ex).toNat : Nat) : Rat) else mant * ((10 ^ ex.toNat : Nat) : Rat)

/-- `float(m.group(0))` for a decimal mantissa with an exponent: the whole literal, rounded once
    (`inf` beyond the double range) -/
def sciToFloat (ip fp : List Char) (ex : Int) : Float := Num.ratToFloat (sciRat ip fp ex)

/-- integer mantissa: `value *= frac(1, 10**-exponent)` (an unreduced-kind Fraction) / `value *= 10**exponent`.
    Neither can raise OverflowError, the `except` clause is dead for them. -/
def scaleInt (n : Int) (ex : Int) : Num :=
  if ex < 0 then .frac ((n : Rat) / ((10 ^ (-ex).toNat : Nat) : Rat))
  else .int (n * ((10 ^ ex.toNat : Nat) : Int))

/-- the value of a match outside the `1..5` special case: `int(raw_value)` or `float(raw_value)`; with an
    exponent, a decimal mantissa is re-read as a whole by `float()` (`inf` → BadNumberError = `none`) and an
    integer mantissa is scaled exactly. -/
def numValue (m : NumMatch) : Option Num :=
  match m.exp with
  | none =>
    if !m.dot then some (.int ((digitsVal 10 m.ip : Nat) : Int))
    else
      -- fix ebd1144: `float(raw_value)` beyond the double range (more than 308 digits before the point) is a BadNumberError
      let x := decimalToFloat m.ip m.fp
      if x.isInf then none else some (.flt x)
  | some (sg, ds) =>
    if m.dot then
      let x := sciToFloat m.ip m.fp (expValue sg ds)
      if x.isInf then none else some (.flt x)
    else some (scaleInt ((digitsVal 10 m.ip : Nat) : Int) (expValue sg ds))

/-- the `1..5` test: `m.group(0)[-1] == "." and m.end() < len(s) and s[m.end()] == "."`
    (group 0 ends with the point exactly when there is no exponent and no digit after the point) -/
def rangeCase (m : NumMatch) (next : Option Char) : Bool :=
  m.exp.isNone && m.dot && m.fp.isEmpty && next == some '.'

/-- `read_num_token(i, s)` -/
def readNumToken (i : Nat) (s : List Char) : Except LexErr (Option Token) :=
  let r := s.drop i
  match matchBased r with
  | some (m, hs) =>
    match basedValue m hs with
    | some v => .ok (some ⟨.num, i, i + (2 + hs.length), .num (.int (v : Int))⟩)
    | none => .error (.badNumber i)
  | none =>
    match numRegex r with
    | none => .error (.badNumber i)
    | some m =>
      if rangeCase m s[i + m.len]? then
        .ok (some ⟨.num, i, i + m.len - 1, .num (.int ((digitsVal 10 m.ip : Nat) : Int))⟩)
      else
        match numValue m with
        | some v => .ok (some ⟨.num, i, i + m.len, .num v⟩)
        | none => .error (.badNumber i)

/-! ### constant tokens and identifiers -/

/-- `s[j].isalpha()` guarded by `j < len(s)`; `false` past the end -/
def alphaAt (s : List Char) (j : Nat) : Bool :=
  match s[j]? with
  | some c => isAlpha c
  | none => false

/-- the acceptance test of one table entry `t` at `i` -/
def constAccepts (alpha : List String) (i : Nat) (s : List Char) (t : String) : Bool :=
  t.toList.isPrefixOf (s.drop i) && (!(alpha.contains t) || !(alphaAt s (i + t.toList.length)))

/-- the `for t in CONST_TOKENS` loop: first accepted entry -/
def scanConst (alpha : List String) (i : Nat) (s : List Char) : List String → Option Token
  | [] => none
  | t :: ts =>
    if constAccepts alpha i s t then some ⟨.const t, i, i + t.toList.length, .none⟩
    else scanConst alpha i s ts

/-- `VAR_REGEX.match` on the suffix: the matched text -/
def matchVar : List Char → Option (List Char)
  | c :: r => if isVarStart c then some (c :: r.takeWhile isVarChar) else none
  | [] => none

/-- `j < len(s) and s[j].isnumeric()` -/
def numericAt (s : List Char) (j : Nat) : Bool :=
  match s[j]? with
  | some c => isNumeric c
  | none => false

/-- `read_token(i, s)`; `.ok none` = Python's `None` (no token starts here).  Called by `tokenise`
    with `i < len(s)` only (`s[i]` would raise IndexError otherwise; the model answers `none`). -/
def readToken (i : Nat) (s : List Char) : Except LexErr (Option Token) :=
  match s[i]? with
  | none => .ok none
  | some c =>
    if c == '"' then readString i s
    else if c == '#' then readInstant i s
    else if isNumeric c || (c == '.' && numericAt s (i + 1)) then
      readNumToken i s
    else
      match scanConst Gen.Tokens.alphaTokens i s Gen.Tokens.constTokens with
      | some t => .ok (some t)
      | none =>
        match matchVar (s.drop i) with
        | some name => .ok (some ⟨.var, i, i + name.length, .name (String.ofList name)⟩)
        | none => .ok none

/-! ### tokenise -/

/-- the `while i < len(s)` loop; `fuel` bounds the number of iterations -/
def tokLoop : Nat → Nat → List Char → Except LexErr (List Token)
  | fuel, i, s =>
    if i < s.length then
      match fuel with
      | 0 => .error .outOfFuel
      | fuel + 1 =>
        match readToken i s with
        | .error e => .error e
        | .ok none => .error (.unknownToken i)
        | .ok (some t) =>
          match tokLoop fuel (skipWs t.e s) s with
          | .error e => .error e
          | .ok ts => .ok (t :: ts)
    else .ok []

/-- `tokenise(s)`.  Every token consumes at least one character, so `len(s)` iterations suffice. -/
def tokenise (s : List Char) : Except LexErr (List Token) :=
  tokLoop s.length (skipWs 0 s) s

end KaVerif.Lexer
