import KaVerif.Model.Eval
/-
  PyRt — the PYTHON RUNTIME of the translated function bodies (`Gen/Bodies.lean`, written by
  `translate/gen_bodies.py` from the `ast` of `src/ka/functions.py`).

  The translator is a SHALLOW embedding: a Python function becomes a Lean `def` over `Eval.Val` in the
  error monad `Eval.R`, one `let … ← …` per Python sub-expression that can raise, in CPython's evaluation
  order (operands left to right, call arguments left to right, `and` / conditional expressions
  short-circuit).  What the emitted code needs from Python itself is in this file: a handful of
  functions of a few lines each, every one with the CPython behaviour it stands for.  This file and the
  translator are the trusted "Python semantics" surface of the `Props/Bodies` theorems; nothing here
  knows anything about Ka's functions.

  Static sorts the translator assigns to Python expressions:
    V  `Val`        a Ka value held in a Python variable (int / Fraction / float / Interval / Array / …)
    L  `List Val`   a Python tuple or list of such values (`(x, y)`, `[a, b]`, `arr.contents`, `*args`)
    B  `Bool`       a Python bool produced by `not`, `and`, `==` on lengths, `is_true`
    N  `Int`        a Python int produced by `len`, an integer literal or index arithmetic
    Q  `List Int`   a `QuantityVector` (`q.qv`)
  A value of sort N used where a Ka value is expected is the Python int itself (`pyInt`).

  STRICTNESS.  `Val.intv` holds two numbers, and the registered bodies only ever test the truth of, and
  do arithmetic on, results of `dispatch` that are numbers.  Where CPython would happily go on with
  another object (`bool(Interval(…))` is True, `Interval(a, b)` stores anything), the runtime answers
  `Eval.bad` — the same "outside the modelled shapes" answer the hand-written bodies give — instead of
  inventing a semantics; the harness skips such runs (`unmodelled`).

  No Mathlib.  Written to tolerate new `Val` constructors (wildcard matches only).
-/
namespace KaVerif.PyRt
open KaVerif Num Eval

/-- a host exception the code does not convert (AttributeError, TypeError, IndexError, ValueError) -/
def pyExn {α : Type} (cls : String) : R α := .error (.err (.py cls))

/-- `raise <KaError>(…)`: the class only; the message (an f-string) is not evaluated -/
def pyRaise {α : Type} (e : Err) : R α := .error (.err e)

/-- a Python int used as a Ka value -/
def pyInt (k : Int) : Val := .num (.int k)

/-- `math.e` -/
def mathE : Val := .num (.flt Elementary.eFloat)

/-- attribute reads `intr.a`, `intr.b` (Interval), `q.mag` (Quantity); any other object / attribute:
    `AttributeError` -/
def pyAttr (v : Val) (attr : String) : R Val :=
  match v, attr with
  | .intv a _, "a" => .ok (.num a)
  | .intv _ b, "b" => .ok (.num b)
  | .qty m _, "mag" => .ok (.num m)
  | _, _ => pyExn "AttributeError"

/-- `arr.contents` -/
def pyContents : Val → R (List Val)
  | .arr xs => .ok xs
  | _ => pyExn "AttributeError"

/-- `q.qv` -/
def pyQv : Val → R (List Int)
  | .qty _ d => .ok d
  | _ => pyExn "AttributeError"

/-- iteration over a Ka Array object (`for e in arr`: the sequence protocol over `__getitem__` /
    `IndexError`, i.e. the elements of `arr.contents` in order); other objects: `TypeError` -/
def pyIter : Val → R (List Val)
  | .arr xs => .ok xs
  | _ => pyExn "TypeError"

/-- truth value of a Python number: `x != 0` (`if dispatch("<", …):`, `not …`, `… and …`).
    Truth of any other object is outside the runtime (see STRICTNESS). -/
def pyTruthy : Val → R Bool
  | .num x => .ok (truthy x)
  | _ => bad

/-- `x == y` / `x != y` on two Python numbers (exact across int / Fraction / float) -/
def pyEq : Val → Val → R Bool
  | .num x, .num y => .ok (cmpEq x y)
  | _, _ => bad

def pyNe (x y : Val) : R Bool := do
  let b ← pyEq x y
  .ok (!b)

/-- `x + y`, `x - y`, `x * y` on two Python numbers (`operator.add/sub/mul`, before any simplification) -/
def pyArith (op : BinOp) : Val → Val → R Val
  | .num x, .num y => liftE (pyLin op x y) |>.map .num
  | _, _ => bad

def pyAdd : Val → Val → R Val := pyArith .add
def pySub : Val → Val → R Val := pyArith .sub
def pyMul : Val → Val → R Val := pyArith .mul

/-- `x ** y` on two Python numbers.  For a negative base with a non-integral exponent CPython returns a complex number; that
    is outside the model and reported as the runtime error (`Num.pyPow`) — unreachable behind `strict_pow`'s guard. -/
def pyPowOp : Val → Val → R Val
  | .num x, .num y => liftE (pyPow x y) |>.map .num
  | _, _ => bad

/-- `math.sqrt(x)`: `ValueError` ("math domain error") for a negative number, else the square root of `float(x)` -/
def mathSqrt : Val → R Val
  | .num x => if cmpLt x (.int 0) then pyExn "ValueError" else liftE (do let f ← x.toFloat; fin (Float.sqrt f)) |>.map .num
  | _ => bad

/-- `loghelper(x)` of CPython's `math.log`: `ValueError` ("math domain error") for a non-positive number and for a positive
    Fraction so small that `float(x)` is 0.0; `OverflowError` when `float(x)` overflows (a huge Fraction); a huge int is
    handled through `frexp` (`Elementary.pyLog`) -/
def mathLogArg (x : Num) : Except Err Float :=
  if cmpLe x (.int 0) then .error (.py "ValueError") else
  match Elementary.pyLog x with
  | .error .runtime => .error (.py "ValueError")
  | r => r

/-- `math.log(x, base)` = `loghelper(x) / loghelper(base)`: the argument is examined first; a zero denominator
    (`float(base) == 1.0`) is `ZeroDivisionError` -/
def mathLog2 : Val → Val → R Val
  | .num x, .num b =>
    liftE (do
      let lx ← mathLogArg x
      let lb ← mathLogArg b
      if lb == 0 then .error .divZero else fin (lx / lb)) |>.map .num
  | _, _ => bad

/-- `try: <body> except <cls>: <handler>` for a host exception class the body can raise (`ValueError`); Ka's own error
    classes and the other host exceptions are not subclasses of it and pass through -/
def pyTry {α : Type} (body : R α) (cls : String) (handler : R α) : R α :=
  match body with
  | .error (.err (.py c)) => if c == cls then handler else body
  | r => r

/-- the comparison builtins `operator.lt / le / eq / ne / gt / ge` on two Python numbers (exact across kinds); the result
    is a Python bool -/
def pyOperatorCmp (name : String) (_rec : Disp) : Val → Val → R Bool
  | .num x, .num y => .ok (cmpByName name x y)
  | _, _ => bad

/-- the one-argument builtins Ka registers directly (`abs`, `round`, `int`, `float`, `math.floor`, `math.ceil`, `math.sin`,
    `math.cos`, `math.tan`, `operator.pos`, `operator.neg`) on a Python number, as modelled in `Model/Num.lean` /
    `Model/Elementary.lean` -/
def pyBuiltin1 (f : Elementary.Fn) (_rec : Disp) : Val → R Val
  | .num x => liftE (Elementary.body f x) |>.map .num
  | _ => bad

/-- `Interval(a, b)`: stores its two arguments; the model's Interval holds numbers -/
def mkInterval : Val → Val → R Val
  | .num a, .num b => .ok (.intv a b)
  | _, _ => bad

/-- `Quantity(mag, qv)` -/
def mkQuantity : Val → List Int → R Val
  | .num m, d => .ok (.qty m d)
  | _, _ => bad

/-- `QuantityVector.__mul__` (`self.v + other.v`) and `__truediv__` (`self * QuantityVector(-other.v)`): exponent vectors
    added / subtracted pointwise -/
def qvMul (a b : List Int) : List Int := Qty.Dim.add a b
def qvDiv (a b : List Int) : List Int := Qty.Dim.sub a b

/-- `len(xs)` of a tuple / list -/
def pyLen (xs : List Val) : Int := xs.length

/-- `xs[i]` on a tuple / list: negative indices count from the end, out of range is `IndexError` -/
def pyIndex (xs : List Val) (i : Int) : R Val :=
  let j : Int := if i < 0 then i + xs.length else i
  if j < 0 then pyExn "IndexError" else
  match xs[j.toNat]? with
  | some v => .ok v
  | Option.none => pyExn "IndexError"

/-- `range(lo, hi)` -/
def pyRange (lo hi : Int) : List Int := (List.range (hi - lo).toNat).map (fun (k : Nat) => lo + Int.ofNat k)

/-- `tuple(f(x) for x in xs)` / `[f(x) for x in xs]`: elements in order, the first raising call aborts -/
def pyMapM {α : Type} (f : α → R Val) : List α → R (List Val)
  | [] => .ok []
  | x :: xs => do
    let y ← f x
    let ys ← pyMapM f xs
    .ok (y :: ys)

/-- `any(p(x) for x in xs)`: stops at the first true element -/
def pyAnyM {α : Type} (p : α → R Bool) : List α → R Bool
  | [] => .ok false
  | x :: xs => do
    if ← p x then pure true else pyAnyM p xs

/-- `for x in xs: <body>` with the loop-carried variables as the state -/
def pyForM {σ α : Type} (xs : List α) (init : σ) (body : σ → α → R σ) : R σ :=
  xs.foldlM body init

/-- `while c: <body>` with the loop-carried variables as the state.  Python's loop need not terminate; the model runs at
    most `fuel` iterations and then answers with the model-bound error `.fuel` (never a value). -/
def pyWhile {σ : Type} : Nat → σ → (σ → R Bool) → (σ → R σ) → R σ
  | 0, _, _, _ => .error .fuel
  | f + 1, st, cond, body => do
    if ← cond st then do
      let st' ← body st
      pyWhile f st' cond body
    else pure st

/-- the loop bound the table entries of translated bodies with a `while` are instantiated with.  (`xs.append(x)` is
    translated as `xs ++ [x]`, quadratic in the driver, so the bound is far below `Eval.maxRange`; a longer loop makes the
    driver answer `unmodelled`, and the harness skips the case.) -/
def pyLoopFuel : Nat := 20000

/-- builtin `max(xs)` on a tuple of numbers: the first maximal element; empty: `ValueError` -/
def pyMaxOf (xs : List Val) : R Val :=
  match nums? xs with
  | some [] => pyExn "ValueError"
  | some ns => liftE (pyMax ns) |>.map .num
  | Option.none => bad

/-- builtin `min(xs)` on a tuple of numbers: the first minimal element; empty: `ValueError` -/
def pyMinOf (xs : List Val) : R Val :=
  match nums? xs with
  | some [] => pyExn "ValueError"
  | some ns => liftE (pyMin ns) |>.map .num
  | Option.none => bad

/-- `list(range(lo, hi))` as Ka values -/
def pyRangeVals (lo hi : Val) : R (List Val) :=
  match lo, hi with
  | .num (.int a), .num (.int b) => .ok ((pyRange a b).map pyInt)
  | _, _ => bad

/-! ### shapes of the arguments a registered signature admits (after `coerce_args`) -/

inductive Shape where
  | num      -- Number (a lazy combinatoric has been resolved by `coerce_to`)
  | int      -- Integral
  | intv     -- Interval
  | arr      -- Array
  | qty      -- Quantity
  | any      -- Any
deriving DecidableEq, Repr

def Shape.holds : Shape → Val → Bool
  | .num, .num _ => true
  | .int, .num (.int _) => true
  | .intv, .intv _ _ => true
  | .arr, .arr _ => true
  | .qty, .qty _ _ => true
  | .any, _ => true
  | _, _ => false

/-- the argument lists a signature `(pos…, *vararg)` admits -/
def wellTyped : List Shape → Option Shape → List Val → Bool
  | [], Option.none, [] => true
  | [], some s, args => args.all s.holds
  | s :: ss, va, a :: as => s.holds a && wellTyped ss va as
  | _, _, _ => false

/-- a translated body as a table entry: the generated definitions are curried; this is the call
    `f(*args)` (a wrong number of arguments is Python's `TypeError`) -/
def arity1 (f : Disp → Val → R Val) : Body := fun rec args =>
  match args with
  | [x] => f rec x
  | _ => pyExn "TypeError"

def arity2 (f : Disp → Val → Val → R Val) : Body := fun rec args =>
  match args with
  | [x, y] => f rec x y
  | _ => pyExn "TypeError"

def arity3 (f : Disp → Val → Val → Val → R Val) : Body := fun rec args =>
  match args with
  | [x, y, z] => f rec x y z
  | _ => pyExn "TypeError"

end KaVerif.PyRt
