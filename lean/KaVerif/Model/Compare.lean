import KaVerif.Model.Num
/-
  C09 — comparisons as Ka evaluates them.
  Anchors: functions.py BINARY_OPS (`intify(operator.lt)` … on (Number, Number)),
  register_quantities_op for the six comparison names (dimension check, then dispatch on the
  base-unit magnitudes, number lifted to the zero vector on either side),
  the intify-wrapped instant comparisons (types.py instant_lt …), and the parser's
  make_comparison_node, which rewrites `a > b` / `a >= b` into `b < a` / `b <= a`.
  Lazy combinatorics reach these overloads already resolved (coerce_to, C05).
-/
namespace KaVerif.Compare

inductive CmpOp where
  | lt | le | eq | ne | gt | ge
deriving DecidableEq, Repr, Inhabited

/-- the comparable value kinds -/
inductive CVal where
  | num (n : Num)
  | qty (mag : Num) (dim : List Int)      -- base-unit magnitude and dimension vector
  | inst (days : Int) (us : Nat)          -- naive instant: day number and microsecond of day
deriving Inhabited

def b2n (b : Bool) : Num := .int (if b then 1 else 0)

/-- `intify(operator.xx)` on two Python numbers: exact comparison across kinds -/
def cmpNum (op : CmpOp) (a b : Num) : Num :=
  match op with
  | .lt => b2n (Num.cmpLt a b)
  | .le => b2n (Num.cmpLe a b)
  | .eq => b2n (Num.cmpEq a b)
  | .ne => b2n (!(Num.cmpEq a b))
  | .gt => b2n (Num.cmpLt b a)
  | .ge => b2n (Num.cmpLe b a)

def instKey (d : Int) (us : Nat) : Int := d * 86400000000 + (us : Int)

/-- dispatch of a *forward* operator name (`<`, `<=`, `==`, `!=`) — and of `>`/`>=` when
    called directly — on two comparable values -/
def dispatchCmp (op : CmpOp) (a b : CVal) : Except Err Num :=
  match a, b with
  | .num x, .num y => .ok (cmpNum op x y)
  | .qty x dx, .qty y dy => if dx = dy then .ok (cmpNum op x y) else .error .incompatible
  | .num x, .qty y dy => if dy.all (· == 0) then .ok (cmpNum op x y) else .error .incompatible
  | .qty x dx, .num y => if dx.all (· == 0) then .ok (cmpNum op x y) else .error .incompatible
  | .inst d1 u1, .inst d2 u2 => .ok (cmpNum op (.int (instKey d1 u1)) (.int (instKey d2 u2)))
  | _, _ =>
    -- mixed kinds: `==`/`!=` fall to the (Any, Any) catch-alls, the order operators have no overload
    match op with
    | .eq => .ok (.int 0)
    | .ne => .ok (.int 1)
    | _ => .error .noMatch

/-- a comparison as written in Ka text: the parser flips `>`/`>=` and reverses the operands -/
def evalCmp (op : CmpOp) (a b : CVal) : Except Err Num :=
  match op with
  | .gt => dispatchCmp .lt b a
  | .ge => dispatchCmp .le b a
  | o => dispatchCmp o a b

/-- two values are comparable: numbers, quantities of one dimension, a dimensionless quantity
    and a number, two instants -/
def comparable (a b : CVal) : Bool :=
  match a, b with
  | .num _, .num _ => true
  | .qty _ dx, .qty _ dy => dx = dy
  | .num _, .qty _ dy => dy.all (· == 0)
  | .qty _ dx, .num _ => dx.all (· == 0)
  | .inst _ u1, .inst _ u2 => u1 < 86400000000 && u2 < 86400000000
  | _, _ => false

/-- the value a comparable operand is ordered by -/
def key : CVal → Rat
  | .num x => x.toRat
  | .qty x _ => x.toRat
  | .inst d u => (instKey d u : Rat)

end KaVerif.Compare
