import KaVerif.Model.Num
import KaVerif.Model.Arith
/-
  Lazy combinatorics of Ka, line by line.  No Mathlib.

  Anchors (current tree, i.e. after the fix commits fd86877, 1cd1dd8, a333b4e, 1e14bb5):
    src/ka/types.py      IntRange (87-128), Combinatoric.mul (138-159), Combinatoric.resolve (161-190)
    src/ka/utils.py      lazy_choose (32-39), lazy_factorial (49-52)
    src/ka/functions.py  resolve_combinatoric / coerce_to (230-237), comb_* overloads + get_ratio (273-297)
    src/ka/interpret.py  reduce_result (346-351);  src/ka/eval.py resolve_lazy (106-109)

  Representation notes (each is exercised by the correspondence streams of Driver/Comb.lean):
  * Python's `ds` work list in `mul` and `denom_ranges` in `resolve` are used as stacks whose top is
    the END of the list (`ds.pop()`, `ds.extend(..)`, `denom_ranges[-1]`).  The loops below keep
    them REVERSED (`stk`, head = top); `mul`/`resolve` reverse on entry, and `extend(rd)` is
    `rd.reverse ++ stk`.
  * The memo `if self.value: return self.value` of `resolve` is not modelled: `value` is only ever
    assigned the result of this very computation, and `ns`/`ds` of an existing Combinatoric are
    never mutated (`mul` builds new lists with `+`, `resolve` copies every range), so a memo hit
    returns what recomputation returns.  (Value 0 is falsy and is recomputed every time.)
-/
namespace KaVerif.Comb

structure IntRange where
  lo : Int
  hi : Int
deriving DecidableEq, Repr, Inhabited

namespace IntRange

/-- `is_empty`: `self.lo > self.hi` -/
def isEmpty (r : IntRange) : Bool := decide (r.lo > r.hi)

/-- `intersects`: `not (self.hi < other.lo or other.hi < self.lo)` -/
def intersects (a b : IntRange) : Bool := !(decide (a.hi < b.lo) || decide (b.hi < a.lo))

/-- the test `d.lo <= 0 <= d.hi` of `mul` -/
def hasZero (r : IntRange) : Bool := decide (r.lo ≤ 0) && decide (0 ≤ r.hi)

/-- `difference` (types.py:101-125), branches in the code's order; returns
    `(self_remain, other_remain)`. -/
def difference (a b : IntRange) : List IntRange × List IntRange :=
  if a.hi < b.lo ∨ b.hi < a.lo then ([a], [b])
  else if a.lo ≤ b.lo ∧ b.hi ≤ a.hi then
    ((if a.lo < b.lo then [⟨a.lo, b.lo - 1⟩] else []) ++ (if b.hi < a.hi then [⟨b.hi + 1, a.hi⟩] else []),
     [])
  else if b.lo ≤ a.lo ∧ a.hi ≤ b.hi then
    ([],
     (if b.lo < a.lo then [⟨b.lo, a.lo - 1⟩] else []) ++ (if a.hi < b.hi then [⟨a.hi + 1, b.hi⟩] else []))
  else if b.lo ≤ a.lo then
    -- other starts before self and ends inside it
    ([⟨b.hi + 1, a.hi⟩], [⟨b.lo, a.lo - 1⟩])
  else ([⟨a.lo, b.lo - 1⟩], [⟨a.hi + 1, b.hi⟩])

/-- number of integers in the range -/
def size (r : IntRange) : Nat := (r.hi + 1 - r.lo).toNat

/-- the `k` integers `lo, lo+1, …, lo+k-1` -/
def upFrom (lo : Int) (k : Nat) : List Int := (List.range k).map (fun (i : Nat) => lo + (i : Int))

/-- the integers of the range, ascending (meaning of a range) -/
def elems (r : IntRange) : List Int := upFrom r.lo r.size

/-- the product the range stands for -/
def prod (r : IntRange) : Int := (elems r).prod

end IntRange

/-- integers of a list of ranges / product of a list of ranges -/
def elemsL (l : List IntRange) : List Int := l.flatMap IntRange.elems
def prodL (l : List IntRange) : Int := (l.map IntRange.prod).prod

/-- `Combinatoric`: numerator ranges, denominator ranges. -/
structure Combinatoric where
  ns : List IntRange
  ds : List IntRange
deriving DecidableEq, Repr, Inhabited

namespace Combinatoric

/-- the number a Combinatoric stands for (only meaningful when no denominator range contains 0) -/
def val (c : Combinatoric) : Rat := (prodL c.ns : Rat) / (prodL c.ds : Rat)

/-- The inner `while i < len(ns)` of `mul`: the first `ns[i]` that intersects `d` is replaced by
    its remainder (`ns[:i] + remaining_n + ns[i+1:]`); returns the new `ns` and `remaining_d`,
    or `none` when nothing intersects (`intersected = False`). -/
def cancelFirst (d : IntRange) : List IntRange → Option (List IntRange × List IntRange)
  | [] => none
  | n :: rest =>
    if n.intersects d then
      let r := n.difference d
      some (r.1 ++ rest, r.2)
    else
      match cancelFirst d rest with
      | some (ns', rd) => some (n :: ns', rd)
      | none => none

/-- The outer `while ds:` of `mul` with explicit fuel; `stk` is `ds` reversed (head = `ds.pop()`).
    `none` = fuel exhausted. -/
def mulLoop : Nat → List IntRange → List IntRange → List IntRange → Option Combinatoric
  | _, ns, [], res => some ⟨ns, res⟩
  | 0, _, _ :: _, _ => none
  | fuel + 1, ns, d :: stk, res =>
    match cancelFirst d ns with
    | some (ns', rd) => mulLoop fuel ns' (rd.reverse ++ stk) res
    | none => mulLoop fuel ns stk (res ++ [d])

/-- the termination measure of the work list: each pending range counts `2·size + 1` -/
def measure (stk : List IntRange) : Nat := (stk.map (fun d => 2 * d.size + 1)).sum

/-- `Combinatoric.mul(new_ns, new_ds)` (types.py:138-159). -/
def mul (c : Combinatoric) (newNs newDs : List IntRange) : Except Err Combinatoric :=
  let ns := c.ns ++ newNs
  let ds := c.ds ++ newDs
  if ds.any IntRange.hasZero then .error .divZero     -- raise ZeroDivisionError
  else
    match mulLoop (measure ds + 1) ns ds.reverse [] with
    | some r => .ok r
    | none => .error .diverges

/-- One pass of the body of `while not numerator_range.is_empty()`: multiply by `h` (the current
    `hi`), then try to divide by the smallest number of the top denominator range.
    State = (`result`, `denom_ranges` reversed). -/
def resolveStep (h : Int) (st : Int × List IntRange) : Except Err (Int × List IntRange) :=
  let result := st.1 * h
  match st.2 with
  | [] => .ok (result, [])
  | d :: rest =>
    if d.lo = 0 then .error .divZero                 -- `result % 0`
    else if result % d.lo = 0 then                   -- Python's floored % and // agree with these when divisible
      let d' : IntRange := ⟨d.lo + 1, d.hi⟩
      .ok (result / d.lo, if d'.isEmpty then rest else d' :: rest)
    else .ok (result, d :: rest)

/-- the `while` over one numerator range: `k` numbers remain, the current `hi` is `lo + (k-1)` -/
def resolveRange (lo : Int) : Nat → Int × List IntRange → Except Err (Int × List IntRange)
  | 0, st => .ok st
  | k + 1, st =>
    match resolveStep (lo + (k : Int)) st with
    | .ok st' => resolveRange lo k st'
    | .error e => .error e

/-- `for numerator_range in self.ns` -/
def resolveNs : List IntRange → Int × List IntRange → Except Err (Int × List IntRange)
  | [], st => .ok st
  | n :: ns, st =>
    match resolveRange n.lo n.size st with
    | .ok st' => resolveNs ns st'
    | .error e => .error e

/-- `while not denom_range.is_empty(): denom *= denom_range.lo; denom_range.lo += 1` -/
def mulUp (acc lo : Int) : Nat → Int
  | 0 => acc
  | k + 1 => mulUp (acc * lo) (lo + 1) k

/-- `for denom_range in denom_ranges` -/
def denomLoop (acc : Int) : List IntRange → Int
  | [] => acc
  | r :: rs => denomLoop (mulUp acc r.lo r.size) rs

/-- `Combinatoric.resolve` (types.py:161-190) without the memo:
    `simplify_type(fraction_divide(result, denom))`. -/
def resolve (c : Combinatoric) : Except Err Num :=
  match resolveNs c.ns (1, c.ds.reverse) with
  | .error e => .error e
  | .ok (result, dstk) =>
    let denom := denomLoop 1 dstk.reverse
    match Num.fractionDivide result denom with
    | .ok v => Num.simplify v
    | .error e => .error e

end Combinatoric

/-- what `!`, `C`, `*`, `/` produce: a plain number or a lazy Combinatoric -/
inductive CVal where
  | num (v : Num)
  | comb (c : Combinatoric)
deriving Inhabited

/-- `lazy_factorial` (utils.py:49-52) -/
def lazyFactorial (n : Int) : CVal :=
  if n < 2 then .num (.int 1) else .comb ⟨[⟨2, n⟩], []⟩

/-- `lazy_choose` (utils.py:32-39) -/
def lazyChoose (n k : Int) : CVal :=
  if k > n ∨ n < 0 ∨ k < 0 then .num (.int 0)
  else .comb ⟨if n < 2 then [] else [⟨2, n⟩],
              ([⟨2, k⟩, ⟨2, n - k⟩] : List IntRange).filter (fun r => !r.isEmpty)⟩

/-- `get_ratio` on the exact kinds (`Rational` parameters are `int` or `Fraction`) -/
def getRatio : Num → Int × Int
  | .int n => (n, 1)
  | .frac q => (q.num, (q.den : Int))
  | .flt x => let q := Num.floatToRat x; (q.num, (q.den : Int))   -- float.as_integer_ratio (not reachable: not Rational)

/-- `comb_times_frac` -/
def combTimesFrac (c : Combinatoric) (f : Num) : Except Err Combinatoric :=
  let r := getRatio f
  c.mul (if r.1 = 1 then [] else [⟨r.1, r.1⟩]) (if r.2 = 1 then [] else [⟨r.2, r.2⟩])

/-- `comb_div_frac`: `comb_times_frac(c, Fraction(1)/f)`; `Fraction(1)/0` raises ZeroDivisionError -/
def combDivFrac (c : Combinatoric) (f : Num) : Except Err Combinatoric :=
  if f.toRat = 0 then .error .divZero else combTimesFrac c (.frac (1 / f.toRat))

def combTimesComb (c1 c2 : Combinatoric) : Except Err Combinatoric := c1.mul c2.ns c2.ds
def combDivComb (c1 c2 : Combinatoric) : Except Err Combinatoric := c1.mul c2.ds c2.ns
def fracTimesComb (f : Num) (c : Combinatoric) : Except Err Combinatoric := combTimesFrac c f
def fracDivComb (f : Num) (c : Combinatoric) : Except Err Combinatoric := combTimesFrac ⟨c.ds, c.ns⟩ f

/-- `coerce_to(x, Number)`: what a parameter declared `Number` receives -/
def coerceNumber : CVal → Except Err Num
  | .num v => .ok v
  | .comb c => c.resolve

/-- `reduce_result` / `resolve_lazy`: the value delivered at top level, in arrays, under a unit -/
def reduce : CVal → Except Err Num := coerceNumber

def liftComb : Except Err Combinatoric → Except Err CVal
  | .ok c => .ok (.comb c)     -- `simplify_type` leaves a Combinatoric alone
  | .error e => .error e

def liftNum : Except Err Num → Except Err CVal
  | .ok v => .ok (.num v)
  | .error e => .error e

def isRational : Num → Bool
  | .flt _ => false
  | _ => true

/-- `dispatch("*", (a, b))` on the kinds int / Fraction / float / Combinatoric: the most specific
    registered overload (see Props/C05Table.lean for the kernel-checked table), `coerce_args`,
    the body, `simplify_type`. -/
def applyMul (a b : CVal) : Except Err CVal :=
  match a, b with
  | .comb c1, .comb c2 => liftComb (combTimesComb c1 c2)
  | .comb c, .num f =>
    if isRational f then liftComb (combTimesFrac c f)
    else match c.resolve with            -- (Number, Number): coerce_to resolves the lazy operand
      | .ok x => liftNum (Num.binop .mul x f)
      | .error e => .error e
  | .num f, .comb c =>
    if isRational f then liftComb (fracTimesComb f c)
    else match c.resolve with
      | .ok y => liftNum (Num.binop .mul f y)
      | .error e => .error e
  | .num x, .num y => liftNum (Num.binop .mul x y)

def applyDiv (a b : CVal) : Except Err CVal :=
  match a, b with
  | .comb c1, .comb c2 => liftComb (combDivComb c1 c2)
  | .comb c, .num f =>
    if isRational f then liftComb (combDivFrac c f)
    else match c.resolve with
      | .ok x => liftNum (Num.binop .div x f)
      | .error e => .error e
  | .num f, .comb c =>
    if isRational f then liftComb (fracDivComb f c)
    else match c.resolve with
      | .ok y => liftNum (Num.binop .div f y)
      | .error e => .error e
  | .num x, .num y => liftNum (Num.binop .div x y)

/-- expression trees over factorials, binomial coefficients, exact literals, `*` and `/` -/
inductive CExp where
  | int (z : Int)                  -- `7`, `(-3)`
  | sci (m : Nat) (e : Int)        -- `25e-2` (Ka's exact non-integer literal)
  | fact (n : Int)                 -- `n!`
  | choose (n k : Int)             -- `C(n,k)`
  | mul (a b : CExp)
  | div (a b : CExp)
deriving Repr, Inhabited

/-- evaluation as `eval_node` does it: children left to right, then `dispatch` -/
def evalC : CExp → Except Err CVal
  | .int z => .ok (.num (.int z))
  | .sci m e => liftNum (Num.simplify (litValue m e))
  | .fact n => .ok (lazyFactorial n)
  | .choose n k => .ok (lazyChoose n k)
  | .mul a b =>
    match evalC a with
    | .error e => .error e
    | .ok x =>
      match evalC b with
      | .error e => .error e
      | .ok y => applyMul x y
  | .div a b =>
    match evalC a with
    | .error e => .error e
    | .ok x =>
      match evalC b with
      | .error e => .error e
      | .ok y => applyDiv x y

/-- value of the whole input: `reduce_result(eval_parse_tree(..))` -/
def evalTop (e : CExp) : Except Err Num :=
  match evalC e with
  | .ok v => reduce v
  | .error er => .error er

/-- import-free factorial and binomial coefficient (n!/(k!(n-k)!), 0 for k > n) for the eager meaning;
    Lemmas/CombLemmas.lean proves them equal to `Nat.factorial` and `Nat.choose`. -/
def factN : Nat → Nat
  | 0 => 1
  | n + 1 => (n + 1) * factN n

def chooseN (n k : Nat) : Nat :=
  if k ≤ n then factN n / (factN k * factN (n - k)) else 0

/-- eager big-integer meaning; `none` = a zero divisor somewhere -/
def eager : CExp → Option Rat
  | .int z => some (z : Rat)
  | .sci m e => some (if e < 0 then (m : Rat) / (10 : Rat) ^ (-e).toNat else (m : Rat) * (10 : Rat) ^ e.toNat)
  | .fact n => some ((factN n.toNat : Nat) : Rat)
  | .choose n k => some (if n < 0 ∨ k < 0 then 0 else ((chooseN n.toNat k.toNat : Nat) : Rat))
  | .mul a b =>
    match eager a, eager b with
    | some x, some y => some (x * y)
    | _, _ => none
  | .div a b =>
    match eager a, eager b with
    | some x, some y => if y = 0 then none else some (x / y)
    | _, _ => none

end KaVerif.Comb
