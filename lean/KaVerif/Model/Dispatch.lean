/-
  Overload resolution, line by line from src/ka/functions.py:
    FunctionSignature.matches (36-48), lookup_function (168-170),
    get_closest_match (172-181), types_below (183-187), dispatch (142-166).
  Types and value classes are numeric ids; the tables come from Gen/Registry.
  Import-free.
-/
namespace KaVerif

structure Sig where
  pos : List Nat               -- declared positional types
  vararg : Option Nat          -- declared vararg type
  kw : List (Nat × Nat)        -- keyword name id ↦ declared type
  impl : Nat                   -- stable id of the implementation
deriving DecidableEq, Repr, Inhabited

namespace Dispatch

/-- the positional loop of `matches`: returns the arguments left over, or `none` on a mismatch -/
def matchPos (inst : Nat → Nat → Bool) : List Nat → List Nat → Option (List Nat)
  | [], args => some args
  | _ :: _, [] => none
  | t :: ts, a :: as => if inst a t then matchPos inst ts as else none

/-- `FunctionSignature.matches`: note that the vararg clause tests *all* arguments. -/
def sigMatches (inst : Nat → Nat → Bool) (s : Sig) (args : List Nat) : Bool :=
  match matchPos inst s.pos args with
  | none => false
  | some rest =>
    rest.isEmpty || (match s.vararg with
      | some v => args.all (fun a => inst a v)
      | none => false)

/-- `lookup_function`: filter in registration order -/
def applicable (inst : Nat → Nat → Bool) (sigs : List Sig) (args : List Nat) : List Sig :=
  sigs.filter (fun s => sigMatches inst s args)

/-- `types_below`: pointwise `issubclass` over the zip-truncated positional types -/
def typesBelow (sub : Nat → Nat → Bool) (a b : Sig) : Bool :=
  (List.zip a.pos b.pos).all (fun p => sub p.1 p.2)

/-- `get_closest_match`: left scan replacing the candidate when the next one is below it -/
def closest (sub : Nat → Nat → Bool) : List Sig → Option Sig
  | [] => none
  | h :: t => some (t.foldl (fun c x => if typesBelow sub x c then x else c) h)

inductive DErr where
  | unknownFunction | noMatch | unknownKeyword | badKeyword
deriving DecidableEq, Repr

/-- `dispatch` up to the call: which implementation runs, or which error is raised first.
    `registry` maps a name to its signature list; `kw` are (keyword id, value class). -/
def resolve (inst sub : Nat → Nat → Bool) (registry : List (String × List Sig))
    (name : String) (args : List Nat) (kw : List (Nat × Nat)) : Except DErr Sig :=
  match registry.lookup name with
  | none => .error .unknownFunction
  | some sigs =>
    match closest sub (applicable inst sigs args) with
    | none => .error .noMatch
    | some h =>
      -- the keyword loop: first offending keyword decides the error
      let rec kwloop : List (Nat × Nat) → Except DErr Unit
        | [] => .ok ()
        | (k, c) :: rest =>
          match h.kw.lookup k with
          | none => .error .unknownKeyword
          | some t => if inst c t then kwloop rest else .error .badKeyword
      match kwloop kw with
      | .error e => .error e
      | .ok () => .ok h

/-- `dispatch` with the function bodies as a parameter: the body runs only after resolution. -/
def dispatch {α : Type} (inst sub : Nat → Nat → Bool) (registry : List (String × List Sig))
    (body : Nat → α) (name : String) (args : List Nat) (kw : List (Nat × Nat)) : Except DErr α :=
  match resolve inst sub registry name args kw with
  | .error e => .error e
  | .ok h => .ok (body h.impl)

/-- all tuples of length `n` over `0..k-1` -/
def tuples (k : Nat) : Nat → List (List Nat)
  | 0 => [[]]
  | n + 1 => (List.range k).flatMap (fun c => (tuples k n).map (fun t => c :: t))

/-- `m` is a least element of `l` w.r.t. `typesBelow` and the only one. -/
def uniqueLeast (sub : Nat → Nat → Bool) (l : List Sig) (m : Sig) : Bool :=
  l.contains m && l.all (fun x => typesBelow sub m x) &&
  l.all (fun x => !(typesBelow sub x m) || x == m)

/-- the applicable set is empty or has a unique least element -/
def hasUniqueLeast (sub : Nat → Nat → Bool) (l : List Sig) : Bool :=
  l.isEmpty || l.any (fun m => uniqueLeast sub l m)

end Dispatch
end KaVerif
