/-
  `math.erf` on IEEE doubles, for the unified pipeline model (`Model/Eval.lean`: the Gaussian
  distribution function).  Lean's `Float` has `exp`, `log`, `sqrt` (the C library's, like CPython's
  `math`), but no `erf`; this is a line-by-line port of the C library's algorithm (fdlibm `s_erf.c`,
  the one glibc and CPython's `math.erf` use): rational approximations on
  [0, 0.84375), [0.84375, 1.25), [1.25, 1/0.35), [1/0.35, 6) and ±(1 − tiny) beyond.

  Executable only: nothing is proved about it (the C08 theorems treat erf as an abstract
  function); it is tied to `math.erf` by the pipeline correspondence (results compared to 1e-9).
  Import-free.
-/
namespace KaVerif.Erf

def erx : Float := 8.45062911510467529297e-01
def efx : Float := 1.28379167095512586316e-01
def pp0 : Float := 1.28379167095512558561e-01
def pp1 : Float := -3.25042107247001499370e-01
def pp2 : Float := -2.84817495755985104766e-02
def pp3 : Float := -5.77027029648944159157e-03
def pp4 : Float := -2.37630166566501626084e-05
def qq1 : Float := 3.97917223959155352819e-01
def qq2 : Float := 6.50222499887672944485e-02
def qq3 : Float := 5.08130628187576562776e-03
def qq4 : Float := 1.32494738004321644526e-04
def qq5 : Float := -3.96022827877536812320e-06
def pa0 : Float := -2.36211856075265944077e-03
def pa1 : Float := 4.14856118683748331666e-01
def pa2 : Float := -3.72207876035701323847e-01
def pa3 : Float := 3.18346619901161753674e-01
def pa4 : Float := -1.10894694282396677476e-01
def pa5 : Float := 3.54783043256182359371e-02
def pa6 : Float := -2.16637559486879084300e-03
def qa1 : Float := 1.06420880400844228286e-01
def qa2 : Float := 5.40397917702171048937e-01
def qa3 : Float := 7.18286544141962662868e-02
def qa4 : Float := 1.26171219808761642112e-01
def qa5 : Float := 1.36370839120290507362e-02
def qa6 : Float := 1.19844998467991074170e-02
def ra0 : Float := -9.86494403484714822705e-03
def ra1 : Float := -6.93858572707181764372e-01
def ra2 : Float := -1.05586262253232909814e+01
def ra3 : Float := -6.23753324503260060396e+01
def ra4 : Float := -1.62396669462573470355e+02
def ra5 : Float := -1.84605092906711035994e+02
def ra6 : Float := -8.12874355063065934246e+01
def ra7 : Float := -9.81432934416914548592e+00
def sa1 : Float := 1.96512716674392571292e+01
def sa2 : Float := 1.37657754143519042600e+02
def sa3 : Float := 4.34565877475229228821e+02
def sa4 : Float := 6.45387271733267880336e+02
def sa5 : Float := 4.29008140027567833386e+02
def sa6 : Float := 1.08635005541779435134e+02
def sa7 : Float := 6.57024977031928170135e+00
def sa8 : Float := -6.04244152148580987438e-02
def rb0 : Float := -9.86494292470009928597e-03
def rb1 : Float := -7.99283237680523006574e-01
def rb2 : Float := -1.77579549177547519889e+01
def rb3 : Float := -1.60636384855821916062e+02
def rb4 : Float := -6.37566443368389627722e+02
def rb5 : Float := -1.02509513161107724954e+03
def rb6 : Float := -4.83519191608651397019e+02
def sb1 : Float := 3.03380607434824582924e+01
def sb2 : Float := 3.25792512996573918826e+02
def sb3 : Float := 1.53672958608443695994e+03
def sb4 : Float := 3.19985821950859553908e+03
def sb5 : Float := 2.55305040643316442583e+03
def sb6 : Float := 4.74528541206955367215e+02
def sb7 : Float := -2.24409524465858183362e+01

/-- `SET_LOW_WORD(z, 0)`: the double with the low 32 bits of the significand cleared -/
def clearLow (x : Float) : Float := Float.ofBits (x.toBits &&& 0xFFFFFFFF00000000)

/-- `erf(x)` -/
def erf (x : Float) : Float :=
  if x.isNaN then x else
  let ax := x.abs
  if ax < 0.84375 then
    if ax < 3.7252902984619140625e-09 then x + efx * x            -- |x| < 2**-28
    else
      let z := x * x
      let r := pp0 + z * (pp1 + z * (pp2 + z * (pp3 + z * pp4)))
      let s := 1.0 + z * (qq1 + z * (qq2 + z * (qq3 + z * (qq4 + z * qq5))))
      x + x * (r / s)
  else if ax < 1.25 then
    let s := ax - 1.0
    let p := pa0 + s * (pa1 + s * (pa2 + s * (pa3 + s * (pa4 + s * (pa5 + s * pa6)))))
    let q := 1.0 + s * (qa1 + s * (qa2 + s * (qa3 + s * (qa4 + s * (qa5 + s * qa6)))))
    if x ≥ 0.0 then erx + p / q else -erx - p / q
  else if ax ≥ 6.0 then
    if x ≥ 0.0 then 1.0 - 1e-300 else 1e-300 - 1.0
  else
    let s := 1.0 / (ax * ax)
    let (R, S) :=
      if ax < 2.857142857142857 then                                -- |x| < 1/0.35
        (ra0 + s * (ra1 + s * (ra2 + s * (ra3 + s * (ra4 + s * (ra5 + s * (ra6 + s * ra7)))))),
         1.0 + s * (sa1 + s * (sa2 + s * (sa3 + s * (sa4 + s * (sa5 + s * (sa6 + s * (sa7 + s * sa8))))))))
      else
        (rb0 + s * (rb1 + s * (rb2 + s * (rb3 + s * (rb4 + s * (rb5 + s * rb6))))),
         1.0 + s * (sb1 + s * (sb2 + s * (sb3 + s * (sb4 + s * (sb5 + s * (sb6 + s * sb7)))))))
    let z := clearLow ax
    let r := Float.exp (-z * z - 0.5625) * Float.exp ((z - ax) * (z + ax) + R / S)
    if x ≥ 0.0 then 1.0 - r / ax else r / ax - 1.0

end KaVerif.Erf
