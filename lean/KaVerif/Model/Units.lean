/-
  Unit registry of Ka: record types of the generated table (`Gen/Units.lean`) and the
  model of `lookup_unit` / `apply_prefix`.

  Anchors: src/ka/units.py:15-51 (Prefix, PREFIXES), :56-72 (lookup_unit), :74-80 (apply_prefix),
           :167-225 (Unit, register_unit, register_derived_unit).

  Import-free and executable.  Strings are lists of Unicode code points (`List Nat`): Python's
  `str` is a sequence of code points, `in dict`, `startswith` and slicing compare code points,
  no normalisation, no case folding.  Every record also carries the `String` form for drivers
  and messages; no theorem looks at those fields.

  Numbers: a multiple / offset / prefix multiplier is stored as the exact rational value
  (`Fraction(x)` of the Python number; for a float the exact value of the double) as a pair
  numerator / denominator plus the Python kind it has in the code.
-/
namespace KaVerif.Units

/-- Python kind of a stored number. -/
inductive NumKind where
  | int | frac | float
deriving DecidableEq, Repr, Inhabited

def NumKind.code : NumKind → String
  | .int => "i" | .frac => "q" | .float => "f"

/-- `ka.units.Prefix`: `multiplier = base**exp if exp>0 else Fraction(1, base**-exp)`. -/
structure PrefixRec where
  name : List Nat          -- name_prefix, code points
  sym : List Nat           -- symbol_prefix, code points
  mulNum : Nat             -- multiplier = mulNum / mulDen, in lowest terms
  mulDen : Nat
  mulKind : NumKind        -- `int` for exp>0, `frac` otherwise
  exp : Int
  base : Nat
  nameS : String
  symS : String
deriving Repr, Inhabited

/-- `ka.units.Unit` (one entry of `UNITS`, in registration order). -/
structure UnitRec where
  symbol : List Nat
  singular : List Nat
  plural : List Nat        -- the literal `Unit.NO_PLURAL = "noplural"` when there is none
  hasPlural : Bool         -- plural_name != Unit.NO_PLURAL
  quantities : List (List Nat)
  cash : Bool              -- "cash" ∈ quantities  (a currency)
  dim : List Int           -- quantity_vector.v, one exponent per entry of BASE_UNITS
  mulNum : Int             -- multiple = mulNum / mulDen (lowest terms, mulDen > 0)
  mulDen : Nat
  mulKind : NumKind
  offNum : Int             -- offset likewise
  offDen : Nat
  offKind : NumKind
  symbolS : String
  singularS : String
  pluralS : String
  quantitiesS : List String
deriving Repr, Inhabited

/-- The whole registry as the code has it after import. -/
structure UnitTable where
  baseUnits : List (List Nat)             -- BASE_UNITS
  baseUnitsS : List String
  prefixes : List PrefixRec               -- PREFIXES, in order
  units : List UnitRec                    -- UNITS, in registration order
  names : List (List Nat × Nat)           -- NAME_TO_UNIT   : key ↦ index into `units`
  symbols : List (List Nat × Nat)         -- SYMBOL_TO_UNIT : key ↦ index into `units`
deriving Inhabited

def PrefixRec.mult (p : PrefixRec) : Rat := mkRat p.mulNum p.mulDen
def UnitRec.multiple (u : UnitRec) : Rat := mkRat u.mulNum u.mulDen
def UnitRec.offset (u : UnitRec) : Rat := mkRat u.offNum u.offDen

/-! ### Python `str` primitives on code-point lists -/

/-- `a == b` on two `str`. -/
def eqCp : List Nat → List Nat → Bool
  | [], [] => true
  | a :: as, b :: bs => Nat.beq a b && eqCp as bs
  | _, _ => false

/-- `name.startswith(p)` together with the slice `name[len(p):]`:
    `some rest` when `name = p ++ rest`, `none` when `name` does not start with `p`.
    (Python evaluates the slice unconditionally and the `startswith` test next to it; the slice
    is only used when the test succeeds.) -/
def stripPrefix : (p name : List Nat) → Option (List Nat)
  | [], name => some name
  | _ :: _, [] => none
  | a :: p, b :: name => if Nat.beq a b then stripPrefix p name else none

/-- `d.get(key)` on a dict written as an association list (first hit; dict keys are unique). -/
def assoc : List (List Nat × Nat) → List Nat → Option Nat
  | [], _ => none
  | (k, v) :: rest, key => if eqCp k key then some v else assoc rest key

/-! ### lookup_unit -/

/-- What the string matching of `lookup_unit` finds: the unit's index and the prefix applied. -/
structure Hit where
  idx : Nat
  pre : Option PrefixRec

/-- The `for prefix in PREFIXES:` loop of `lookup_unit`: for each prefix in order, first the
    name-prefix on unit *names*, then the symbol-prefix on unit *symbols*. -/
def prefixLoop (names symbols : List (List Nat × Nat)) (name : List Nat) : List PrefixRec → Option Hit
  | [] => none
  | p :: ps =>
    match (stripPrefix p.name name).bind (assoc names) with
    | some i => some ⟨i, some p⟩
    | none =>
      match (stripPrefix p.sym name).bind (assoc symbols) with
      | some i => some ⟨i, some p⟩
      | none => prefixLoop names symbols name ps

/-- String-matching part of `lookup_unit` (units.py:61-72): exact name, exact symbol, prefix loop. -/
def lookupHit (t : UnitTable) (name : List Nat) : Option Hit :=
  match assoc t.names name with
  | some i => some ⟨i, none⟩
  | none =>
    match assoc t.symbols name with
    | some i => some ⟨i, none⟩
    | none => prefixLoop t.names t.symbols name t.prefixes

inductive UnitErr where
  | invalidPrefix       -- InvalidPrefixError
deriving DecidableEq, Repr

/-- A unit as `lookup_unit` returns it: the registered record, possibly with a scaled multiple.
    (`apply_prefix` copies every field except `multiple`.) -/
structure Resolved where
  idx : Nat               -- index of the registered unit in `UNITS`
  unit : UnitRec          -- the registered record (symbol, names, quantities, dimension, offset)
  mulNum : Int            -- multiple of the returned Unit object = mulNum / mulDen (not necessarily in
  mulDen : Nat            --   lowest terms; exact value: for a float unit Python rounds the product)
  mulKind : NumKind
  prefixed : Bool

def Resolved.multiple (r : Resolved) : Rat := mkRat r.mulNum r.mulDen

/-- Kind of `prefix.multiplier * unit.multiple` in Python: float wins, int*int is int,
    anything with a Fraction is a Fraction (also when the value is integral). -/
def mulKindOf : NumKind → NumKind → NumKind
  | _, .float => .float
  | .float, _ => .float
  | .int, .int => .int
  | _, _ => .frac

/-- `apply_prefix` (units.py:74-80): an offset unit refuses every prefix. -/
def applyPrefix (p : PrefixRec) (i : Nat) (u : UnitRec) : Except UnitErr Resolved :=
  if u.offNum != 0 then .error .invalidPrefix
  else
    .ok { idx := i, unit := u, mulNum := (p.mulNum : Int) * u.mulNum, mulDen := p.mulDen * u.mulDen,
          mulKind := mulKindOf p.mulKind u.mulKind, prefixed := true }

def UnitTable.unit (t : UnitTable) (i : Nat) : UnitRec := t.units.getD i default

/-- `lookup_unit(name)`: `.ok none` = Python `None`, `.error` = `InvalidPrefixError`. -/
def lookupUnit (t : UnitTable) (name : List Nat) : Except UnitErr (Option Resolved) :=
  match lookupHit t name with
  | none => .ok none
  | some ⟨i, none⟩ =>
    let u := t.unit i
    .ok (some { idx := i, unit := u, mulNum := u.mulNum, mulDen := u.mulDen, mulKind := u.mulKind, prefixed := false })
  | some ⟨i, some p⟩ => (applyPrefix p i (t.unit i)).map some

/-! ### all readings of a spelling (used to decide the hypothesis of `C13_prefix_unique`) -/

/-- every (prefix, unit index) reading of `w`, in the order the loop of `lookup_unit` tries them -/
def readings (names symbols : List (List Nat × Nat)) (w : List Nat) : List PrefixRec → List (PrefixRec × Nat)
  | [] => []
  | p :: ps =>
    (((stripPrefix p.name w).bind (assoc names)).toList.map (fun i => (p, i))) ++
    (((stripPrefix p.sym w).bind (assoc symbols)).toList.map (fun i => (p, i))) ++
    readings names symbols w ps

def sameMultB (p q : PrefixRec) : Bool :=
  Nat.beq p.mulNum q.mulNum && Nat.beq p.mulDen q.mulDen && decide (p.mulKind = q.mulKind)

/-- the hypothesis of `C13_prefix_unique`, decided: not a registered spelling, at least one reading,
    and all readings agree on the unit and on the multiplier -/
def uniqueReading (t : UnitTable) (w : List Nat) : Option (PrefixRec × Nat) :=
  if (assoc t.names w).isSome || (assoc t.symbols w).isSome then none else
  match readings t.names t.symbols w t.prefixes with
  | [] => none
  | (p, i) :: rest => if rest.all (fun x => Nat.beq x.2 i && sameMultB x.1 p) then some (p, i) else none

end KaVerif.Units
