import KaVerif.Model.Num
/-
  C01 fragment of the evaluator: integer / scientific literals, + - * / % ^,
  unary + -, abs floor ceil round int.   `evalA` follows the code path
  (tokeniser literal value → `simplify_number` at the leaf → for every operator
  the registered implementation for the kind pair → `simplify_type`),
  children evaluated left to right before the operator is applied
  (eval.py `eval_node`).
  `den` is the mathematical meaning the property speaks about.
-/
namespace KaVerif
open Num

inductive AExp where
  | lit (n : Nat)                 -- `12`
  | sci (m : Nat) (e : Int)       -- `15e2`, `1e-3`   (integer mantissa)
  | bin (op : BinOp) (a b : AExp)
  | un (op : UnOp) (a : AExp)
deriving Repr, Inhabited

/-- Value the tokeniser computes for an integer-mantissa literal (tokens.py:213-226),
    before `parse_number` applies `simplify_number`. -/
def litValue (m : Nat) (e : Int) : Num :=
  if e < 0 then .frac ((m : Rat) * (1 / ((10:Rat) ^ (-e).toNat)))   -- int * Fraction(1, 10**-e)
  else .int ((m : Int) * (10:Int) ^ e.toNat)

def evalA : AExp → Except Err Num
  | .lit n => simplify (.int n)
  | .sci m e => simplify (litValue m e)
  | .bin op a b => do
    let x ← evalA a
    let y ← evalA b
    binop op x y
  | .un op a => do
    let x ← evalA a
    unop op x

/-- Outcome of the mathematical reading of an expression. -/
inductive Den where
  | val (q : Rat)
  | divZero            -- a division or modulo by zero is met first
  | outOfScope         -- C01 does not speak about it (negative / non-integer exponent, `float`)
deriving Repr, Inhabited, DecidableEq

def truncRat (q : Rat) : Int := if q < 0 then q.ceil else q.floor

def denBin (op : BinOp) (x y : Rat) : Den :=
  match op with
  | .add => .val (x + y)
  | .sub => .val (x - y)
  | .mul => .val (x * y)
  | .div => if y = 0 then .divZero else .val (x / y)
  | .mod => if y = 0 then .divZero else .val (fmodRat x y)
  | .pow => if y.den = 1 ∧ 0 ≤ y.num then .val (x ^ y.num.toNat) else .outOfScope

def denUn (op : UnOp) (x : Rat) : Den :=
  match op with
  | .pos => .val x
  | .neg => .val (-x)
  | .abs => .val (if x < 0 then -x else x)
  | .floor => .val (x.floor : Rat)
  | .ceil => .val (x.ceil : Rat)
  | .round => .val (roundHalfEven x : Rat)
  | .toInt => .val (truncRat x : Rat)
  | .toFloat => .outOfScope

def den : AExp → Den
  | .lit n => .val (n : Rat)
  | .sci m e => .val (if e < 0 then (m : Rat) / (10:Rat) ^ (-e).toNat else (m : Rat) * (10:Rat) ^ e.toNat)
  | .bin op a b =>
    match den a with
    | .val x => (match den b with
        | .val y => denBin op x y
        | d => d)
    | d => d
  | .un op a =>
    match den a with
    | .val x => denUn op x
    | d => d

end KaVerif
