import KaVerif.Model.Session
import Mathlib.Data.List.Basic
/-
  C14 — variables, sessions and namespaces behave like a calculator memory.
-/
namespace KaVerif
open Session

/-- the bindings are a map: writing x makes x read as the value written … -/
theorem C14_get_set_same (env : Env) (x : String) (v : Int) : (env.set x v).get x = some v := by
  simp [Env.set, Env.get, List.lookup]

theorem lookup_filter_ne (env : Env) (x y : String) (h : y ≠ x) :
    List.lookup y (env.filter (fun p => p.1 != x)) = List.lookup y env := by
  induction env with
  | nil => rfl
  | cons p t ih =>
    obtain ⟨a, b⟩ := p
    by_cases hp : a = x
    · subst hp
      have h1 : ((a, b).1 != a) = false := by simp
      have h2 : (y == a) = false := by simpa using h
      simp only [List.filter_cons, h1, Bool.false_eq_true, if_false, ih, List.lookup_cons, h2]
    · have h1 : ((a, b).1 != x) = true := by simpa using hp
      simp only [List.filter_cons, h1, if_true, List.lookup_cons, ih]

/-- … and leaves every other name alone -/
theorem C14_get_set_other (env : Env) (x y : String) (v : Int) (h : y ≠ x) :
    (env.set x v).get y = env.get y := by
  have hb : (y == x) = false := by simpa using h
  simp only [Env.set, Env.get, List.lookup_cons, hb]
  exact lookup_filter_ne env x y h

/-- reading an unassigned name is an error, never a value -/
theorem C14_unassigned (w : World) (env : Env) (x : String) (h : env.get x = none) :
    evalE w env (.var x) = .error (.unassigned x) := by
  simp [evalE, h]

/-- a fresh session reads `true` as 1 and `false` as 0 -/
theorem C14_initial (extra : Env) :
    (initial extra).get "true" = some 1 ∧ (initial extra).get "false" = some 0 := by
  constructor <;> rfl

/-- the variables an expression reads: a function name and a unit name are NOT among them -/
def Session.Exp.vars : Exp → List String
  | .lit _ => []
  | .var x => [x]
  | .add a b => a.vars ++ b.vars
  | .mul a b => a.vars ++ b.vars
  | .call _ a => a.vars
  | .unit a _ => a.vars

/-- **namespaces**: assigning a name changes the value of exactly those expressions that read it
    as a variable.  In particular `x = …` for a name x that is also a function or a unit leaves
    every call `x(…)` and every unit tag `… x` unchanged. -/
theorem C14_namespaces (w : World) (env : Env) (x : String) (v : Int) (e : Exp) (h : x ∉ e.vars) :
    evalE w (env.set x v) e = evalE w env e := by
  induction e with
  | lit n => rfl
  | var y =>
    have : y ≠ x := by intro hh; apply h; simp [Exp.vars, hh]
    simp [evalE, C14_get_set_other env x y v this]
  | add a b iha ihb =>
    simp only [Exp.vars, List.mem_append, not_or] at h
    simp [evalE, iha h.1, ihb h.2]
  | mul a b iha ihb =>
    simp only [Exp.vars, List.mem_append, not_or] at h
    simp [evalE, iha h.1, ihb h.2]
  | call f a ih => simp only [Exp.vars] at h; simp [evalE, ih h]
  | unit a u ih => simp only [Exp.vars] at h; simp [evalE, ih h]

/-- a statement that is not an assignment to x leaves x as it was -/
theorem C14_step_preserves (w : World) (env env' : Env) (s : Stmt) (val : Int) (x : String)
    (hs : step w env s = .ok (env', val)) (hne : ∀ e, s ≠ .assign x e) : env'.get x = env.get x := by
  cases s with
  | expr e =>
    simp only [step, bind, Except.bind] at hs
    cases he : evalE w env e with
    | error _ => simp [he] at hs
    | ok v => simp only [he, Except.ok.injEq, Prod.mk.injEq] at hs; rw [← hs.1]
  | assign y e =>
    have hxy : x ≠ y := by intro h; exact hne e (by rw [h])
    simp only [step, bind, Except.bind] at hs
    cases he : evalE w env e with
    | error _ => simp [he] at hs
    | ok v =>
      simp only [he, Except.ok.injEq, Prod.mk.injEq] at hs
      rw [← hs.1]; exact C14_get_set_other env y x v hxy

/-- **read after write**: right after `x = e` succeeds, x reads as the value e had -/
theorem C14_read_after_write (w : World) (env env' : Env) (x : String) (e : Exp) (val : Int)
    (hs : step w env (.assign x e) = .ok (env', val)) :
    evalE w env e = .ok val ∧ env'.get x = some val ∧ evalE w env' (.var x) = .ok val := by
  simp only [step, bind, Except.bind] at hs
  cases he : evalE w env e with
  | error _ => simp [he] at hs
  | ok v =>
    simp only [he, Except.ok.injEq, Prod.mk.injEq] at hs
    obtain ⟨h1, h2⟩ := hs
    subst h2; subst h1
    refine ⟨rfl, C14_get_set_same env x v, ?_⟩
    simp [evalE, C14_get_set_same env x v]

/-- feeding inputs one after the other, stopping at the first failing one, threading the last value -/
def Session.runUntilFail (w : World) (env : Env) (last : Option Int) : List (List Stmt) → Outcome
  | [] => ⟨env, .ok last⟩
  | inp :: rest =>
    match runInput w env last inp with
    | ⟨env', .ok l⟩ => runUntilFail w env' l rest
    | o => o

theorem runInput_append (w : World) (env : Env) (last : Option Int) (a b : List Stmt) :
    runInput w env last (a ++ b) =
      match runInput w env last a with
      | ⟨env', .ok l⟩ => runInput w env' l b
      | o => o := by
  induction a generalizing env last with
  | nil => simp [runInput]
  | cons s t ih =>
    simp only [List.cons_append, runInput]
    cases step w env s with
    | error e => rfl
    | ok p => obtain ⟨env', v⟩ := p; exact ih env' (some v)

/-- **splitting**: the statements `s1; …; sn` given as ONE input, or cut anywhere into successive
    inputs to the same session, yield the same outcome up to the first failing statement: the same
    bindings, and the same final value or the same first error. -/
theorem C14_split (w : World) (env : Env) (last : Option Int) (inputs : List (List Stmt)) :
    runUntilFail w env last inputs = runInput w env last inputs.flatten := by
  induction inputs generalizing env last with
  | nil => rfl
  | cons inp rest ih =>
    simp only [List.flatten_cons, runInput_append, runUntilFail]
    cases h : runInput w env last inp with
    | mk env' r =>
      cases r with
      | error e => rfl
      | ok l => exact ih env' l

/-- the session runner agrees with `runUntilFail` while no input fails -/
theorem C14_session_prefix (w : World) (env : Env) (inputs : List (List Stmt))
    (hok : ∀ r ∈ (runSession w env inputs).2, ∃ l, r = .ok l) :
    (runUntilFail w env none inputs).env = (runSession w env inputs).1 := by
  induction inputs generalizing env with
  | nil => rfl
  | cons inp rest ih =>
    simp only [runSession] at hok ⊢
    simp only [runUntilFail]
    cases h : runInput w env none inp with
    | mk env' r =>
      cases r with
      | error e =>
        have := hok (.error e) (by simp [h])
        obtain ⟨l, hl⟩ := this; cases hl
      | ok l =>
        simp only
        have hrest : ∀ r ∈ (runSession w env' rest).2, ∃ l, r = .ok l := by
          intro r hr; apply hok; simp [h, hr]
        -- the threaded `last` value does not influence the bindings
        have henv : ∀ (l1 l2 : Option Int) (e0 : Env) (ins : List (List Stmt)),
            (runUntilFail w e0 l1 ins).env = (runUntilFail w e0 l2 ins).env := by
          intro l1 l2 e0 ins
          rw [C14_split, C14_split]
          generalize ins.flatten = ss
          induction ss generalizing e0 l1 l2 with
          | nil => rfl
          | cons s t _ => simp only [runInput]   -- after one statement `last` is overwritten
        rw [henv l none env' rest, ih env' hrest]

/-- two sessions: inputs tagged with the session they are typed into -/
def Session.runTwo (w : World) : Env × Env → List (Bool × List Stmt) → Env × Env
  | envs, [] => envs
  | (e1, e2), (true, inp) :: rest => runTwo w ((runInput w e1 none inp).env, e2) rest
  | (e1, e2), (false, inp) :: rest => runTwo w (e1, (runInput w e2 none inp).env) rest

def Session.runOne (w : World) : Env → List (List Stmt) → Env
  | e, [] => e
  | e, inp :: rest => runOne w (runInput w e none inp).env rest

/-- **isolation**: whatever is typed into the other session, and however the two are interleaved,
    a session ends with exactly the bindings it would have had alone -/
theorem C14_isolation (w : World) (e1 e2 : Env) (h : List (Bool × List Stmt)) :
    (runTwo w (e1, e2) h).1 = runOne w e1 ((h.filter (·.1)).map (·.2)) ∧
    (runTwo w (e1, e2) h).2 = runOne w e2 ((h.filter (fun p => !p.1)).map (·.2)) := by
  induction h generalizing e1 e2 with
  | nil => exact ⟨rfl, rfl⟩
  | cons p t ih =>
    obtain ⟨b, inp⟩ := p
    cases b
    · simp only [runTwo, List.filter, Bool.not_false, List.map, runOne]
      exact ih e1 _
    · simp only [runTwo, List.filter, Bool.not_true, List.map, runOne]
      exact ih _ e2


/-- non-vacuity: `x = 2; sin = x + 1; sin(5) + sin` in a world where `sin` is also a function -/
example : let w : World := ⟨[("sin", fun n => n * 10)], [("m", 100)]⟩
    (runInput w (initial []) none
      [.assign "x" (.lit 2), .assign "sin" (.add (.var "x") (.lit 1)),
       .expr (.add (.call "sin" (.lit 5)) (.var "sin")), .expr (.unit (.var "true") "m")]).result = .ok (some 100) := by
  rfl

end KaVerif
