import KaVerif.Model.Execute
import KaVerif.Gen.Exec
import Mathlib.Data.List.Basic
/-
  C06 — every input ends in a value or a diagnosed error: the part that is decision logic.
  PARTIAL by nature: which exception classes the stages can raise is CPython behaviour that no Lean
  model contains; it is established by the correspondence / oracle runs (see DESIGN.md C06).
-/
namespace KaVerif
open Exec

theorem handle_escaped_iff (tbl : List (String × Nat)) (x c : String) :
    handle tbl x = .escaped c ↔ (x = c ∧ tbl.lookup c = none) := by
  unfold handle
  cases hl : tbl.lookup x with
  | none =>
    constructor
    · intro h; simp only [Outcome.escaped.injEq] at h; subst h; exact ⟨rfl, hl⟩
    · rintro ⟨rfl, _⟩; rfl
  | some k =>
    constructor
    · intro h
      by_cases hk : k = 1
      · subst hk; simp at h
      · split at h
        · simp at h
        · simp at h
        · rename_i heq; cases heq
    · rintro ⟨rfl, h2⟩; rw [hl] at h2; cases h2

/-- **the handler structure decides escape**: `execute` lets an exception escape exactly when a stage
    raises a class that the `try` around that stage does not list (after eval_parse_tree's conversion),
    for every choice of handler tables and stage behaviours -/
theorem C06_escape_iff (lexC parseC evalC : List (String × Nat)) (conv : List (String × String)) (st : Stages) (c : String) :
    execute lexC parseC evalC conv st = .escaped c ↔
      (st.lex = some c ∧ lexC.lookup c = none) ∨
      (st.lex = none ∧ st.parse = some c ∧ parseC.lookup c = none) ∨
      (st.lex = none ∧ st.parse = none ∧ ∃ c0, st.evalTree = some c0 ∧ convert conv c0 = c ∧ evalC.lookup c = none) ∨
      (st.lex = none ∧ st.parse = none ∧ st.evalTree = none ∧ st.display = some c ∧ evalC.lookup c = none) := by
  unfold execute
  cases h1 : st.lex with
  | some a =>
    simp only [handle_escaped_iff, reduceCtorEq, false_and, or_false, Option.some.injEq]
  | none =>
    cases h2 : st.parse with
    | some a =>
      simp only [handle_escaped_iff, reduceCtorEq, false_and, or_false, false_or, true_and, Option.some.injEq]
    | none =>
      cases h3 : st.evalTree with
      | some a =>
        simp only [handle_escaped_iff, reduceCtorEq, false_and, or_false, false_or, true_and, Option.some.injEq]
        constructor
        · rintro ⟨h, h'⟩; exact ⟨a, rfl, h, h'⟩
        · rintro ⟨c0, rfl, h, h'⟩; exact ⟨h, h'⟩
      | none =>
        cases h4 : st.display with
        | some a =>
          simp only [handle_escaped_iff, reduceCtorEq, false_and, or_false, false_or, true_and, Option.some.injEq,
            exists_const]
        | none => simp

theorem lookup_mem {β : Type} (tbl : List (String × β)) (x : String) (k : β) (h : tbl.lookup x = some k) : (x, k) ∈ tbl := by
  induction tbl with
  | nil => simp at h
  | cons p t ih =>
    obtain ⟨a, b⟩ := p
    simp only [List.lookup_cons] at h
    split at h
    · rename_i heq
      simp only [Option.some.injEq] at h; subst h
      have : x = a := by simpa using heq
      subst this; exact List.mem_cons_self
    · exact List.mem_cons_of_mem _ (ih h)

/-- **stream discipline**: whenever nothing escapes, the outcome is status 0 with text on the output
    stream only (a completed evaluation, or an exit/interrupt signal), or status 1 with text on the
    error stream only — given handler tables that only return 0 or 1 (checked for the generated ones below) -/
theorem C06_stream_discipline (lexC parseC evalC : List (String × Nat)) (conv : List (String × String)) (st : Stages)
    (h01 : ∀ p ∈ lexC ++ parseC ++ evalC, p.2 = 0 ∨ p.2 = 1) (status : Nat) (o e : Bool)
    (h : execute lexC parseC evalC conv st = .done status o e) :
    (status = 0 ∧ e = false) ∨ (status = 1 ∧ o = false ∧ e = true) := by
  have hh : ∀ (tbl : List (String × Nat)) (x : String), (∀ p ∈ tbl, p.2 = 0 ∨ p.2 = 1) →
      handle tbl x = .done status o e → (status = 0 ∧ e = false) ∨ (status = 1 ∧ o = false ∧ e = true) := by
    intro tbl x htbl hx
    unfold handle at hx
    cases hl : tbl.lookup x with
    | none => rw [hl] at hx; cases hx
    | some k =>
      rw [hl] at hx
      have hk : k = 0 ∨ k = 1 := htbl (x, k) (lookup_mem tbl x k hl)
      rcases hk with rfl | rfl
      · simp only [Outcome.done.injEq] at hx; left; exact ⟨hx.1.symm, hx.2.2.symm⟩
      · simp only [Outcome.done.injEq] at hx; right; exact ⟨hx.1.symm, hx.2.1.symm, hx.2.2.symm⟩
  have hl : ∀ p ∈ lexC, p.2 = 0 ∨ p.2 = 1 := fun p hp => h01 p (by simp [hp])
  have hp : ∀ p ∈ parseC, p.2 = 0 ∨ p.2 = 1 := fun p hp => h01 p (by simp [hp])
  have he : ∀ p ∈ evalC, p.2 = 0 ∨ p.2 = 1 := fun p hp => h01 p (by simp [hp])
  unfold execute at h
  cases h1 : st.lex with
  | some a => rw [h1] at h; exact hh _ _ hl h
  | none =>
    rw [h1] at h
    cases h2 : st.parse with
    | some a => rw [h2] at h; exact hh _ _ hp h
    | none =>
      rw [h2] at h
      cases h3 : st.evalTree with
      | some a => rw [h3] at h; exact hh _ _ he h
      | none =>
        rw [h3] at h
        cases h4 : st.display with
        | some a => rw [h4] at h; exact hh _ _ he h
        | none => rw [h4] at h; simp only [Outcome.done.injEq] at h; left; exact ⟨h.1.symm, h.2.2.symm⟩

open Gen.Exec in
/-- table facts of the current source tree: every handler returns 0 or 1; the exception classes Ka's
    own code raises on purpose are all caught around evaluation; ZeroDivisionError and OverflowError
    raised while evaluating the tree are converted to a caught class; the command-line fast path
    exits with execute's status -/
theorem C06_tables :
    (lexCaught ++ parseCaught ++ evalCaught).all (fun p => p.2 == 0 || p.2 == 1) = true ∧
    (["EvalError", "KaRuntimeError", "UnknownFunctionError", "UnknownKeywordError", "BadTypeKeywordError",
      "InvalidParameterException", "NoMatchingFunctionSignatureError", "IncompatibleQuantitiesError",
      "FunctionArgError"].all (fun c => (evalCaught.lookup c) == some 1)) = true ∧
    (["UnknownTokenError", "BadNumberError", "UnclosedStringError", "UnclosedInstantError"].all
      (fun c => (lexCaught.lookup c) == some 1)) = true ∧
    (["ParsingError", "KaRuntimeError"].all (fun c => (parseCaught.lookup c) == some 1)) = true ∧
    (["ZeroDivisionError", "OverflowError"].all (fun c => evalCaught.lookup (convert evalConverted c) == some 1)) = true ∧
    cliFastPath = true := by
  decide +kernel

open Gen.Exec in
/-- consequence for the current tree: with the generated tables, an input whose stages raise only Ka's
    own exception classes (and ZeroDivisionError / OverflowError while evaluating the tree) never escapes -/
theorem C06_no_escape_current (st : Stages)
    (hlex : ∀ c, st.lex = some c → c ∈ ["UnknownTokenError", "BadNumberError", "UnclosedStringError", "UnclosedInstantError"])
    (hparse : ∀ c, st.parse = some c → c ∈ ["ParsingError", "KaRuntimeError"])
    (heval : ∀ c, st.evalTree = some c → c ∈ ["EvalError", "KaRuntimeError", "UnknownFunctionError", "UnknownKeywordError",
      "BadTypeKeywordError", "InvalidParameterException", "NoMatchingFunctionSignatureError",
      "IncompatibleQuantitiesError", "FunctionArgError", "ZeroDivisionError", "OverflowError", "ExitKaSignal"])
    (hdisp : st.display = none) (c : String) :
    execute lexCaught parseCaught evalCaught evalConverted st ≠ .escaped c := by
  intro h
  rw [C06_escape_iff] at h
  have L : ∀ x ∈ ["UnknownTokenError", "BadNumberError", "UnclosedStringError", "UnclosedInstantError"],
      lexCaught.lookup x ≠ none := by decide +kernel
  have P : ∀ x ∈ ["ParsingError", "KaRuntimeError"], parseCaught.lookup x ≠ none := by decide +kernel
  have E : ∀ x ∈ ["EvalError", "KaRuntimeError", "UnknownFunctionError", "UnknownKeywordError",
      "BadTypeKeywordError", "InvalidParameterException", "NoMatchingFunctionSignatureError",
      "IncompatibleQuantitiesError", "FunctionArgError", "ZeroDivisionError", "OverflowError", "ExitKaSignal"],
      evalCaught.lookup (convert evalConverted x) ≠ none := by decide +kernel
  rcases h with ⟨h1, h2⟩ | ⟨_, h1, h2⟩ | ⟨_, _, c0, h1, rfl, h2⟩ | ⟨_, _, _, h1, _⟩
  · exact L c (hlex c h1) h2
  · exact P c (hparse c h1) h2
  · exact E c0 (heval c0 h1) h2
  · rw [hdisp] at h1; cases h1

/-- **position marker**: for every input s and every index ≤ |s|, the caret stands in the column of the
    context line that shows input position `index` (or just past the shown text when index = |s|):
    the marker lies inside the input -/
theorem C06_caret (ctx indent : Nat) (s : List Char) (index : Nat) (h : index ≤ s.length) :
    let m := marker ctx indent s index
    m.caretLine.getLast? = some '^' ∧
    m.column ≤ m.contextLine.length ∧
    (∀ hi : index < s.length, m.contextLine[m.column]? = some s[index]) := by
  intro m
  have hcol : m.column = indent + (if index - ctx = 0 then 0 else 3) + index - (index - ctx) := by
    simp only [m, marker, Marker.column, List.length_append, List.length_replicate, List.length_cons, List.length_nil]
    split <;> simp
  refine ⟨by simp [m, marker], ?_, ?_⟩
  · rw [hcol]
    simp only [m, marker, List.length_append, List.length_replicate, List.length_take, List.length_drop]
    split <;> split <;> simp <;> omega
  · intro hi
    rw [hcol]
    simp only [m, marker]
    by_cases hlow : index - ctx = 0
    · simp only [hlow, if_true, List.append_nil, Nat.sub_zero, Nat.add_zero, List.drop_zero]
      rw [List.append_assoc, List.getElem?_append_right (by simp)]
      simp only [List.length_replicate, Nat.add_sub_cancel_left]
      rw [List.getElem?_append_left (by simp; omega)]
      rw [List.getElem?_take_of_lt (by omega)]
      exact List.getElem?_eq_getElem hi
    · simp only [hlow, if_false]
      rw [List.append_assoc, List.append_assoc, List.getElem?_append_right (by simp; omega)]
      simp only [List.length_replicate]
      rw [List.getElem?_append_right (by simp; omega)]
      simp only [List.length_cons, List.length_nil]
      rw [List.getElem?_append_left (by simp; omega)]
      rw [List.getElem?_take_of_lt (by omega), List.getElem?_drop]
      have : index - ctx + (indent + 3 + index - (index - ctx) - indent - (0 + 1 + 1 + 1)) = index := by omega
      rw [this]; exact List.getElem?_eq_getElem hi

open Gen.Exec in
/-- **interpreter commands**: for every list of words after the `%` — the empty one included — the
    command dispatcher reaches one of its three outcomes (no IndexError on a bare `%`), and runs a
    command only with exactly the number of arguments it declares -/
theorem C06_commands (words : List String) :
    interpretCommand commands [] = .unknown ∧
    (∀ names args, interpretCommand commands words = .run names args →
        ∃ n, (names, n) ∈ commands ∧ args.length = n ∧ args = words.drop 1) := by
  refine ⟨by decide +kernel, ?_⟩
  intro names args h
  unfold interpretCommand at h
  simp only at h
  cases hf : commands.find? (fun c => c.1.contains (words.headD "")) with
  | none => rw [hf] at h; cases h
  | some p =>
    obtain ⟨nm, na⟩ := p
    rw [hf] at h
    simp only at h
    split at h
    · cases h
    · rename_i hne
      simp only [CmdOutcome.run.injEq] at h
      obtain ⟨rfl, rfl⟩ := h
      refine ⟨na, List.mem_of_find?_eq_some hf, ?_, rfl⟩
      simp only [bne_iff_ne, ne_eq, Decidable.not_not] at hne
      exact hne.symm

/-- non-vacuity: a ZeroDivisionError while evaluating is a status-1 diagnostic; while displaying it escapes -/
example : execute Gen.Exec.lexCaught Gen.Exec.parseCaught Gen.Exec.evalCaught Gen.Exec.evalConverted
      ⟨none, none, some "ZeroDivisionError", none⟩ = .done 1 false true ∧
    execute Gen.Exec.lexCaught Gen.Exec.parseCaught Gen.Exec.evalCaught Gen.Exec.evalConverted
      ⟨none, none, none, some "ZeroDivisionError"⟩ = .escaped "ZeroDivisionError" := by
  constructor <;> decide +kernel

end KaVerif
