import KaVerif.Model.Elementary
import KaVerif.Lemmas.NumLemmas
/-
  C16 — elementary functions: rejected outside their domain, rounding functions exact on every
  numeric kind, quantities through their base-unit magnitude, never NaN or an infinity.
  (The 1e-12 accuracy of libm is not a theorem: see DESIGN.md, C16 (c).)
-/
namespace KaVerif
open Num Elementary

theorem rat_lt_floor_add_one (q : Rat) : q < (q.floor : Rat) + 1 := by
  have := Rat.lt_floor_add_one q; push_cast at this; exact this

theorem rat_ceil_bounds (q : Rat) : ((q.ceil : Int) : Rat) - 1 < q ∧ q ≤ (q.ceil : Rat) := by
  rw [Rat.ceil_eq_neg_floor_neg]
  have h1 := Rat.floor_le (-q)
  have h2 := rat_lt_floor_add_one (-q)
  push_cast
  constructor <;> linarith

/-- `floor` returns an integer n with n ≤ x < n+1, for every numeric kind (floats through their exact value) -/
theorem C16_floor (x : Num) (hf : x.finite = true) :
    ∃ n : Int, applyNum .floor x = .ok (.int n) ∧ (n : Rat) ≤ x.toRat ∧ x.toRat < (n : Rat) + 1 := by
  cases x with
  | int k => exact ⟨k, rfl, by simp [toRat], by simp [toRat]⟩
  | frac q =>
    refine ⟨q.floor, rfl, ?_, ?_⟩
    · exact Rat.floor_le q
    · exact rat_lt_floor_add_one q
  | flt f =>
    simp only [finite] at hf
    refine ⟨(floatToRat f).floor, ?_, Rat.floor_le _, rat_lt_floor_add_one _⟩
    simp [applyNum, body, unop, hf, bind, Except.bind, simplify]

/-- `ceil` returns an integer n with n−1 < x ≤ n -/
theorem C16_ceil (x : Num) (hf : x.finite = true) :
    ∃ n : Int, applyNum .ceil x = .ok (.int n) ∧ (n : Rat) - 1 < x.toRat ∧ x.toRat ≤ (n : Rat) := by
  have key := rat_ceil_bounds
  cases x with
  | int k => exact ⟨k, rfl, by simp [toRat], by simp [toRat]⟩
  | frac q => exact ⟨q.ceil, rfl, (key q).1, (key q).2⟩
  | flt f =>
    simp only [finite] at hf
    refine ⟨(floatToRat f).ceil, ?_, (key _).1, (key _).2⟩
    simp [applyNum, body, unop, hf, bind, Except.bind, simplify]

theorem roundHalfEven_near (q : Rat) : |q - (roundHalfEven q : Rat)| ≤ 1/2 := by
  have h1 : (q.floor : Rat) ≤ q := Rat.floor_le q
  have h2 : q < (q.floor : Rat) + 1 := rat_lt_floor_add_one q
  unfold roundHalfEven
  simp only
  split
  · rename_i h; rw [abs_le]; constructor <;> linarith
  · split
    · rename_i h h'; rw [abs_le]; push_cast; constructor <;> linarith
    · rename_i h h'
      have : q - (q.floor : Rat) = 1/2 := le_antisymm (not_lt.mp h') (not_lt.mp h)
      split
      · rw [abs_le]; constructor <;> linarith
      · rw [abs_le]; push_cast; constructor <;> linarith

/-- `round` returns an integer within 1/2 of x -/
theorem C16_round (x : Num) (hf : x.finite = true) :
    ∃ n : Int, applyNum .round x = .ok (.int n) ∧ |x.toRat - (n : Rat)| ≤ 1/2 := by
  cases x with
  | int k => exact ⟨k, rfl, by simp [toRat]⟩
  | frac q => exact ⟨roundHalfEven q, rfl, roundHalfEven_near q⟩
  | flt f =>
    simp only [finite] at hf
    refine ⟨roundHalfEven (floatToRat f), ?_, roundHalfEven_near _⟩
    simp [applyNum, body, unop, hf, bind, Except.bind, simplify]

/-- ties go to the even neighbour -/
theorem C16_round_ties_even (k : Int) : roundHalfEven ((k : Rat) + 1/2) = if k % 2 = 0 then k else k + 1 := by
  unfold roundHalfEven
  have hfl : ((k : Rat) + 1/2).floor = k := by
    have : ((k : Rat) + 1/2).floor = ⌊(k : Rat) + 1/2⌋ := rfl
    rw [this, Int.floor_eq_iff]; constructor <;> norm_num
  simp only [hfl]
  norm_num

/-- `int` truncates toward zero: the result t has |t| ≤ |x|, |x − t| < 1 -/
theorem C16_int (q : Rat) :
    applyNum .toInt (.frac q) = .ok (.int (truncRat q)) ∧
    (0 ≤ q → (truncRat q : Rat) ≤ q ∧ q < (truncRat q : Rat) + 1 ∧ 0 ≤ truncRat q) ∧
    (q < 0 → q ≤ (truncRat q : Rat) ∧ (truncRat q : Rat) - 1 < q ∧ truncRat q ≤ 0) := by
  refine ⟨?_, ?_, ?_⟩
  · simp [applyNum, body, unop, pyInt_frac, bind, Except.bind, simplify]
  · intro h
    have : ¬ q < 0 := not_lt.mpr h
    simp only [truncRat, this, if_false]
    refine ⟨Rat.floor_le q, rat_lt_floor_add_one q, ?_⟩
    have h3 : (0 : Rat) < (q.floor : Rat) + 1 := lt_of_le_of_lt h (rat_lt_floor_add_one q)
    have : (0 : Int) < q.floor + 1 := by exact_mod_cast h3
    omega
  · intro h
    simp only [truncRat, h, if_true]
    refine ⟨(rat_ceil_bounds q).2, (rat_ceil_bounds q).1, ?_⟩
    have := (rat_ceil_bounds q).1
    have h3 : ((q.ceil : Int) : Rat) < 1 := by linarith
    have : q.ceil < 1 := by exact_mod_cast h3
    omega

/-- **domain guards** — sqrt of a negative number of any kind is rejected -/
theorem C16_sqrt_guard (x : Num) (h : x.toRat < 0) : applyNum .sqrt x = .error .runtime := by
  simp [applyNum, body, kaSqrt, cmpLt, toRat_int, h, bind, Except.bind]

/-- logarithm of a non-positive number (any base, and ln/log2/log10) is rejected -/
theorem C16_log_guard_arg (x b : Num) (h : x.toRat ≤ 0) :
    applyLog x b = .error .runtime ∧ applyNum .ln x = .error .runtime ∧
    applyNum .log2 x = .error .runtime ∧ applyNum .log10 x = .error .runtime := by
  simp [applyLog, applyNum, body, kaLog, cmpLe, toRat_int, h, bind, Except.bind]

/-- logarithm with a base that is not positive or is 1 is rejected -/
theorem C16_log_guard_base (x b : Num) (h : b.toRat ≤ 0 ∨ b.toRat = 1) :
    applyLog x b = .error .runtime := by
  by_cases hx : x.toRat ≤ 0
  · exact (C16_log_guard_arg x b hx).1
  · rcases h with h | h <;>
    simp [applyLog, kaLog, cmpLe, cmpEq, toRat_int, hx, h, bind, Except.bind]

/-- fractional power of a negative base is rejected (base of any kind, exponent a non-integral fraction) -/
theorem C16_pow_guard (x : Num) (q : Rat) (hx : x.toRat < 0) (hq : (truncRat q : Rat) ≠ q) :
    binop .pow x (.frac q) = .error .runtime := by
  have : isFractional (.frac q) = .ok true := by
    simp [isFractional, pyInt_frac, cmpEq, toRat_int, toRat_frac, bind, Except.bind, hq]
  simp [binop, pyPow, this, cmpLt, toRat_int, hx, bind, Except.bind]

/-- zero to a negative integer power is a division by zero, not a value -/
theorem C16_zero_pow_neg (k : Int) (hk : k < 0) :
    binop .pow (.int 0) (.int k) = .error .divZero := by
  have hnk : ¬ (k ≥ 0) := by omega
  simp [binop, pyPow, isFractional_int, cmpLt, toRat_int, hnk, bind, Except.bind]

/-- on a quantity every function acts on the base-unit magnitude and keeps the dimension -/
theorem C16_on_quantity (fn : Fn) (mag : Num) (dim : List Int) :
    applyQty fn mag dim = (applyNum fn mag).map (fun m => (m, dim)) := by
  unfold applyQty applyNum
  cases body fn mag with
  | error e => rfl
  | ok r => cases simplify r <;> rfl

theorem fin_simplify_finite (y : Float) (v : Num) (h : (fin y >>= simplify) = .ok v) : v.finite = true := by
  unfold fin at h
  by_cases hf : y.isFinite = true
  · simp only [hf, if_true, bind, Except.bind, simplify] at h
    split at h
    · cases h; rfl
    · cases h; exact hf
  · simp [hf, bind, Except.bind] at h

/-- **never NaN or an infinity**: whatever sin, cos, tan, sqrt, ln, log2, log10 or log deliver is an
    integer or a finite double -/
theorem C16_finite (fn : Fn) (hfn : fn = .sin ∨ fn = .cos ∨ fn = .tan ∨ fn = .sqrt ∨ fn = .ln ∨ fn = .log2 ∨ fn = .log10)
    (x v : Num) (h : applyNum fn x = .ok v) : v.finite = true := by
  have htrig : ∀ (f : Float → Float), (trig f x >>= simplify) = .ok v → v.finite = true := by
    intro f hh
    unfold trig at hh
    cases hx : x.toFloat with
    | error e => simp [hx, bind, Except.bind] at hh
    | ok y => simp only [hx, bind, Except.bind] at hh; exact fin_simplify_finite (f y) v hh
  have hlog : ∀ b, (kaLog x b >>= simplify) = .ok v → v.finite = true := by
    intro b hh
    unfold kaLog at hh
    by_cases h1 : cmpLe x (.int 0) = true
    · simp [h1, bind, Except.bind] at hh
    · by_cases h2 : (cmpLe b (.int 0) || cmpEq b (.int 1)) = true
      · simp [h1, h2, bind, Except.bind] at hh
      · simp only [h1, h2, if_false, Bool.false_eq_true] at hh
        cases hlx : pyLog x with
        | error e => simp [hlx, bind, Except.bind] at hh
        | ok lx =>
          cases hlb : pyLog b with
          | error e => simp [hlx, hlb, bind, Except.bind] at hh
          | ok lb =>
            simp only [hlx, hlb, bind, Except.bind] at hh
            by_cases hz : (lb == 0) = true
            · simp [hz] at hh
            · simp only [hz, Bool.false_eq_true, if_false] at hh
              exact fin_simplify_finite (lx / lb) v hh
  unfold applyNum at h
  rcases hfn with rfl | rfl | rfl | rfl | rfl | rfl | rfl
  · exact htrig _ h
  · exact htrig _ h
  · exact htrig _ h
  · simp only [body, kaSqrt] at h
    by_cases h1 : cmpLt x (.int 0) = true
    · simp [h1, bind, Except.bind] at h
    · simp only [h1, if_false, Bool.false_eq_true] at h
      cases hx : x.toFloat with
      | error e => simp [hx, bind, Except.bind] at h
      | ok y => simp only [hx, bind, Except.bind] at h; exact fin_simplify_finite (Float.sqrt y) v h
  · exact hlog _ h
  · exact hlog _ h
  · exact hlog _ h

/-- non-vacuity: the hypotheses are met by -7/2 (a fraction) and sqrt(-1/2) is rejected -/
example : (∃ n : Int, applyNum .floor (.frac (-7/2)) = .ok (.int n) ∧ (n : Rat) ≤ -7/2 ∧ (-7/2 : Rat) < n + 1) ∧
    applyNum .sqrt (.frac (-1/2)) = .error .runtime :=
  ⟨C16_floor (.frac (-7/2)) rfl, C16_sqrt_guard _ (by decide +kernel)⟩

end KaVerif
