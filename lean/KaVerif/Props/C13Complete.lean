import KaVerif.Props.C13
/-
  C13 — two facts of the REVIEWED tree that a harmless change can take away without touching any unit the tree had:
  the reference table (`Lemmas/UnitRef.lean`) knows EVERY non-currency unit, and the two maps hold no alias.  With them the
  theorems of Props/C13.lean about "every unit with a reference entry" are about every unit.  A tree that registers a new unit
  (no reference entry yet) or an alias (`meter` for the metre) loses THESE theorems only; the check then says which units are
  outside the reference instead of calling the change a violation (harness/props/C13.py, OPTIONAL_MODULES).
-/
namespace KaVerif
open KaVerif.Units KaVerif.Gen.Units

namespace Units.Table
set_option maxRecDepth 100000
/-- every non-currency unit has a reference entry (the reference is complete for the current table) -/
theorem refComplete : table.units.all (fun u => u.cash || (findRef refUnits u.symbol).isSome) = true := by decide +kernel
/-- no alias: every key of the two maps is one of the three spellings of the unit it points at -/
theorem namesOwnT : namesOwn table = true := by decide +kernel
theorem symbolsOwnT : symbolsOwn table = true := by decide +kernel
end Units.Table

/-- on this tree the reference covers every non-currency unit -/
theorem C13_reference_complete (u : UnitRec) (hu : u ∈ table.units) (hc : u.cash = false) :
    ∃ r, findRef refUnits u.symbol = some r := by
  have hc' := Units.Table.refComplete
  rw [List.all_eq_true] at hc'
  have h2 := hc' u hu
  simp only [hc, Bool.false_or] at h2
  exact Option.isSome_iff_exists.1 h2

/-- hence, on this tree, EVERY non-currency unit is within 1 % of its physical definition and has its SI dimension -/
theorem C13_sizes_all (u : UnitRec) (hu : u ∈ table.units) (hc : u.cash = false) :
    ∃ r, findRef refUnits u.symbol = some r ∧ |u.multiple - r.size| ≤ r.size / 100 ∧ u.dim.take 7 = r.dim := by
  obtain ⟨r, hr⟩ := C13_reference_complete u hu hc
  exact ⟨r, hr, (C13_sizes u hu hc r hr).1, (C13_dimensions u hu hc r hr).2.1⟩

/-- on this tree the two maps only contain spellings of the unit they point to -/
theorem C13_maps_own_spellings :
    (∀ e ∈ table.names, ∃ u, table.units[e.2]? = some u ∧ (u.singular = e.1 ∨ (u.hasPlural = true ∧ u.plural = e.1))) ∧
    (∀ e ∈ table.symbols, ∃ u, table.units[e.2]? = some u ∧ u.symbol = e.1) := by
  constructor
  · intro e he
    have h := Units.Table.namesOwnT
    simp only [namesOwn, List.all_eq_true] at h
    have := h e he
    split at this
    · rename_i u hu
      refine ⟨u, hu, ?_⟩
      simpa [eqCp_iff] using this
    · cases this
  · intro e he
    have h := Units.Table.symbolsOwnT
    simp only [symbolsOwn, List.all_eq_true] at h
    have := h e he
    split at this
    · rename_i u hu
      exact ⟨u, hu, (eqCp_iff _ _).1 this⟩
    · cases this

/-- … and has exactly one entry per non-currency unit -/
example : (table.units.filter (!·.cash)).length = refUnits.length := by decide +kernel

end KaVerif
