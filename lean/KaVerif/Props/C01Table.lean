import KaVerif.Gen.Registry
/-
  C01 — the tie between the arithmetic model (Model/Num.lean `binop`/`unop`) and the
  registry of the current source tree: which registered implementation `dispatch`
  selects for each operator on each pair of numeric kinds.  Regenerated and re-checked
  on every run; removing the (Integral, Integral) override of "/" or re-pointing an
  operator breaks this theorem at build time.
-/
namespace KaVerif
open Dispatch Gen.Registry

def chosenImpl (name : String) (args : List Nat) : Option String :=
  (closest sub (applicable inst ((registry.lookup name).getD []) args)).bind (fun s => implNames[s.impl]?)

def kinds3 : List Nat := [classNames.idxOf "int", classNames.idxOf "Fraction", classNames.idxOf "float"]

theorem C01_dispatch_table :
    -- "/" on two ints is the Fraction-building override …
    chosenImpl "/" [classNames.idxOf "int", classNames.idxOf "int"]
      = some "/|(Integral, Integral)|ka.types.fraction_divide" ∧
    -- … and Python's true division on every other pair of numeric kinds
    (kinds3.all fun a => kinds3.all fun b =>
      (a == classNames.idxOf "int" && b == classNames.idxOf "int") ||
      chosenImpl "/" [a, b] == some "/|(Number, Number)|_operator.truediv") = true ∧
    -- + - * % are Python's operators, ^ is strict_pow, on every pair of numeric kinds
    (kinds3.all fun a => kinds3.all fun b =>
      chosenImpl "+" [a, b] == some "+|(Number, Number)|_operator.add" &&
      chosenImpl "-" [a, b] == some "-|(Number, Number)|_operator.sub" &&
      chosenImpl "*" [a, b] == some "*|(Number, Number)|_operator.mul" &&
      chosenImpl "%" [a, b] == some "%|(Number, Number)|_operator.mod" &&
      chosenImpl "^" [a, b] == some "^|(Number, Number)|ka.functions.strict_pow") = true ∧
    -- unary sign and the rounding functions are Python's, on every numeric kind
    (kinds3.all fun a =>
      chosenImpl "+" [a] == some "+|(Number)|_operator.pos" &&
      chosenImpl "-" [a] == some "-|(Number)|_operator.neg" &&
      chosenImpl "abs" [a] == some "abs|(Number)|builtins.abs" &&
      chosenImpl "floor" [a] == some "floor|(Number)|math.floor" &&
      chosenImpl "ceil" [a] == some "ceil|(Number)|math.ceil" &&
      chosenImpl "round" [a] == some "round|(Number)|builtins.round" &&
      chosenImpl "int" [a] == some "int|(Number)|builtins.int") = true := by
  decide +kernel

end KaVerif
