import KaVerif.Model.Execute
import KaVerif.Gen.Exec
import KaVerif.Gen.Raises
/-
  C06, generated-table part 2: EVERY `raise` statement of Ka's own source is accounted for.

  `Gen/Raises.lean` is regenerated from the Python `ast` of /repo/src/ka on every run: one row per
  `raise <Class>(...)` with the stage its code runs in (lex / parse / eval), whether a `try` of the
  same function catches it, the base class of every exception class Ka defines, and a containment
  analysis for the classes `interpret.execute` does not name.  `Gen/Exec.lean` is the handler
  structure of `execute` (also from the `ast`).  The theorem below is a kernel `decide` over the
  COMPLETE table: a new `raise ValueError(...)` in a registered function, a new exception class that
  execute does not list, or a handler removed from execute makes it fail at build time.

  What this does NOT cover (the claim stays partial): exceptions raised by the host's library calls
  (TypeError from `max()`, ValueError from `math.log`, …) — those are observed by the kinds × functions
  sweep of the check, not derived.
-/
namespace KaVerif
open Exec Gen.Exec Gen.Raises

/-- does a handler table name class `c` or one of the bases Ka declares for it -/
def catchesClass (parents : List (String × String)) (tbl : List (String × Nat)) : Nat → String → Bool
  | 0, _ => false
  | fuel + 1, c =>
    (tbl.lookup c).isSome ||
      (match parents.lookup c with
       | some p => catchesClass parents tbl fuel p
       | none => false)

/-- the handlers in force for code running in a stage of `execute` (in the evaluation stage
    `eval_parse_tree` first converts ZeroDivisionError / OverflowError) -/
def stageCatches (stage cls : String) : Bool :=
  if stage == "lex" then catchesClass classParents lexCaught 4 cls
  else if stage == "parse" then catchesClass classParents parseCaught 4 cls
  else catchesClass classParents evalCaught 4 (convert evalConverted cls)

/-- Defensive raises that are argued unreachable, each BY NAME (module, function, class) — a new site is
    not covered by these entries:
    * `probability.eval_probability` ends in `raise Exception("… This is a bug")` after an if-chain over
      every `ComparisonOp` member an `Event` can carry (the constructors registered in functions.py
      build events with `<`, `<=`, `=` only);
    * `tokens.Token.meta` raises for a metadata key the token does not carry; the parser reads `value` /
      `name` only from tokens whose tag it has just matched (number, string, instant, identifier);
    * `utils.erfinv` rejects |z| > 1; its only caller passes `2u − 1` with `u = random.random() ∈ [0, 1)`.
    These three are assumptions of the C06 claim (listed in the evidence), exercised by the sweep. -/
def arguedUnreachable : List (String × String × String) :=
  [("probability", "eval_probability", "Exception"), ("tokens", "Token.meta", "Exception"), ("utils", "erfinv", "ValueError")]

/-- a raise site is accounted for -/
def siteCovered (s : String × String × String × String × Bool) : Bool :=
  s.2.2.2.2 || stageCatches s.1 s.2.2.2.1 || (contained.lookup s.2.2.2.1).isSome ||
    arguedUnreachable.contains (s.2.1, s.2.2.1, s.2.2.2.1)

/-- **Every `raise` in Ka's source is caught**: by a `try` of its own function, by the handler list
    of the stage of `interpret.execute` its code runs in (through the base classes Ka declares and
    through `eval_parse_tree`'s conversion), or its class is contained by `try` blocks around every
    call that may raise it; three defensive raises are argued unreachable by name. -/
theorem C06_raise_sites_covered : raiseSites.all siteCovered = true := by
  decide +kernel

/-- the containment analysis leaves no class that reaches `execute` unprotected other than those of the
    argued defensive raises -/
theorem C06_no_unargued_leak :
    leaking.all (fun p => arguedUnreachable.any (fun a => a.2.2 == p.1)) = true := by
  decide +kernel

/-- every argued entry still names an existing raise site (a stale entry is an error, not a free pass) -/
theorem C06_argued_exist :
    arguedUnreachable.all (fun a => raiseSites.any (fun s => (s.2.1, s.2.2.1, s.2.2.2.1) == a)) = true := by
  decide +kernel

/-- non-vacuity: the table is not empty and has sites that need each kind of cover -/
example : raiseSites.length > 40 ∧ raiseSites.any (fun s => s.2.2.2.2) = true ∧
    raiseSites.any (fun s => !s.2.2.2.2 && stageCatches s.1 s.2.2.2.1) = true ∧
    raiseSites.any (fun s => (contained.lookup s.2.2.2.1).isSome) = true := by
  decide +kernel

/-- a class nobody catches is NOT covered (the predicate can fail) -/
example : siteCovered ("eval", "functions", "array_sum", "ValueError", false) = false := by decide +kernel

end KaVerif
