import KaVerif.Lemmas.LexerLemmas
/-
  C11 — lexing is a faithful longest-match segmentation with exact literal values.
  Property theorems only; helper lemmas live in Lemmas/LexerLemmas.lean.

  All theorems quantify over every `List Char` (any length, any characters); the model's character
  classes are Python's on the model alphabet (printable ASCII, ASCII whitespace, € £ ¥ ± μ).
-/
namespace KaVerif
open Lexer

/-- **C11 (segmentation).**  When lexing succeeds, the tokens segment the input: every token is a
    non-empty span `[b, e)` inside the input, spans come left to right without overlap, and every
    position that is not inside a span — before the first token, between two tokens, after the last —
    holds a whitespace character.  So the lexemes `s[b:e]` together with the skipped whitespace are the
    input, exactly.  (`Covers s p toks`: the same, from position `p` on.) -/
theorem C11_spans (s : List Char) (toks : List Token) (h : tokenise s = .ok toks) : Covers s 0 toks :=
  tokenise_covers h

example : tokenise "1 +x".toList = .ok [⟨.num, 0, 1, .num (.int 1)⟩, ⟨.const "+", 2, 3, .none⟩,
    ⟨.var, 3, 4, .name "x"⟩] := by rfl

/-- **C11 (the loop terminates).**  Every token consumes at least one character, so `len(s)` iterations
    of the `while` loop always suffice: the model's "did not terminate" outcome is never produced. -/
theorem C11_total (s : List Char) : tokenise s ≠ .error .outOfFuel := tokenise_fuel s

/-- a token read at `i` starts at `i`, is non-empty and ends inside the input -/
theorem C11_token_span (i : Nat) (s : List Char) (t : Token) (h : readToken i s = .ok (some t)) :
    t.b = i ∧ i < t.e ∧ t.e ≤ s.length := readToken_span h

/-- **C11 (suffix only).**  `read_token(i, s)` depends only on the suffix `s[i:]`: it is the token (or
    error) read at position 0 of the suffix, with indices moved by `i`.  In particular what precedes
    position `i` never influences the token read there. -/
theorem C11_suffix_only (i : Nat) (s : List Char) :
    readToken i s = shiftRes i (readToken 0 (s.drop i)) := readToken_suffix i s

/-- two inputs with the same suffix read the same token there -/
theorem C11_suffix_only' (i j : Nat) (s s' : List Char) (h : s.drop i = s'.drop j) :
    shiftRes j (readToken 0 (s.drop i)) = readToken j s' := by rw [h, ← readToken_suffix]

/-- **C11 (longest match, constant tokens).**  When `read_token` returns the constant token `a` at `i`,
    no longer constant token of the table matches the text at `i`.  Uses the two table facts
    `constTokens_prefixOrdered` ("if A is a proper prefix of B then B comes before A") and
    `alphaTokens_noPrefix`, re-checked by the kernel over the generated table on every run. -/
theorem C11_longest_const (i : Nat) (s : List Char) (t : Token) (a : String)
    (h : readToken i s = .ok (some t)) (ha : t.tag = .const a) :
    ∀ b ∈ Gen.Tokens.constTokens, a.toList.length < b.toList.length → ¬ (b.toList <+: s.drop i) :=
  scanConst_longest constTokens_prefixOrdered alphaTokens_noPrefix (readToken_const_inv h ha) ha

example : readToken 0 "<==".toList = .ok (some ⟨.const "<=", 0, 2, .none⟩) := by rfl

/-- **C11 (constant tokens, converse).**  A constant token `x` of the table that matches at the head of
    `r` (with the keyword boundary test), none of whose proper extensions in the table matches, is the
    token read — provided the dispatch reaches the scan (`r` does not start a string, instant or number). -/
theorem C11_const_complete (r : List Char) (x : String) (hr : reachesConst r) (hx : x ∈ Gen.Tokens.constTokens)
    (hacc : constAccepts Gen.Tokens.alphaTokens 0 r x = true)
    (hnoext : ∀ b ∈ Gen.Tokens.constTokens, properPrefix x b = true → ¬ (b.toList <+: r)) :
    readToken 0 r = .ok (some ⟨.const x, 0, x.toList.length, .none⟩) := readToken_const hr hx hacc hnoext

/-- **C11 (integer literal, in context).**  A non-empty run of decimal digits followed by anything that is
    not a digit, a letter or a point is one number token whose value is the integer
    `Σ dᵢ·10^(n-1-i)` of its digits (`Nat.ofDigits`, least significant first). -/
theorem C11_int_value_ctx (ds rest : List Char) (hne : ds ≠ []) (hd : ∀ c ∈ ds, isDigit c = true)
    (hend : NumEnd rest) :
    readToken 0 (ds ++ rest) =
      .ok (some ⟨.num, 0, ds.length, .num (.int (Nat.ofDigits 10 (ds.reverse.map digitVal) : Nat))⟩) := by
  cases ds with
  | nil => exact absurd rfl hne
  | cons c ds' =>
    rw [List.cons_append, readToken_digit (hd c (by simp)), ← List.cons_append,
      readNumToken_int hne hd hend, digitsVal_eq_ofDigits]

/-- **C11 (integer literal).**  The whole input `ds` lexes to exactly that one token. -/
theorem C11_int_value (ds : List Char) (hne : ds ≠ []) (hd : ∀ c ∈ ds, isDigit c = true) :
    tokenise ds = .ok [⟨.num, 0, ds.length, .num (.int (Nat.ofDigits 10 (ds.reverse.map digitVal) : Nat))⟩] := by
  have h := C11_int_value_ctx ds [] hne hd numEnd_nil
  have := tokenise_tok (l := ds) (rest := []) h rfl
  rw [List.append_nil] at this
  rw [this]; rfl

example : tokenise "0042".toList = .ok [⟨.num, 0, 4, .num (.int 42)⟩] := by rfl

/-- **C11 (based integer literal) — partial.**  `0b`/`0o`/`0x`/`0d` followed by a non-empty run of hexadecimal
    digit characters (and then no further one): when every digit is below the base the token's value is the
    integer of the digits in base 2/8/16/10; otherwise the literal is a `BadNumberError` at its first
    character (`0b12`, `0d1f`).

    Full statement: the same without `hnp`.  What is missing: in the current tree `int(group2, base=2)` swallows
    a second binary prefix, so `0b0b1` is read as the number 1 although `b` is no binary digit (finding
    `lex-value-double-prefix`, fix in fixes/c11-binary-double-prefix.diff).  The translator probes the code for
    this (`Gen.Tokens.intAcceptsBinPrefix`); once the fix is in, the probe is `false`, `hnp` holds by `Or.inl rfl`
    and this theorem is the full statement. -/
theorem C11_based_value_partial (m : Char) (hs rest : List Char) (hm : m = 'x' ∨ m = 'o' ∨ m = 'b' ∨ m = 'd')
    (hne : hs ≠ []) (hh : ∀ c ∈ hs, isHex c = true) (hstop : NoStart isHex rest)
    (hnp : Gen.Tokens.intAcceptsBinPrefix = false ∨ ¬ DoublePrefix m hs) :
    readToken 0 ('0' :: m :: (hs ++ rest)) =
      if hs.all (fun c => digitVal c < baseOf m) then
        .ok (some ⟨.num, 0, 2 + hs.length,
          .num (.int (Nat.ofDigits (baseOf m) (hs.reverse.map digitVal) : Nat))⟩)
      else .error (.badNumber 0) := by
  rw [readToken_digit (by decide), readNumToken_based hm hne hh hstop, basedValue_plain hne hnp]
  by_cases hall : hs.all (fun c => digitVal c < baseOf m) = true
  · simp only [hall, if_true]; rw [digitsVal_eq_ofDigits]
  · simp only [hall, Bool.false_eq_true, if_false]

/-- the hypotheses are satisfiable, for every base letter, whatever the probe says -/
example : ¬ DoublePrefix 'b' "101".toList := by
  intro ⟨_, p, tl, h, _⟩; simp at h
example : ¬ DoublePrefix 'x' "0b1".toList := by intro ⟨h, _⟩; exact absurd h (by decide)

example : baseOf 'b' = 2 ∧ baseOf 'o' = 8 ∧ baseOf 'x' = 16 ∧ baseOf 'd' = 10 := by decide
example : tokenise "0xfF".toList = .ok [⟨.num, 0, 4, .num (.int 255)⟩] := by rfl
example : tokenise "0b12".toList = .error (.badNumber 0) := by rfl
/-- the finding, as the model (= the code) has it today; after the fix the probe is `false` and this reads
    `BadNumberError(0)`. -/
example : Gen.Tokens.intAcceptsBinPrefix = true →
    tokenise "0b0b1".toList = .ok [⟨.num, 0, 5, .num (.int 1)⟩] := by
  intro h
  have hr : readToken 0 ("0b0b1".toList ++ []) = .ok (some ⟨.num, 0, 5, .num (.int 1)⟩) := by
    rw [show "0b0b1".toList ++ [] = '0' :: 'b' :: ("0b1".toList ++ []) from rfl, readToken_digit (by decide),
      readNumToken_based (by simp) (by decide) (by decide) (noStart_nil _)]
    simp [basedValue, h, stripBinPrefix, baseOf, digitsVal, digitVal, isDigit]
  have := tokenise_tok (l := "0b0b1".toList) (rest := []) hr rfl
  rw [List.append_nil] at this
  rw [this]; rfl

/-- **C11 (scientific literal, integer mantissa).**  `m e [+-] k` (digits `ds`, optional sign, digits `es`,
    then no further digit) is one number token with the exact value `M·10^E`: the int `M * 10**E` when
    `E ≥ 0`, the Fraction `M / 10**(-E)` when `E < 0` (kind before `simplify_number`). -/
theorem C11_sci_value (ds es rest : List Char) (sg : Option Char) (hne : ds ≠ [])
    (hd : ∀ c ∈ ds, isDigit c = true) (hsg : sg = none ∨ sg = some '-' ∨ sg = some '+')
    (hene : es ≠ []) (hed : ∀ c ∈ es, isDigit c = true) (hstop : NoStart isDigit rest) :
    let M : Nat := Nat.ofDigits 10 (ds.reverse.map digitVal)
    let K : Nat := Nat.ofDigits 10 (es.reverse.map digitVal)
    let E : Int := if sg = some '-' then -(K : Int) else (K : Int)
    readToken 0 (ds ++ 'e' :: (sg.toList ++ (es ++ rest))) =
      .ok (some ⟨.num, 0, ds.length + (1 + sg.toList.length + es.length),
        .num (if E < 0 then .frac ((M : Int) / ((10 ^ (-E).toNat : Nat) : Rat))
              else .int ((M : Int) * ((10 ^ E.toNat : Nat) : Int)))⟩) := by
  intro M K E
  have hE : expValue sg es = E := by
    simp only [expValue, E, K, digitsVal_eq_ofDigits]
    rcases hsg with rfl | rfl | rfl <;> simp
  cases ds with
  | nil => exact absurd rfl hne
  | cons c ds' =>
    rw [List.cons_append, readToken_digit (hd c (by simp)), ← List.cons_append,
      readNumToken_sci hne hd hsg hene hed hstop, hE, digitsVal_eq_ofDigits]

example := C11_sci_value "15".toList "3".toList [] (some '-') (by decide) (by decide) (by simp) (by decide)
  (by decide) (noStart_nil _)
example : tokenise "1e+06".toList = .ok [⟨.num, 0, 5, .num (.int 1000000)⟩] := by rfl

/-- **C11 (`a..b`).**  Two digit strings around `..` lex as number, range token, number — never as the two
    floats `a.` and `.b`. -/
theorem C11_range_split (a b : List Char) (ha : a ≠ []) (hb : b ≠ [])
    (had : ∀ c ∈ a, isDigit c = true) (hbd : ∀ c ∈ b, isDigit c = true) :
    tokenise (a ++ '.' :: '.' :: b) =
      .ok [⟨.num, 0, a.length, .num (.int (Nat.ofDigits 10 (a.reverse.map digitVal) : Nat))⟩,
           ⟨.const "..", a.length, a.length + 2, .none⟩,
           ⟨.num, a.length + 2, a.length + 2 + b.length,
             .num (.int (Nat.ofDigits 10 (b.reverse.map digitVal) : Nat))⟩] := by
  have h1 : readToken 0 (a ++ '.' :: '.' :: b) =
      .ok (some ⟨.num, 0, a.length, .num (.int ((digitsVal 10 a : Nat) : Int))⟩) := by
    cases a with
    | nil => exact absurd rfl ha
    | cons c a' => rw [List.cons_append, readToken_digit (had c (by simp)), ← List.cons_append,
        readNumToken_dotdot ha had]
  have h2 := readToken_dotdot b
  have h3 := C11_int_value b hb hbd
  have t2 := tokenise_tok (l := ['.', '.']) (rest := b) h2 rfl
  rw [h3] at t2
  have t1 := tokenise_tok (l := a) (rest := '.' :: '.' :: b) h1 rfl
  rw [show ('.' :: '.' :: b) = ['.', '.'] ++ b from rfl, t2] at t1
  rw [show ('.' :: '.' :: b) = ['.', '.'] ++ b from rfl, t1, digitsVal_eq_ofDigits]
  simp [shiftToks, shiftTok]
  omega

example := C11_range_split "12".toList "5".toList (by decide) (by decide) (by decide) (by decide)

/-- **C11 (keywords: the table).**  The alphabetic keywords are exactly `to` and `in`. -/
theorem C11_keywords_table : Gen.Tokens.alphaTokens = ["to", "in"] := alphaTokens_eq

/-- **C11 (keywords).**  `to` / `in` followed by the end of the input or by a character that is not a letter
    is the keyword token; followed by a letter it is not a keyword but the beginning of an identifier, which
    extends over all following identifier characters. -/
theorem C11_keywords (w : String) (hw : w ∈ Gen.Tokens.alphaTokens) (rest : List Char) :
    (rest.head?.any isAlpha = false →
      readToken 0 (w.toList ++ rest) = .ok (some ⟨.const w, 0, w.toList.length, .none⟩))
    ∧ (∀ c tl, rest = c :: tl → isAlpha c = true →
      readToken 0 (w.toList ++ rest) =
        .ok (some ⟨.var, 0, w.toList.length + 1 + (tl.takeWhile isVarChar).length,
          .name (String.ofList (w.toList ++ c :: tl.takeWhile isVarChar))⟩)) :=
  ⟨readToken_keyword hw, fun c tl hr hc => by rw [hr]; exact readToken_keyword_ident hw hc⟩

example : tokenise "3 to m".toList = .ok [⟨.num, 0, 1, .num (.int 3)⟩, ⟨.const "to", 2, 4, .none⟩,
    ⟨.var, 5, 6, .name "m"⟩] := by rfl
example : tokenise "int".toList = .ok [⟨.var, 0, 3, .name "int"⟩] := by rfl

/-- **C11 (string literals close or are reported at the opening quote).**  With a `"` at position `i`, let
    `body` be the text after it and call a position of `body` *closing* when it holds a `"` that is not
    immediately preceded by a backslash (`Unescaped`).  If `k` is the first closing position the token is the
    string `[i, i+k+2)` with value `body[:k]`; if there is no closing position the result is
    `UnclosedStringError(i)`. -/
theorem C11_closing_string (i : Nat) (s : List Char) (h : s[i]? = some '"') :
    (∀ k, Unescaped (s.drop (i + 1)) k → (∀ j, j < k → ¬ Unescaped (s.drop (i + 1)) j) →
        readToken i s = .ok (some ⟨.str, i, i + 1 + k + 1, .text (String.ofList ((s.drop (i + 1)).take k))⟩))
    ∧ ((∀ k, ¬ Unescaped (s.drop (i + 1)) k) → readToken i s = .error (.unclosedString i)) :=
  readToken_string i s h

/-- **C11 (instant literals close or are reported at the opening `#`).** -/
theorem C11_closing_instant (i : Nat) (s : List Char) (h : s[i]? = some '#') :
    (∀ k : Nat, (s.drop (i + 1))[k]? = some '#' → (∀ j : Nat, j < k → (s.drop (i + 1))[j]? ≠ some '#') →
        readToken i s = .ok (some ⟨.inst, i, i + 1 + k + 1, .text (String.ofList ((s.drop (i + 1)).take k))⟩))
    ∧ ((∀ k : Nat, (s.drop (i + 1))[k]? ≠ some '#') → readToken i s = .error (.unclosedInstant i)) :=
  readToken_instant i s h

example : tokenise "1 \"a\\\"b".toList = .error (.unclosedString 2) := by rfl
example : Unescaped "a\\\"b\"".toList 4 ∧ ¬ Unescaped "a\\\"b\"".toList 2 := by simp [Unescaped]
example : tokenise "#a# #".toList = .error (.unclosedInstant 4) := by rfl

/-- **C11 (whitespace insertion).**  If `s` lexes to `toks` and position `j` is not strictly inside a token
    (it is a token boundary, inside a gap, at the start or at/after the end), then `s` with any whitespace `ws`
    inserted at `j` lexes to the same tokens: those that end at or before `j` unchanged, those after `j` with
    their span moved by the length of `ws` (`moveAfter`), tags and values untouched. -/
theorem C11_whitespace_insensitive (s ws : List Char) (j : Nat) (toks : List Token)
    (hws : ∀ c ∈ ws, isSpace c = true) (h : tokenise s = .ok toks) (hj : NotInside toks j) :
    tokenise (s.take j ++ (ws ++ s.drop j)) = .ok (toks.map (moveAfter j ws.length)) :=
  tokenise_ins s ws j toks hws h hj

/-- the same, as the property states it: the sequence of tags and the sequence of values do not change -/
theorem C11_whitespace_tags_values (s ws : List Char) (j : Nat) (toks : List Token)
    (hws : ∀ c ∈ ws, isSpace c = true) (h : tokenise s = .ok toks) (hj : NotInside toks j) :
    ∃ toks', tokenise (s.take j ++ (ws ++ s.drop j)) = .ok toks'
      ∧ toks'.map (·.tag) = toks.map (·.tag) ∧ toks'.map (·.val) = toks.map (·.val) := by
  refine ⟨_, C11_whitespace_insensitive s ws j toks hws h hj, ?_, ?_⟩
  · rw [List.map_map]; apply List.map_congr_left; intro t _
    simp only [Function.comp, moveAfter]; split <;> rfl
  · rw [List.map_map]; apply List.map_congr_left; intro t _
    simp only [Function.comp, moveAfter]; split <;> rfl

example : NotInside [⟨.num, 0, 1, .num (.int 1)⟩, ⟨.const "..", 1, 3, .none⟩] 1 := by
  intro t ht; simp at ht; rcases ht with rfl | rfl <;> simp

end KaVerif
