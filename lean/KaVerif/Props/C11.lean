import KaVerif.Model.Lexer
namespace KaVerif
end KaVerif
