import KaVerif.Model.Comb
import KaVerif.Gen.CombBodies
/-
  BODIES (lazy combinatorics) — the methods of `IntRange`, the constructor of `Combinatoric` and the two constructors
  `lazy_factorial` / `lazy_choose`, TRANSLATED from the Python source (`Gen/CombBodies.lean`, translate/gen_combbodies.py,
  regenerated on every check run of C05), ARE the definitions of the hand-written model `Model/Comb.lean` that the C05 theorems
  are about.  A change to one of these Python methods changes the generated definition and its theorem here stops checking.

  The generated module has its own structures (`Gen.CombBodies.IntRange`, `…Combinatoric`: the attributes `__init__` assigns);
  `toM` / `toMC` / `toMV` carry them to the model's.  What the translator refuses (`Gen.CombBodies.refused`: `Combinatoric.mul`,
  `Combinatoric.resolve` — `while` loops over lists mutated in place —, string formatting, `fraction_divide`) stays tied to the
  code by the correspondence streams of C05 only.  No Mathlib.
-/
namespace KaVerif
open KaVerif.Comb

namespace CombBodies
/-- a translated `IntRange` object as the model's -/
def toM (r : Gen.CombBodies.IntRange) : IntRange := ⟨r.lo, r.hi⟩
def toML (l : List Gen.CombBodies.IntRange) : List IntRange := l.map toM
/-- a translated `Combinatoric` object as the model's -/
def toMC (c : Gen.CombBodies.Combinatoric) : Combinatoric := ⟨toML c.ns, toML c.ds⟩
/-- what `lazy_factorial` / `lazy_choose` return: a Python int or a Combinatoric -/
def toMV : Int ⊕ Gen.CombBodies.Combinatoric → CVal
  | .inl k => .num (.int k)
  | .inr c => .comb (toMC c)
/-- equality of `CVal`s as a decidable statement about their parts (`CVal` holds `Num`, which has floats) -/
def sameV : CVal → CVal → Prop
  | .num (.int a), .num (.int b) => a = b
  | .comb a, .comb b => a = b
  | _, _ => False
end CombBodies
open CombBodies

/-- `IntRange.copy` builds the same range -/
theorem BODIES_comb_copy (r : Gen.CombBodies.IntRange) : toM (Gen.CombBodies.IntRange.copy r) = toM r := rfl

/-- `IntRange.is_empty` is the model's `isEmpty` -/
theorem BODIES_comb_is_empty (r : Gen.CombBodies.IntRange) :
    Gen.CombBodies.IntRange.is_empty r = (toM r).isEmpty := rfl

/-- `IntRange.intersects` is the model's `intersects` -/
theorem BODIES_comb_intersects (a b : Gen.CombBodies.IntRange) :
    Gen.CombBodies.IntRange.intersects a b = (toM a).intersects (toM b) := rfl

/-- **`IntRange.difference`** (range subtraction / cancellation, the five branches in the code's order) is the model's
    `IntRange.difference` — both remainders, on every pair of ranges (empty and reversed ones included) -/
theorem BODIES_comb_difference (a b : Gen.CombBodies.IntRange) :
    (toML (Gen.CombBodies.IntRange.difference a b).1, toML (Gen.CombBodies.IntRange.difference a b).2)
      = (toM a).difference (toM b) := by
  obtain ⟨alo, ahi⟩ := a
  obtain ⟨blo, bhi⟩ := b
  simp only [Gen.CombBodies.IntRange.difference, IntRange.difference, toM, toML, Bool.or_eq_true, Bool.and_eq_true,
    decide_eq_true_eq]
  by_cases h1 : ahi < blo ∨ bhi < alo
  · simp only [h1, if_true, List.map_cons, List.map_nil, toM]
  · simp only [h1, if_false]
    by_cases h2 : alo ≤ blo ∧ bhi ≤ ahi
    · simp only [h2, and_self, if_true]
      by_cases h3 : alo < blo <;> by_cases h4 : bhi < ahi <;>
        simp only [h3, h4, if_true, if_false, List.map_cons, List.map_nil, List.append_nil, List.nil_append,
          List.cons_append, toM]
    · simp only [h2, if_false]
      by_cases h5 : blo ≤ alo ∧ ahi ≤ bhi
      · simp only [h5, and_self, if_true]
        by_cases h3 : blo < alo <;> by_cases h4 : ahi < bhi <;>
          simp only [h3, h4, if_true, if_false, List.map_cons, List.map_nil, List.append_nil, List.nil_append,
            List.cons_append, toM]
      · simp only [h5, if_false]
        by_cases h6 : blo ≤ alo <;> simp only [h6, if_true, if_false, List.map_cons, List.map_nil, toM]

/-- `Combinatoric(ns=…, ds=…)` stores the two lists as given (`x if x else []` is the identity on lists), and `[]` for a
    parameter left out -/
theorem BODIES_comb_init (ns ds : List Gen.CombBodies.IntRange) :
    Gen.CombBodies.Combinatoric.init (some ns) (some ds) = ⟨ns, ds⟩ ∧
    Gen.CombBodies.Combinatoric.init (some ns) none = ⟨ns, []⟩ ∧
    Gen.CombBodies.Combinatoric.init none none = ⟨[], []⟩ := by
  refine ⟨?_, ?_, rfl⟩ <;> cases ns <;> cases ds <;> rfl

/-- **`lazy_factorial`** is the model's `lazyFactorial`: the int `1` below 2, else the Combinatoric `{[2,n]; }` -/
theorem BODIES_comb_lazy_factorial (n : Int) : sameV (toMV (Gen.CombBodies.lazy_factorial n)) (lazyFactorial n) := by
  simp only [Gen.CombBodies.lazy_factorial, lazyFactorial, decide_eq_true_eq]
  by_cases h : n < 2
  · simp only [h, if_true, toMV, sameV]
  · simp only [h, if_false, toMV, sameV]
    rfl

/-- **`lazy_choose`** is the model's `lazyChoose`: `0` outside `0 ≤ k ≤ n`, else `{[2,n]; [2,k] [2,n−k]}` without the empty
    ranges -/
theorem BODIES_comb_lazy_choose (n k : Int) : sameV (toMV (Gen.CombBodies.lazy_choose n k)) (lazyChoose n k) := by
  simp only [Gen.CombBodies.lazy_choose, lazyChoose, Bool.or_eq_true, decide_eq_true_eq]
  by_cases h : (k > n ∨ n < 0) ∨ k < 0
  · have h' : k > n ∨ n < 0 ∨ k < 0 := by rcases h with (h | h) | h <;> simp [h]
    simp only [h, h', if_true, toMV, sameV]
  · have h' : ¬ (k > n ∨ n < 0 ∨ k < 0) := fun hh => h (by rcases hh with hh | hh | hh <;> simp [hh])
    simp only [h, h', if_false, toMV, sameV]
    have hf : ∀ l : List Gen.CombBodies.IntRange,
        toML (List.filter (fun r => !Gen.CombBodies.IntRange.is_empty r) l) = (toML l).filter (fun r => !r.isEmpty) := by
      intro l
      induction l with
      | nil => rfl
      | cons x xs ih =>
        simp only [toML, List.filter_cons, List.map_cons] at ih ⊢
        rw [show Gen.CombBodies.IntRange.is_empty x = (toM x).isEmpty from rfl]
        cases (toM x).isEmpty <;> simp [ih]
    by_cases h2 : n < 2
    · simp only [h2, if_true, toMC, (BODIES_comb_init _ _).1, hf]
      rfl
    · simp only [h2, if_false, toMC, (BODIES_comb_init _ _).1, hf]
      rfl

/-- the translator's account of itself: what it rendered and what it refused (a change of this list is visible here) -/
theorem BODIES_comb_coverage :
    Gen.CombBodies.translated = ["IntRange.copy", "IntRange.is_empty", "IntRange.intersects", "IntRange.difference",
      "Combinatoric.__init__", "lazy_factorial", "lazy_choose"] ∧
    Gen.CombBodies.refused.map (·.1) = ["IntRange.__str__", "Combinatoric.value", "Combinatoric.mul", "Combinatoric.resolve",
      "Combinatoric.__eq__", "Combinatoric.__repr__", "Combinatoric.__str__", "fraction_divide"] := by
  constructor <;> rfl

/-! ### non-vacuity: concrete ranges through the translated method -/

/-- `[2,10].difference([4,6]) = ([2,3] [7,10]; )`, `[2,5].difference([4,8]) = ([2,3]; [6,8])` -/
example : Gen.CombBodies.IntRange.difference ⟨2, 10⟩ ⟨4, 6⟩ = ([⟨2, 3⟩, ⟨7, 10⟩], []) ∧
    Gen.CombBodies.IntRange.difference ⟨2, 5⟩ ⟨4, 8⟩ = ([⟨2, 3⟩], [⟨6, 8⟩]) := by decide
example : toMV (Gen.CombBodies.lazy_choose 5 2) = .comb ⟨[⟨2, 5⟩], [⟨2, 2⟩, ⟨2, 3⟩]⟩ := by rfl

end KaVerif
