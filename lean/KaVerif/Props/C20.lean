import Mathlib.Tactic.FieldSimp
import Mathlib.Tactic.Ring
import KaVerif.Lemmas.CurrencyLemmas
import KaVerif.Props.C19
/-
  C20 — currency conversion is table-consistent and independent of the configured base currency.

  Conversions are the arithmetic of `make_quantity` / `convert_quantity` over the multiples the registration
  loop computes (`base.dollar_rate / c.dollar_rate`), over exact rationals (float rounding is not modelled; the
  check compares the real results at 1e-9 relative).  The export writer and `parse_currency_data` are
  composed with `str(float)`/`float(str)` abstract and assumed inverse on the table's rates (hypothesis `RowOk`).
-/
namespace KaVerif
open KaVerif.UserFiles KaVerif.Currency

/-- **C20, clause "x A to B = x · rate(B)/rate(A)"**: whatever row is the base (non-zero rate), converting `x`
    from the currency of row `A` to that of row `B` multiplies by `rate B / rate A`. -/
theorem C20_formula (base A B : Cur) (x : Rat) (hb : rateQ base ≠ 0) (hA : rateQ A ≠ 0) (hB : rateQ B ≠ 0) :
    convert base A B x = x * rateQ B / rateQ A := by
  unfold convert convertQuantity makeQuantity unitMultiple
  rw [compose_eq, compose_eq]
  field_simp
  ring

/-- **C20, clause "converting A to B and back returns x"**. -/
theorem C20_roundtrip (base A B : Cur) (x : Rat) (hb : rateQ base ≠ 0) (hA : rateQ A ≠ 0) (hB : rateQ B ≠ 0) :
    convert base B A (convert base A B x) = x := by
  rw [C20_formula base A B x hb hA hB, C20_formula base B A _ hb hB hA]
  field_simp

/-- **C20, clause "A to B to C equals A to C"**. -/
theorem C20_triangle (base A B C : Cur) (x : Rat) (hb : rateQ base ≠ 0) (hA : rateQ A ≠ 0) (hB : rateQ B ≠ 0)
    (hC : rateQ C ≠ 0) : convert base B C (convert base A B x) = convert base A C x := by
  rw [C20_formula base A B x hb hA hB, C20_formula base B C _ hb hB hC, C20_formula base A C x hb hA hC]
  field_simp

/-- **C20, clause "the result does not depend on which currency is configured as the base"**: any two base
    rows with non-zero rates give the same conversion. -/
theorem C20_base_independent (base base' A B : Cur) (x : Rat) (hb : rateQ base ≠ 0) (hb' : rateQ base' ≠ 0)
    (hA : rateQ A ≠ 0) (hB : rateQ B ≠ 0) : convert base A B x = convert base' A B x := by
  rw [C20_formula base A B x hb hA hB, C20_formula base' A B x hb' hA hB]

/-- **C20 on the registered units** (the registration loop with its name/symbol clash rules, any table):
    if the units named `A` and `B` were registered by the loop over table `t`, they denote rows `rowA`, `rowB`
    OF THAT TABLE, and `x A to B` is `x · rate(rowB)/rate(rowA)` — under the base currency `b` and equally
    under any other base currency `b'` present in the table with a positive rate. -/
theorem C20_table_consistent (nfkd : Str → Str) (sn ss : List (Str × Str)) (t : Table) (units0 reg : Reg) (b b' A B : Str) (x : Rat)
    (base base' rowA rowB : Cur)
    (hfin : ∀ c ∈ t, ∃ q, c.rate = .fin q)
    (h0 : units0.units = [])
    (hreg : registerAll nfkd sn ss units0 t = .ok reg)
    (hb : baseRow t b = some base) (hbp : base.rate.pos = true)
    (hb' : baseRow t b' = some base') (hbp' : base'.rate.pos = true)
    (hA : lookupCash reg A = some rowA) (hB : lookupCash reg B = some rowB) :
    rowA ∈ t ∧ rowB ∈ t ∧
    convertUnits t reg b A B x = some (x * rateQ rowB / rateQ rowA) ∧
    convertUnits t reg b' A B x = convertUnits t reg b A B x := by
  have hu := registerAll_units nfkd sn ss t units0 reg hreg
  have hrow : ∀ u row, lookupCash reg u = some row → row ∈ t ∧ row.rate.pos = true := by
    intro u row h
    obtain ⟨e, he, rfl⟩ := lookupCash_mem reg u row h
    rcases hu e he with h' | h'
    · rw [h0] at h'; cases h'
    · exact h'
  obtain ⟨hAt, hAp⟩ := hrow A rowA hA
  obtain ⟨hBt, hBp⟩ := hrow B rowB hB
  have hbt : base ∈ t := List.mem_of_find?_eq_some hb
  have hbt' : base' ∈ t := List.mem_of_find?_eq_some hb'
  have nA := rateQ_ne_zero rowA (hfin _ hAt) hAp
  have nB := rateQ_ne_zero rowB (hfin _ hBt) hBp
  have nb := rateQ_ne_zero base (hfin _ hbt) hbp
  have nb' := rateQ_ne_zero base' (hfin _ hbt') hbp'
  refine ⟨hAt, hBt, ?_, ?_⟩
  · simp only [convertUnits, hb, hA, hB, C20_formula base rowA rowB x nb nA nB]
  · simp only [convertUnits, hb, hb', hA, hB, C20_base_independent base' base rowA rowB x nb' nb nA nB]

/-- **C20, clause "a table file written by Ka's own export is read back identically"**: for a non-empty table
    whose symbols, names and printed rates contain no `,`, `\n`, `\r` and whose printed rates are read back by
    `float()` (CPython's repr/float round trip — trusted), `parse_currency_data` of the writer's text is the table. -/
theorem C20_export_import (readRate : Str → Option Rate) (showRate : Rate → Str) (t : Table) (hne : t ≠ [])
    (hrows : ∀ c ∈ t, RowOk readRate showRate c) :
    parseCurrencyData readRate (exportTable showRate t) = .ok (some t) :=
  parse_export readRate showRate t hne hrows

/-- **C20, clause "… and is the one used for conversions"**: start-up with the currency path holding the
    writer's text for table `t` (whatever the config and history files are) runs with exactly `t`, marks it as the
    file's table, and every currency unit it registers comes from a row of `t` with a positive rate — so by
    `C20_table_consistent` every conversion uses `t`'s rates, not the built-in ones. -/
theorem C20_loaded_table_used (py : Py) (showRate : Rate → Str) (t dflt : Table) (hne : t ≠ [])
    (hrows : ∀ c ∈ t, RowOk py.readRate showRate c)
    (file : List UInt8) (hdec : py.decodeStrict file = some (exportTable showRate t))
    (units0 : Reg) (cfg hist : FState) (mode : Mode)
    (hdef : parseCurrencyData py.readRate genConsts.defaultCurrencyText = .ok (some dflt)) :
    ∃ r, startup genGuard py genConsts units0 cfg (.bytes file) hist mode = .ok r ∧
      r.table = t ∧ r.fileTableUsed = true ∧
      (∀ e ∈ r.reg.units, e ∈ units0.units ∨ (e.2.2 ∈ t ∧ e.2.2.rate.pos = true)) := by
  obtain ⟨r, hr, _, h2, h3, _, h5, _⟩ := C19_startup py dflt units0 cfg (.bytes file) hist mode hdef
  have hcr : cCR ∉ exportTable showRate t := by
    apply export_no_cr
    intro c hc
    obtain ⟨⟨_, _, a3⟩, ⟨_, _, b3⟩, ⟨_, _, c3⟩, _⟩ := hrows c hc
    exact rowText_no showRate c cCR (by decide) a3 b3 c3
  have hft : C19.fileTable py (.bytes file) = some t := by
    simp only [C19.fileTable, hdec, translateNewlines_id _ hcr, parse_export py.readRate showRate t hne hrows]
  rw [hft] at h2 h3
  refine ⟨r, hr, h2, h3, ?_⟩
  intro e he
  cases hb : r.base with
  | none =>
    rw [hb] at h5
    simp only at h5
    rw [h5] at he
    exact Or.inl he
  | some bsym =>
    rw [hb] at h5
    simp only at h5
    have := registerAll_units _ _ _ _ _ _ h5 e he
    rw [h2] at this
    exact this

/-! ## Non-vacuity -/

/-- a concrete table: usd 1, eur 2, gbp 4 -/
def C20.demo : Table :=
  [⟨[117, 115, 100], [100], .fin 1⟩, ⟨[101, 117, 114], [101], .fin 2⟩, ⟨[103, 98, 112], [112], .fin 4⟩]

/-- the hypotheses of `C20_table_consistent` hold for the demo table (registration from nothing with the real
    special names/signs; bases eur and usd are rows with positive rates; `usd` and `gbp` resolve to registered
    units), and `7 usd to gbp = 28` under both bases -/
def C20.demoOk : Bool :=
  match registerAll id genConsts.specialNames genConsts.specialSymbols ⟨[], [], []⟩ C20.demo,
      baseRow C20.demo [101, 117, 114], baseRow C20.demo [117, 115, 100] with
  | .ok reg, some b, some b' =>
    b.rate.pos && b'.rate.pos && (lookupCash reg [117, 115, 100]).isSome && (lookupCash reg [103, 98, 112]).isSome &&
      decide (convertUnits C20.demo reg [101, 117, 114] [117, 115, 100] [103, 98, 112] 7 = some 28) &&
      decide (convertUnits C20.demo reg [117, 115, 100] [117, 115, 100] [103, 98, 112] 7 = some 28)
  | _, _, _ => false

example : C20.demoOk = true := by decide +kernel

/-- `RowOk` is satisfiable: a printer/reader pair for the demo table, and the round trip through the writer -/
example : ∃ (showRate : Rate → Str) (readRate : Str → Option Rate), (∀ c ∈ C20.demo, RowOk readRate showRate c) ∧
    parseCurrencyData readRate (exportTable showRate C20.demo) = .ok (some C20.demo) := by
  let showRate : Rate → Str := fun r => if r = .fin 1 then [49] else if r = .fin 2 then [50] else [52]
  let readRate : Str → Option Rate := fun s =>
    if s = [49] then some (.fin 1) else if s = [50] then some (.fin 2) else if s = [52] then some (.fin 4) else none
  have h : ∀ c ∈ C20.demo, RowOk readRate showRate c := by
    intro c hc
    simp only [C20.demo, List.mem_cons, List.mem_nil_iff, or_false] at hc
    rcases hc with rfl | rfl | rfl <;>
      exact ⟨⟨by decide, by decide, by decide⟩, ⟨by decide, by decide, by decide⟩,
        ⟨by decide +kernel, by decide +kernel, by decide +kernel⟩, by decide +kernel⟩
  exact ⟨showRate, readRate, h, C20_export_import readRate showRate C20.demo (by decide) h⟩

end KaVerif
