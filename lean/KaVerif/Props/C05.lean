import KaVerif.Lemmas.CombLemmas
/-
  C05 — lazy combinatorics never changes a value.
  Property theorems only; helper lemmas live in Lemmas/CombLemmas.lean, the overload table in
  Props/C05Table.lean.  All statements are about the model Model/Comb.lean (namespace KaVerif.Comb).

  Vocabulary:  `elems r` = the integers `r.lo … r.hi` ascending (C05_range_meaning pins this down),
  `prod r` / `prodL l` = product of a range / of a list of ranges, `c.val = prodL c.ns / prodL c.ds`,
  `NonEmptyL l` = every range has `lo ≤ hi` (the only ranges the code builds: `[2,n]` with `n ≥ 2`,
  `[x,x]`, and remainders of those), `NoZeroL l` = no range contains 0,
  `Sem v q` = the value `v` (plain number or lazy) stands for the rational `q`.
-/
namespace KaVerif
open Num Comb Comb.IntRange

/-- meaning of a range: every integer of `lo..hi` exactly once, nothing else -/
theorem C05_range_meaning (r : IntRange) (x : Int) :
    (elems r).count x = if r.lo ≤ x ∧ x ≤ r.hi then 1 else 0 :=
  count_elems r x

/-- **C05 (range subtraction moves factors, never loses or invents one).**  For non-empty ranges
    `a`, `b` in every one of the 13 Allen relations (intersecting or not):
    `elements(a) ⊎ elements(rem_b) = elements(b) ⊎ elements(rem_a)` as multisets. -/
theorem C05_difference (a b : IntRange) (ha : a.isEmpty = false) (hb : b.isEmpty = false) :
    (elems a ++ elemsL (a.difference b).2).Perm (elems b ++ elemsL (a.difference b).1) := by
  simp only [isEmpty, decide_eq_false_iff_not, gt_iff_lt, not_lt] at ha hb
  exact difference_perm a b ha hb

/-- **C05 (range subtraction, product form, as `mul` uses it).**  For intersecting non-empty ranges:
    `∏a · ∏rem_b = ∏b · ∏rem_a`; every remainder is a non-empty sub-range of its origin (so no zero can
    appear in a denominator that had none); and the pending work strictly shrinks
    (`measure` = Σ (2·size + 1) over the ranges pushed back on the work list). -/
theorem C05_difference_prod (a b : IntRange) (ha : a.isEmpty = false) (hb : b.isEmpty = false)
    (hi : a.intersects b = true) :
    a.prod * prodL (a.difference b).2 = b.prod * prodL (a.difference b).1 ∧
    NonEmptyL (a.difference b).1 ∧ NonEmptyL (a.difference b).2 ∧
    (∀ r ∈ (a.difference b).1, a.lo ≤ r.lo ∧ r.hi ≤ a.hi) ∧
    (∀ r ∈ (a.difference b).2, b.lo ≤ r.lo ∧ r.hi ≤ b.hi) ∧
    Combinatoric.measure (a.difference b).2 < Combinatoric.measure [b] := by
  simp only [isEmpty, decide_eq_false_iff_not, gt_iff_lt, not_lt] at ha hb
  obtain ⟨f1, f2, f3, f4, f5⟩ := difference_facts a b ha hb hi
  refine ⟨difference_prod a b ha hb, f1, f2, f3, f4, ?_⟩
  simpa [Combinatoric.measure] using f5

/-- the Allen relation that used to be broken (other starts before self and ends inside it) -/
example : (⟨5, 10⟩ : IntRange).difference ⟨2, 7⟩ = ([⟨8, 10⟩], [⟨2, 4⟩]) := by decide
example : (⟨5, 10⟩ : IntRange).intersects ⟨2, 7⟩ = true ∧ (⟨5, 10⟩ : IntRange).isEmpty = false
    ∧ (⟨2, 7⟩ : IntRange).isEmpty = false := by decide
/-- … and the mirror case, containment both ways, single points -/
example : (⟨2, 7⟩ : IntRange).difference ⟨5, 10⟩ = ([⟨2, 4⟩], [⟨8, 10⟩]) := by decide
example : (⟨2, 10⟩ : IntRange).difference ⟨4, 4⟩ = ([⟨2, 3⟩, ⟨5, 10⟩], []) := by decide
example : (⟨4, 4⟩ : IntRange).difference ⟨2, 10⟩ = ([], [⟨2, 3⟩, ⟨5, 10⟩]) := by decide

/-- **C05 (`Combinatoric.mul` is value-preserving, rejects a zero divisor, and terminates).**
    For a Combinatoric and new factor lists whose ranges are all non-empty:
    * if some denominator range (old or new) contains 0, the result is the division-by-zero error —
      a zero divisor is never cancelled against a zero factor;
    * otherwise the work-list loop finishes within the fuel `measure ds + 1` (the result is `.ok`, never
      `.error .diverges`; each step strictly decreases `measure`), every range of the result is non-empty, its
      denominator contains no zero, and its value is exactly `∏(ns ++ new_ns) / ∏(ds ++ new_ds)`. -/
theorem C05_mul (c : Combinatoric) (ns ds : List IntRange)
    (h1 : NonEmptyL c.ns) (h2 : NonEmptyL c.ds) (h3 : NonEmptyL ns) (h4 : NonEmptyL ds) :
    (¬ NoZeroL (c.ds ++ ds) → c.mul ns ds = .error .divZero) ∧
    (NoZeroL (c.ds ++ ds) →
      ∃ r, c.mul ns ds = .ok r ∧ Good r ∧
        r.val = (prodL (c.ns ++ ns) : Rat) / (prodL (c.ds ++ ds) : Rat)) := by
  refine ⟨mul_zero_divisor c ns ds, fun hz => ?_⟩
  obtain ⟨r, hr, g1, g2, g3, hp⟩ := mul_ok c ns ds h1 h2 h3 h4 hz
  exact ⟨r, hr, ⟨g1, g2, g3⟩, val_of_mul_eq (prodL_ne_zero hz) g3 hp⟩

/-- non-vacuity: `10!/4!` times `1/7!` — the case that used to give 1 -/
example : (⟨[⟨2, 10⟩], [⟨2, 4⟩]⟩ : Combinatoric).mul [] [⟨2, 7⟩] = .ok ⟨[⟨8, 10⟩], [⟨2, 4⟩]⟩ := by decide
example : (⟨[⟨2, 5⟩, ⟨0, 0⟩], []⟩ : Combinatoric).mul [] [⟨2, 5⟩, ⟨0, 0⟩] = .error .divZero := by decide

/-- **C05 (`resolve` returns the canonical exact value).**  When every denominator range is non-empty and
    none contains 0, `resolve` (multiply from the top of each numerator range, divide by the smallest
    remaining denominator when divisible, final `Fraction`, `simplify_type`) returns exactly
    `∏ns / ∏ds`, as an `int` when integral and as a reduced `Fraction` otherwise. -/
theorem C05_resolve (c : Combinatoric) (hne : NonEmptyL c.ds) (hz : NoZeroL c.ds) :
    c.resolve = .ok (canon ((prodL c.ns : Rat) / (prodL c.ds : Rat))) :=
  resolve_spec c hne hz

/-- **C05 (whatever receives a lazy value as a number receives the exact canonical value).**
    `coerce_to(x, Number)` (every parameter declared `Number`, see `C05_dispatch_table`),
    `reduce_result` (top level) and `resolve_lazy` (array elements, comprehension outputs, magnitudes under
    a unit) deliver `canon q` for a value that stands for `q`. -/
theorem C05_coerce (v : CVal) (q : Rat) (h : Sem v q) :
    coerceNumber v = .ok (canon q) ∧ reduce v = .ok (canon q) :=
  ⟨coerceNumber_sem h, coerceNumber_sem h⟩

/-- **C05 (`n!`).**  For every integer `n` (negative, 0, 1 included — all give 1) the lazy factorial stands
    for `Nat.factorial n` and is delivered as that integer. -/
theorem C05_factorial (n : Int) :
    Sem (lazyFactorial n) ((n.toNat.factorial : Nat) : Rat) ∧
    reduce (lazyFactorial n) = .ok (.int (n.toNat.factorial : Nat)) := by
  refine ⟨lazyFactorial_sem n, ?_⟩
  show coerceNumber (lazyFactorial n) = _
  rw [coerceNumber_sem (lazyFactorial_sem n)]
  exact congrArg Except.ok (canon_of_intCast_eq _ _ (by simp))

/-- **C05 (`C(n,k)`).**  For all integers `n`, `k` the lazy binomial coefficient stands for
    `Nat.choose n k`, and for 0 when `n < 0` or `k < 0` (`k > n` is 0 by `Nat.choose`). -/
theorem C05_choose (n k : Int) :
    Sem (lazyChoose n k) (if n < 0 ∨ k < 0 then 0 else ((n.toNat.choose k.toNat : Nat) : Rat)) ∧
    reduce (lazyChoose n k) = .ok (.int (if n < 0 ∨ k < 0 then 0 else (n.toNat.choose k.toNat : Nat))) := by
  refine ⟨lazyChoose_sem n k, ?_⟩
  show coerceNumber (lazyChoose n k) = _
  rw [coerceNumber_sem (lazyChoose_sem n k)]
  refine congrArg Except.ok (canon_of_intCast_eq _ _ ?_)
  split <;> simp

example : reduce (lazyChoose 5 7) = .ok (.int 0) ∧ reduce (lazyChoose (-2) 1) = .ok (.int 0) := by
  constructor
  · rw [(C05_choose 5 7).2]; rfl
  · rw [(C05_choose (-2) 1).2]; rfl

/-- the eager meaning `eager` of Model/Comb.lean really is big-integer arithmetic:
    its factorial and binomial coefficient are Mathlib's -/
theorem C05_eager_is_bigint : (∀ n, factN n = n.factorial) ∧ (∀ n k, chooseN n k = n.choose k) :=
  ⟨factN_eq, chooseN_eq⟩

/-- **C05 (expression trees).**  For every tree over `n!`, `C(n,k)`, integers, `m e±k` literals, `*` and `/`
    in any nesting, the value delivered by evaluation (`dispatch` per node, `reduce_result` at the end) is
    exactly the canonical form of the eager big-integer value; and when the eager reading divides by zero
    anywhere, evaluation reports the division-by-zero error and never a value. -/
theorem C05_expr (e : CExp) :
    evalTop e = match eager e with
      | some q => .ok (canon q)
      | none => .error .divZero := by
  obtain ⟨h1, h2⟩ := evalC_sem e
  cases he : eager e with
  | none => simp only [evalTop, h2 he]
  | some q =>
    obtain ⟨v, hv, sv⟩ := h1 q he
    simp only [evalTop, hv, reduce, coerceNumber_sem sv]

/-- non-vacuity: `10!/4!/7!` (used to be 1), `6!/3` (used to be a float ratio), `(0·5!)/(0·5!)` (used to be 1) -/
example : eager (.div (.div (.fact 10) (.fact 4)) (.fact 7)) = some 30 := by decide +kernel
example : evalTop (.div (.div (.fact 10) (.fact 4)) (.fact 7)) = .ok (.int 30) := by
  rw [C05_expr]
  have : eager (.div (.div (.fact 10) (.fact 4)) (.fact 7)) = some 30 := by decide +kernel
  rw [this]; exact congrArg Except.ok (canon_of_intCast_eq 30 30 (by norm_num))
example : evalTop (.div (.mul (.int 0) (.fact 5)) (.mul (.int 0) (.fact 5))) = .error .divZero := by
  rw [C05_expr]
  have : eager (.div (.mul (.int 0) (.fact 5)) (.mul (.int 0) (.fact 5))) = none := by decide +kernel
  rw [this]

end KaVerif
