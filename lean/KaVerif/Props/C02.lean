import KaVerif.Lemmas.ParserLemmas
import KaVerif.Lemmas.ParserWFLemmas
/-
  C02 — expressions group exactly as the documented precedence and associativity.

  Model: `Model/Parser.lean` (`parse`, the recursive descent of src/ka/parse.py, function by
  function), `Model/Render.lean` (`renderMin`: only the parentheses the rules require,
  `renderFull`: every sub-expression parenthesised, `Ast.WF`: the trees the grammar can produce).
  All three stages of the proof plan (DESIGN.md, C02) are done: the round trip is proved for
  every constructor of `Ast`.
-/
namespace KaVerif
open KaVerif.Parser

/-- **Round trip.**  For every program tree the grammar can produce, the text with only the
    parentheses the precedence/associativity table requires and the fully parenthesised text both
    parse to exactly that tree.  The table is `Ast.level` + `rNat` in Model/Render.lean: tightest
    first postfix `!` (operand: a primary), a single unary sign, unit attachment, `..` (non-assoc),
    `^`, `* / %`, `+ - ±`, at most two comparisons (with `make_comparison_node`'s flipping of
    backward operators), `to`; all binary levels left-associative; function calls with positional
    then keyword arguments, arrays, comprehensions (generators before conditions), intervals,
    strings, instants, `;`-separated statements and assignment. -/
theorem C02_roundtrip (t : Ast) (h : t.WF) :
    parse (renderMin t) = .ok t ∧ parse (renderFull t) = .ok t := by
  cases t with
  | stmts ss =>
    constructor
    · exact parse_of_parseToks (roundtrip_toks noExtra ss (fun s hs => stmtOK_of_wf noExtra (h s hs)))
    · exact parse_of_parseToks (roundtrip_toks allExtra ss (fun s hs => stmtOK_of_wf allExtra (h s hs)))
  | _ => exact absurd h (by simp [Ast.WF])

/-- **Redundant parentheses.**  Take any set of sub-expressions (`extra`) and put parentheses
    around every occurrence of them in addition to the required ones: the text still parses to the
    same tree.  (`renderMin` is `extra = ∅`, `renderFull` is `extra = everything`.) -/
theorem C02_redundant_parens (t : Ast) (h : t.WF) (extra : Ast → Bool) :
    parse (renderWith extra t) = .ok t := by
  cases t with
  | stmts ss => exact parse_of_parseToks (roundtrip_toks extra ss (fun s hs => stmtOK_of_wf extra (h s hs)))
  | _ => exact absurd h (by simp [Ast.WF])

/-- Minimal and full parenthesisation denote the same tree (the clause of the property as worded:
    "parses to the same tree as the fully parenthesised text"); evaluation is a function of the
    tree, so both evaluate to the same value. -/
theorem C02_min_eq_full (t : Ast) (h : t.WF) : parse (renderMin t) = parse (renderFull t) := by
  rw [(C02_roundtrip t h).1, (C02_roundtrip t h).2]

private theorem wf_single {s : Ast} (h : wfS s = true) : (Ast.stmts [s]).WF := by
  intro y hy; simp at hy; subst hy; exact h

private theorem wf_pair {s1 s2 : Ast} (h1 : wfS s1 = true) (h2 : wfS s2 = true) : (Ast.stmts [s1, s2]).WF := by
  intro y hy; simp at hy; rcases hy with rfl | rfl <;> assumption

private theorem rAt_bare {t : Ast} {ℓ : Nat} (h : ℓ ≤ t.level) : rAt noExtra ℓ t = rNat noExtra t := by
  simp [rAt, wrap, h]

/-- **Assignment versus comparison.**  The tokens `x = e` at the start of a statement (also after a
    `;`) are the assignment of `e` to `x`; the very same tokens inside parentheses are a comparison
    node labelled "=" with operands `x` and `e`.  (`e`: any expression that can be a comparison
    operand without parentheses.) -/
theorem C02_assign_vs_compare (x y : String) (e : Ast) (he : wfE e = true) (hl : 2 ≤ e.level) :
    let body : List PTok := .var x :: .cmp .asg :: rNat noExtra e
    parse (toTokens body) = .ok (.stmts [.assign x e])
    ∧ parse (toTokens (.p .lpar :: body ++ [.p .rpar])) = .ok (.stmts [.cmp1 .asg (.var x) e])
    ∧ parse (toTokens (.var y :: .p .semi :: body)) = .ok (.stmts [.var y, .assign x e]) := by
  intro body
  have h1 := (C02_roundtrip (.stmts [.assign x e]) (wf_single (by simpa [wfS] using he))).1
  have h2 := (C02_roundtrip (.stmts [.cmp1 .asg (.var x) e])
    (wf_single (by simp [wfS, wfE, cmp1OK, PCmp.backward, he]))).1
  have h3 := (C02_roundtrip (.stmts [.var y, .assign x e])
    (wf_pair (by simp [wfS, wfE]) (by simpa [wfS] using he))).1
  have e1 : rNat noExtra (.stmts [.assign x e]) = body := by
    simp [rNat, rStmtTail, wrap, body]
  have e2 : rNat noExtra (.stmts [.cmp1 .asg (.var x) e]) = .p .lpar :: body ++ [.p .rpar] := by
    have hc : rNat noExtra (.cmp1 .asg (.var x) e) = body := by
      rw [rNat_cmp1, rAt_bare hl, rAt_bare (by simp [level_var])]; simp [rNat_var, body]
    have hs : rNat noExtra (.stmts [.cmp1 .asg (.var x) e])
        = (rStmtTail noExtra [.cmp1 .asg (.var x) e]).drop 1 := rfl
    rw [hs, rStmtTail_cons]
    simp only [List.drop_succ_cons, List.drop_zero, rStmtTail, List.append_nil, stmtText]
    rw [hc]
    simp [body, startsAsg, wrap, paren]
  have e3 : rNat noExtra (.stmts [.var y, .assign x e]) = .var y :: .p .semi :: body := by
    simp [rNat, rStmtTail, wrap, startsAsg, body]
  simp only [renderMin, renderWith, e1, e2, e3] at h1 h2 h3
  exact ⟨h1, h2, h3⟩

/-- **Keyword arguments.**  In a call, `name : value` after the positional arguments is a keyword
    argument (a KEYWORD_ARG child labelled `name`); the same identifier without `:` is an ordinary
    positional argument. -/
theorem C02_kwarg (f k : String) (a v : Ast) (ha : wfE a = true) (hv : wfE v = true) :
    parse (toTokens (.var f :: .p .lpar :: rNat noExtra a ++ .p .comma :: .var k :: .p .colon :: rNat noExtra v
              ++ [.p .rpar])) = .ok (.stmts [.call f [a] [(k, v)]])
    ∧ parse (toTokens (.var f :: .p .lpar :: rNat noExtra a ++ .p .comma :: .var k :: [.p .rpar]))
        = .ok (.stmts [.call f [a, .var k] []])
    ∧ parse (toTokens (.var f :: .p .lpar :: .var k :: .p .colon :: rNat noExtra v ++ [.p .rpar]))
        = .ok (.stmts [.call f [] [(k, v)]]) := by
  have h1 := (C02_roundtrip (.stmts [.call f [a] [(k, v)]])
    (wf_single (by simp [wfS, wfE, wfEs, wfKs, ha, hv]))).1
  have h2 := (C02_roundtrip (.stmts [.call f [a, .var k] []])
    (wf_single (by simp [wfS, wfE, wfEs, wfKs, ha]))).1
  have h3 := (C02_roundtrip (.stmts [.call f [] [(k, v)]])
    (wf_single (by simp [wfS, wfE, wfEs, wfKs, hv]))).1
  have e1 : rNat noExtra (.stmts [.call f [a] [(k, v)]])
      = .var f :: .p .lpar :: rNat noExtra a ++ .p .comma :: .var k :: .p .colon :: rNat noExtra v ++ [.p .rpar] := by
    simp [rNat, rStmtTail, rTail, rKwTail, wrap, startsAsg]
  have e2 : rNat noExtra (.stmts [.call f [a, .var k] []])
      = .var f :: .p .lpar :: rNat noExtra a ++ .p .comma :: .var k :: [.p .rpar] := by
    simp [rNat, rStmtTail, rTail, rKwTail, wrap, startsAsg]
  have e3 : rNat noExtra (.stmts [.call f [] [(k, v)]])
      = .var f :: .p .lpar :: .var k :: .p .colon :: rNat noExtra v ++ [.p .rpar] := by
    simp [rNat, rStmtTail, rTail, rKwTail, wrap, startsAsg]
  simp only [renderMin, renderWith, e1, e2, e3] at h1 h2 h3
  exact ⟨h1, h2, h3⟩

/-- **Keyword arguments only after the positional ones.**  `f(k: v, a)` — a positional argument
    after a keyword argument — is rejected with a ParsingError (once `parse_positional_args` has
    stopped at `identifier :` every remaining argument must be `name : value`). -/
theorem C02_kwarg_before_positional_rejected (f k : String) (a v : Ast) (ha : wfE a = true) (hv : wfE v = true) :
    ∃ i, parse (toTokens (.var f :: .p .lpar :: .var k :: .p .colon ::
        (rAt noExtra 0 v ++ .p .comma :: (rAt noExtra 0 a ++ [.p .rpar])))) = .error (.parsing i) := by
  obtain ⟨j, hj⟩ := kwarg_before_positional f k ha hv
  refine ⟨(toTokens (.var f :: .p .lpar :: .var k :: .p .colon ::
        (rAt noExtra 0 v ++ .p .comma :: (rAt noExtra 0 a ++ [.p .rpar])))).length - j, ?_⟩
  unfold parse
  simp only [toTokens, map_ofToken_toToken, hj]

/-- **`Ast.WF` is exactly the set of trees the grammar produces**: a tree is well-formed iff it is
    the parse of some token list (⇒ by the round trip, ⇐ by induction over the parser). -/
theorem C02_wf_iff_parsed (t : Ast) : t.WF ↔ ∃ tokens, parse tokens = .ok t :=
  ⟨fun h => ⟨renderMin t, (C02_roundtrip t h).1⟩, fun ⟨_, h⟩ => parse_wf h⟩

/-- **`=` elsewhere is a comparison.**  Whatever the tokens, a successful parse is a STATEMENTS node
    whose children are assignments `x = e` or expressions, where `e` and the expressions satisfy
    `wfE` — and `wfE` holds for no tree containing an ASSIGNMENT node (it is `false` on `.assign`
    and hereditary).  So an ASSIGNMENT node only ever arises from `identifier =` at the start of a
    statement; every other `=` token ends up as (part of) the label of a comparison node. -/
theorem C02_assign_only_at_statement_start (tokens : List Token) (t : Ast) (h : parse tokens = .ok t) :
    ∃ ss, t = .stmts ss ∧ ∀ s ∈ ss, (∃ x e, s = .assign x e ∧ wfE e = true) ∨ wfE s = true := by
  have hwf := parse_wf h
  cases t with
  | stmts ss =>
    refine ⟨ss, rfl, ?_⟩
    intro s hs
    have := hwf s hs
    cases s with
    | assign x e => exact Or.inl ⟨x, e, rfl, by simpa [wfS] using this⟩
    | stmts _ => simp [wfS, wfE] at this
    | _ => exact Or.inr (by simpa [wfS] using this)
  | _ => exact absurd hwf (by simp [Ast.WF])

/-! ### non-vacuity -/

private def n (k : Int) : Ast := .num (.int k)

private def sample : Ast := .stmts [
  -- x = 1 + 2 * -(3 - 4)!
  .assign "x" (.bin .add (n 1) (.bin .mul (n 2) (.sign true (.fact (.bin .sub (n 3) (n 4)))))),
  -- c <= 2 ^ 3 ^ 2 < a        (`^` is left-associative)
  .cmp2 .leq .lt (.var "c") (.bin .pow (.bin .pow (n 2) (n 3)) (n 2)) (.var "a"),
  -- (x = 1)                   (a comparison labelled "=" at statement start needs parentheses)
  .cmp1 .asg (.var "x") (n 1),
  -- -a! m^2|s .. b ^ c * f(1, k: 2) ± 3 <= d < e to km|h        (`..` binds tighter than `^`)
  .convert (.cmp2 .leq .lt
      (.bin .pm (.bin .mul (.bin .pow (.range (.quantity (.sign true (.fact (.var "a"))) ⟨[("m", 2)], [("s", 1)]⟩) (.var "b")) (.var "c"))
                 (.call "f" [n 1] [("k", n 2)])) (n 3))
      (.var "d") (.var "e")) ⟨[("km", 1)], [("h", 1)]⟩,
  -- (3 m)^2                   (`3 m^2` would be 3 square metres)
  .bin .pow (.quantity (n 3) ⟨[("m", 1)], []⟩) (n 2),
  -- {x : x in 1..3, (y in x), x < 2} ^ [1, "s"]
  .bin .pow (.compr (.var "x") [("x", .range (n 1) (n 3))] [.cmp1 .elem (.var "y") (.var "x"), .cmp1 .lt (.var "x") (n 2)])
            (.interval (n 1) (.str "s")),
  .array [], .array [.inst "2020-01-01", n 2]]

example : sample.WF := by decide
example : (renderMin sample).map (·.tag.render) =
    ["identifier", "=", "number", "+", "number", "*", "-", "(", "number", "-", "number", ")", "!", ";",
     "identifier", "<=", "number", "^", "number", "^", "number", "<", "identifier", ";",
     "(", "identifier", "=", "number", ")", ";",
     "-", "identifier", "!", "identifier", "^", "number", "|", "identifier", "..", "identifier", "^", "identifier",
     "*", "identifier", "(", "number", ",", "identifier", ":", "number", ")", "±", "number", "<=", "identifier", "<",
     "identifier", "to", "identifier", "|", "identifier", ";",
     "(", "number", "identifier", ")", "^", "number", ";",
     "{", "identifier", ":", "identifier", "in", "number", "..", "number", ",", "(", "identifier", "in", "identifier", ")",
     ",", "identifier", "<", "number", "}", "^", "[", "number", ",", "string", "]", ";",
     "{", "}", ";", "{", "instant", ",", "number", "}"] := by decide
set_option maxRecDepth 8000 in
example : parse (renderMin sample) = .ok sample := by rfl
set_option maxRecDepth 16000 in
example : parse (renderFull sample) = .ok sample := by rfl
/-- hypotheses of `C02_assign_vs_compare` / `C02_kwarg` are satisfiable -/
example : wfE (.bin .add (n 1) (.var "z")) = true ∧ 2 ≤ (Ast.bin .add (n 1) (.var "z")).level := by decide

end KaVerif
