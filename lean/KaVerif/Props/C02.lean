import KaVerif.Lemmas.ParserLemmas
/-
  C02 — expressions group exactly as the documented precedence and associativity.

  Model: `Model/Parser.lean` (`parse`, the recursive descent of src/ka/parse.py),
  `Model/Render.lean` (`renderMin`: only the parentheses the rules require, `renderFull`: every
  sub-expression parenthesised, `Ast.WF`: the trees the grammar can produce).

  Full statement (the goal of the staged proof):

      theorem C02_roundtrip (t : Ast) (h : t.WF) :
          parse (renderMin t) = .ok t ∧ parse (renderFull t) = .ok t

  Proved so far: `C02_roundtrip_partial`, the same statement for the trees that satisfy
  `Ast.InFragment` (see `inFrag` in Lemmas/ParserLemmas.lean for the covered constructors).
-/
namespace KaVerif
open KaVerif.Parser

/-- **Round trip (staged).**  For every program tree the grammar can produce whose nodes are among
    the covered constructors, the text with minimal parentheses and the fully parenthesised text
    both parse to exactly that tree: so both texts parse to the *same* tree, and the grouping of
    the minimal text is the one the precedence/associativity table prescribes (the table is
    `Ast.level` + `rNat` in Model/Render.lean).
    Covered (stages 1 and 2): numbers, variables, parentheses, postfix `!`, unary sign, `^`, `* / %`,
    `+ - ±` (all left-associative), one or two comparison operators including
    `make_comparison_node`'s flipping, quantities with unit signatures (`m^-2 s | kg`, exponents by
    `parse_integer`), `..`, `to`, function calls with positional and keyword arguments, statements
    separated by `;`, assignment.  Not yet covered: strings, instants, arrays, comprehensions,
    interval literals. -/
theorem C02_roundtrip_partial (t : Ast) (h : t.WF) (hf : t.InFragment) :
    parse (renderMin t) = .ok t ∧ parse (renderFull t) = .ok t := by
  cases t with
  | stmts ss =>
    constructor
    · exact parse_of_parseToks (roundtrip_toks false ss (fun s hs => stmtOK_of_wf false (h s hs) (hf s hs)))
    · exact parse_of_parseToks (roundtrip_toks true ss (fun s hs => stmtOK_of_wf true (h s hs) (hf s hs)))
  | _ => exact absurd h (by simp [Ast.WF])

/-- Corollary: minimal and full parenthesisation denote the same tree. -/
theorem C02_min_eq_full_partial (t : Ast) (h : t.WF) (hf : t.InFragment) :
    parse (renderMin t) = parse (renderFull t) := by
  rw [(C02_roundtrip_partial t h hf).1, (C02_roundtrip_partial t h hf).2]

/-! ### non-vacuity -/

private def n (k : Int) : Ast := .num (.int k)

/-- `x = 1 + 2 * -(3 - 4)! ; c <= 2 ^ 3 ^ 2 < a ; (x = 1)`  (the last statement is a comparison
    labelled "=", so its minimal text needs parentheses at statement start) -/
private def sample : Ast := .stmts [
  .assign "x" (.bin .add (n 1) (.bin .mul (n 2) (.sign true (.fact (.bin .sub (n 3) (n 4)))))),
  .cmp2 .leq .lt (.var "c") (.bin .pow (.bin .pow (n 2) (n 3)) (n 2)) (.var "a"),
  .cmp1 .asg (.var "x") (n 1),
  -- -a! m^2|s .. b ^ c * f(1, k: 2) ± 3 <= d < e to km|h   (`..` binds tighter than `^`)
  .convert (.cmp2 .leq .lt
      (.bin .pm (.bin .mul (.bin .pow (.range (.quantity (.sign true (.fact (.var "a"))) ⟨[("m", 2)], [("s", 1)]⟩) (.var "b")) (.var "c"))
                 (.call "f" [n 1] [("k", n 2)])) (n 3))
      (.var "d") (.var "e")) ⟨[("km", 1)], [("h", 1)]⟩,
  -- (3 m)^2 : the parentheses are required because `m^2` would be read as a unit with exponent
  .bin .pow (.quantity (n 3) ⟨[("m", 1)], []⟩) (n 2)]

example : sample.WF ∧ sample.InFragment := by decide
example : (renderMin sample).map (·.tag.render) =
    ["identifier", "=", "number", "+", "number", "*", "-", "(", "number", "-", "number", ")", "!", ";",
     "identifier", "<=", "number", "^", "number", "^", "number", "<", "identifier", ";",
     "(", "identifier", "=", "number", ")", ";",
     "-", "identifier", "!", "identifier", "^", "number", "|", "identifier", "..", "identifier", "^", "identifier",
     "*", "identifier", "(", "number", ",", "identifier", ":", "number", ")", "±", "number", "<=", "identifier", "<",
     "identifier", "to", "identifier", "|", "identifier", ";",
     "(", "number", "identifier", ")", "^", "number"] := by decide
set_option maxRecDepth 4000 in
example : parse (renderMin sample) = .ok sample := by rfl
set_option maxRecDepth 8000 in
example : parse (renderFull sample) = .ok sample := by rfl

end KaVerif
