import KaVerif.Props.C07
import Mathlib.Analysis.SpecialFunctions.Pow.Real
import Mathlib.Analysis.SpecialFunctions.Log.Base
/-
  C07 at `α := ℝ` with the true `√`, `log_b`, `x ^ y`: the model's algorithm, run over the real
  numbers, encloses the image of every real point of the operand interval.
  (What the code computes in doubles is compared with the model by the correspondence check,
  with the property's tolerance; IEEE rounding is not modelled.)
-/
set_option linter.unusedSectionVars false

open KaVerif.Interval KaVerif.Interval.Intv
namespace KaVerif

/-- `math.sqrt`, `math.log(x, base)`, `x ** y`, `math.e` as the real functions they approximate. -/
noncomputable def Interval.realFns : Fns ℝ where
  sqrt := Real.sqrt
  log x base := Real.logb base x
  rpow x y := x ^ y
  e := Real.exp 1

/-- **C07 (enclosure, sqrt over ℝ).**  For an interval without negative numbers, `sqrt(I)` is
    accepted, is well-formed, and contains `√x` for every real point `x` of `I`. -/
theorem C07_encl_sqrt_real (I : Intv ℝ) (x : ℝ) (hx : x ∈ I) (ha : 0 ≤ I.a) :
    ∃ J, sqrtI realFns I = .ok J ∧ Real.sqrt x ∈ J ∧ J.WF := by
  have hm : MonotoneOn realFns.sqrt (Set.Ici 0) := fun _ _ _ _ h => Real.sqrt_le_sqrt h
  obtain ⟨J, hJ, hmem⟩ := C07_encl_sqrt realFns hm I x hx ha
  exact ⟨J, hJ, hmem, C07_wf_sqrt realFns hm I J (wf_of_mem hx) hJ⟩

/-- **C07 (enclosure, log over ℝ, any valid base).**  For every base `b > 0`, `b ≠ 1` — above or
    below 1 — and every interval of positive numbers, `log(I, b)` is accepted and contains
    `log_b x` for every real point `x` of `I`. -/
theorem C07_encl_log_real (I : Intv ℝ) (b x : ℝ) (hx : x ∈ I) (ha : 0 < I.a) (hb : 0 < b) (hb1 : b ≠ 1) :
    ∃ J, logI realFns I b = .ok J ∧ Real.logb b x ∈ J := by
  refine C07_encl_log realFns I b x hx ha hb hb1 ?_
  rcases lt_or_gt_of_ne hb1 with h | h
  · right
    intro s hs t ht hst
    exact (Real.logb_le_logb_of_base_lt_one hb h ht hs).mpr hst
  · left
    intro s hs t _ hst
    exact Real.logb_le_logb_of_le h hs hst

/-- **C07 (ln over ℝ).**  `ln(I)` contains the natural logarithm of every point. -/
theorem C07_encl_ln_real (I : Intv ℝ) (x : ℝ) (hx : x ∈ I) (ha : 0 < I.a) :
    ∃ J, lnI realFns I = .ok J ∧ Real.log x ∈ J := by
  have he : (1:ℝ) < Real.exp 1 := by
    have := Real.add_one_lt_exp (x := 1) one_ne_zero; linarith
  obtain ⟨J, hJ, hmem⟩ := C07_encl_log_real I (Real.exp 1) x hx ha (by positivity) (ne_of_gt he)
  refine ⟨J, hJ, ?_⟩
  have : Real.logb (Real.exp 1) x = Real.log x := by
    simp [Real.logb, Real.log_exp]
  rwa [this] at hmem

/-- **C07 (enclosure, non-integer powers over ℝ).**  For every real exponent `y` classified as
    fractional and every interval without negative numbers (without zero when `y < 0`), `I ^ y`
    is accepted and contains `x ^ y` (`Real.rpow`) for every real point `x` of `I`. -/
theorem C07_encl_pow_real_real (I : Intv ℝ) (y x : ℝ) (hx : x ∈ I) (ha : 0 ≤ I.a) (hy : 0 ≤ y ∨ 0 < I.a) :
    ∃ J, powI realFns I (.real y) = .ok J ∧ x ^ y ∈ J := by
  refine C07_encl_pow_real realFns I y x hx ?_ ?_ ha hy
  · intro hy0 s hs t _ hst
    exact Real.rpow_le_rpow hs hst hy0
  · intro hy0 s hs t _ hst
    exact Real.rpow_le_rpow_of_nonpos hs hst hy0.le

example : (2:ℝ) ∈ (⟨1, 3⟩ : Intv ℝ) := by
  constructor <;> norm_num

end KaVerif
