import KaVerif.Lemmas.NumLemmas
/-
  C01 — integer and fraction arithmetic is exact and canonical.
  Property theorems only; helper lemmas live in Lemmas/NumLemmas.lean.
-/
namespace KaVerif
open Num

/-- literal leaves deliver the canonical form of their mathematical value -/
theorem C01_literal (m : Nat) (e : Int) :
    evalA (.sci m e) = .ok (canon (if e < 0 then (m : Rat) / (10:Rat) ^ (-e).toNat
                                    else (m : Rat) * (10:Rat) ^ e.toNat)) := by
  unfold evalA litValue
  by_cases he : e < 0
  · simp only [he, if_true, simplify_frac]; congr 2; field_simp
  · simp only [he, if_false, simplify_int]
    rw [canon_of_intCast_eq]; push_cast; rfl

/-- **C01 (exactness and canonical form).**  For every expression tree whose
    mathematical reading is the rational `q`, evaluation returns exactly `q`, as an
    `int` when `q` is integral and as a reduced `Fraction` otherwise. -/
theorem C01_exact (e : AExp) (q : Rat) (h : den e = .val q) : evalA e = .ok (canon q) := by
  induction e generalizing q with
  | lit n =>
    simp only [den, Den.val.injEq] at h; subst h
    simp only [evalA, simplify_int]; rw [canon_of_intCast_eq (n : Rat) (n : Int) (by push_cast; rfl)]
  | sci m e =>
    simp only [den, Den.val.injEq] at h; subst h; exact C01_literal m e
  | bin op a b iha ihb =>
    simp only [den] at h
    cases hda : den a with
    | val x =>
      cases hdb : den b with
      | val y =>
        rw [hda, hdb] at h
        simp only [evalA, iha x hda, ihb y hdb, bind, Except.bind]
        cases op
        · simp only [denBin, Den.val.injEq] at h; subst h
          exact binop_lin_canon .add (Or.inl rfl) x y
        · simp only [denBin, Den.val.injEq] at h; subst h
          exact binop_lin_canon .sub (Or.inr (Or.inl rfl)) x y
        · simp only [denBin, Den.val.injEq] at h; subst h
          exact binop_lin_canon .mul (Or.inr (Or.inr rfl)) x y
        · simp only [denBin] at h
          by_cases hy : y = 0
          · simp [hy] at h
          · simp only [hy, if_false, Den.val.injEq] at h; subst h
            rw [binop_div_canon]; simp [hy]
        · simp only [denBin] at h
          by_cases hy : y = 0
          · simp [hy] at h
          · simp only [hy, if_false, Den.val.injEq] at h; subst h
            rw [binop_mod_canon]; simp [hy]
        · simp only [denBin] at h
          by_cases hy : y.den = 1 ∧ 0 ≤ y.num
          · rw [if_pos hy] at h; simp only [Den.val.injEq] at h; subst h
            exact binop_pow_canon x y hy.1 hy.2
          · rw [if_neg hy] at h; simp at h
      | divZero => rw [hda, hdb] at h; simp at h
      | outOfScope => rw [hda, hdb] at h; simp at h
    | divZero => rw [hda] at h; simp at h
    | outOfScope => rw [hda] at h; simp at h
  | un op a iha =>
    simp only [den] at h
    cases hda : den a with
    | val x =>
      rw [hda] at h
      simp only [evalA, iha x hda, bind, Except.bind]
      exact unop_canon op x q h
    | divZero => rw [hda] at h; simp at h
    | outOfScope => rw [hda] at h; simp at h

/-- **C01 (division / modulo by zero).**  When the first thing the mathematical
    reading meets (in evaluation order) is a zero divisor, evaluation reports the
    division-by-zero error and no value. -/
theorem C01_divzero (e : AExp) (h : den e = .divZero) : evalA e = .error .divZero := by
  induction e with
  | lit n => simp [den] at h
  | sci m e => simp [den] at h
  | bin op a b iha ihb =>
    simp only [den] at h
    cases hda : den a with
    | val x =>
      cases hdb : den b with
      | val y =>
        rw [hda, hdb] at h
        simp only [evalA, C01_exact a x hda, C01_exact b y hdb, bind, Except.bind]
        cases op <;> simp only [denBin, reduceCtorEq] at h
        · by_cases hy : y = 0
          · rw [binop_div_canon]; simp [hy]
          · simp [hy] at h
        · by_cases hy : y = 0
          · rw [binop_mod_canon]; simp [hy]
          · simp [hy] at h
        · split at h <;> simp at h
      | divZero =>
        simp only [evalA, C01_exact a x hda, ihb hdb, bind, Except.bind]
      | outOfScope => rw [hda, hdb] at h; simp at h
    | divZero => simp only [evalA, iha hda, bind, Except.bind]
    | outOfScope => rw [hda] at h; simp at h
  | un op a iha =>
    simp only [den] at h
    cases hda : den a with
    | val x => rw [hda] at h; cases op <;> simp [denUn] at h
    | divZero => simp only [evalA, iha hda, bind, Except.bind]
    | outOfScope => rw [hda] at h; simp at h

/-- **C01 (never a float).** -/
theorem C01_never_float (e : AExp) (q : Rat) (h : den e = .val q) :
    ∃ v, evalA e = .ok v ∧ v.isFloat = false ∧ v.toRat = q := by
  refine ⟨canon q, C01_exact e q h, ?_, toRat_canon q⟩
  unfold canon; split <;> rfl

/-- canonical form: an `int` exactly when the value is integral, else the reduced fraction -/
theorem C01_canonical (q : Rat) :
    (q.den = 1 → canon q = .int q.num) ∧ (q.den ≠ 1 → canon q = .frac q) := by
  constructor <;> intro h <;> simp [canon, h]

/-- **C01 (floored modulo).**  The result of `%` has the sign of the divisor and
    is smaller than it in absolute value; and `a = b*⌊a/b⌋ + a % b`. -/
theorem C01_mod_sign (a b : Rat) :
    (0 < b → 0 ≤ fmodRat a b ∧ fmodRat a b < b) ∧
    (b < 0 → b < fmodRat a b ∧ fmodRat a b ≤ 0) := by
  have hfl : (a / b).floor = ⌊a / b⌋ := rfl
  have h1 : ((⌊a / b⌋ : Int) : Rat) ≤ a / b := Int.floor_le _
  have h2 : a / b < (⌊a / b⌋ : Rat) + 1 := Int.lt_floor_add_one _
  unfold fmodRat; rw [hfl]
  constructor
  · intro hpos
    rw [le_div_iff₀ hpos] at h1; rw [div_lt_iff₀ hpos] at h2
    constructor <;> nlinarith
  · intro hneg
    rw [le_div_iff_of_neg hneg] at h1; rw [div_lt_iff_of_neg hneg] at h2
    constructor <;> nlinarith

/-- non-vacuity: `((3/2)^2 % (0 - 1/3)) - 1e30/7` is in scope; its value is not integral -/
example : den (.bin .sub (.bin .mod (.bin .pow (.bin .div (.lit 3) (.lit 2)) (.lit 2))
                                  (.bin .sub (.lit 0) (.bin .div (.lit 1) (.lit 3))))
                        (.bin .div (.sci 1 30) (.lit 7))) = .val (-1/12 - 10^30/7) := by
  decide +kernel

/-- non-vacuity of the error clause: `1 + 7 % (2 - 2)` -/
example : den (.bin .add (.lit 1) (.bin .mod (.lit 7) (.bin .sub (.lit 2) (.lit 2)))) = .divZero := by
  decide +kernel

end KaVerif
