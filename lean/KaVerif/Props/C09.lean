import KaVerif.Model.Compare
import KaVerif.Gen.Registry
import Mathlib.Order.Defs.LinearOrder
import Mathlib.Algebra.Order.Ring.Rat
import Mathlib.Tactic.Linarith
/-
  C09 — comparisons are coherent: trichotomy, duality, negation, and 0/1 results.
-/
namespace KaVerif
open Compare Num

/-- the mathematical relation an operator stands for -/
def Compare.CmpOp.rel : CmpOp → Rat → Rat → Prop
  | .lt, x, y => x < y | .le, x, y => x ≤ y | .eq, x, y => x = y
  | .ne, x, y => x ≠ y | .gt, x, y => x > y | .ge, x, y => x ≥ y

instance (op : CmpOp) (x y : Rat) : Decidable (op.rel x y) := by
  cases op <;> unfold CmpOp.rel <;> infer_instance

theorem toRat_intCast (n : Int) : (Num.int n).toRat = (n : Rat) := rfl

/-- **C09 (semantics).** On every comparable pair, every comparison as written evaluates — without
    error — to the number 1 when the relation holds between the operands' ordering keys
    (exact value of the number; base-unit magnitude of the quantity; position of the instant on the
    time line) and to the number 0 otherwise. -/
theorem C09_semantics (op : CmpOp) (a b : CVal) (h : comparable a b = true) :
    evalCmp op a b = .ok (.int (if op.rel (key a) (key b) then 1 else 0)) := by
  cases a <;> cases b <;> simp only [comparable, Bool.and_eq_true, decide_eq_true_eq,
    reduceCtorEq, Bool.false_eq_true] at h <;>
  cases op <;>
  simp only [evalCmp, dispatchCmp, cmpNum, b2n, cmpLt, cmpLe, cmpEq, key, CmpOp.rel, h, if_true,
    toRat_intCast, decide_eq_true_eq, Bool.not_eq_true', decide_eq_false_iff_not, gt_iff_lt, ge_iff_le,
    ne_eq, Bool.decide_eq_true, ite_not] <;>
  first
    | rfl
    | (simp; done)
    | (split <;> rename_i h1 <;> first
        | simp [h1]
        | (split <;> rename_i h2 <;> first | rfl | (exfalso; simp_all)))

/-- every comparison on comparable values yields the number 1 or 0 (never a host-language boolean) -/
theorem C09_is_01 (op : CmpOp) (a b : CVal) (h : comparable a b = true) :
    evalCmp op a b = .ok (.int 1) ∨ evalCmp op a b = .ok (.int 0) := by
  rw [C09_semantics op a b h]; split <;> simp

/-- **trichotomy**: exactly one of a<b, a==b, a>b is 1 -/
theorem C09_trichotomy (a b : CVal) (h : comparable a b = true) :
    (evalCmp .lt a b = .ok (.int 1) ∧ evalCmp .eq a b = .ok (.int 0) ∧ evalCmp .gt a b = .ok (.int 0)) ∨
    (evalCmp .lt a b = .ok (.int 0) ∧ evalCmp .eq a b = .ok (.int 1) ∧ evalCmp .gt a b = .ok (.int 0)) ∨
    (evalCmp .lt a b = .ok (.int 0) ∧ evalCmp .eq a b = .ok (.int 0) ∧ evalCmp .gt a b = .ok (.int 1)) := by
  rw [C09_semantics .lt a b h, C09_semantics .eq a b h, C09_semantics .gt a b h]
  simp only [CmpOp.rel]
  rcases lt_trichotomy (key a) (key b) with hl | he | hg
  · left; simp [hl, ne_of_lt hl, not_lt_of_gt hl]
  · right; left; simp [he]
  · right; right; simp [hg, ne_of_gt hg, not_lt_of_gt hg]

/-- a<=b equals (a<b or a==b) -/
theorem C09_le (a b : CVal) (h : comparable a b = true) :
    evalCmp .le a b = .ok (.int 1) ↔ (evalCmp .lt a b = .ok (.int 1) ∨ evalCmp .eq a b = .ok (.int 1)) := by
  rw [C09_semantics .le a b h, C09_semantics .lt a b h, C09_semantics .eq a b h]
  simp only [CmpOp.rel]
  by_cases hl : key a < key b <;> by_cases he : key a = key b <;>
    simp [hl, he, le_of_lt, le_iff_lt_or_eq]

theorem comparable_symm (a b : CVal) (h : comparable a b = true) : comparable b a = true := by
  cases a <;> cases b <;> simp only [comparable, Bool.and_eq_true, decide_eq_true_eq,
    reduceCtorEq, Bool.false_eq_true] at h ⊢
  · exact h
  · exact h
  · exact h.symm
  · exact ⟨h.2, h.1⟩

/-- **duality**: a>b equals b<a and a>=b equals b<=a -/
theorem C09_dual (a b : CVal) (h : comparable a b = true) :
    evalCmp .gt a b = evalCmp .lt b a ∧ evalCmp .ge a b = evalCmp .le b a := by
  have h' := comparable_symm a b h
  rw [C09_semantics .gt a b h, C09_semantics .lt b a h', C09_semantics .ge a b h, C09_semantics .le b a h']
  simp [CmpOp.rel]

/-- **negation**: a!=b equals 1 minus (a==b) -/
theorem C09_ne (a b : CVal) (h : comparable a b = true) :
    (evalCmp .ne a b = .ok (.int 1) ∧ evalCmp .eq a b = .ok (.int 0)) ∨
    (evalCmp .ne a b = .ok (.int 0) ∧ evalCmp .eq a b = .ok (.int 1)) := by
  rw [C09_semantics .ne a b h, C09_semantics .eq a b h]
  simp only [CmpOp.rel]
  by_cases he : key a = key b <;> simp [he]

/-- **equality of quantities compares physical size**: two quantities of one dimension are `==`
    exactly when their base-unit magnitudes (x·factor(U)+offset(U)) coincide, whatever they were written in -/
theorem C09_qty_physical (x y : Num) (d : List Int) :
    evalCmp .eq (.qty x d) (.qty y d) = .ok (.int 1) ↔ x.toRat = y.toRat := by
  rw [C09_semantics .eq _ _ (by simp [comparable])]
  simp only [CmpOp.rel, key]
  by_cases he : x.toRat = y.toRat <;> simp [he]

/-- quantities of different dimension are never compared: the order operators and ==, != all reject -/
theorem C09_incompatible (op : CmpOp) (x y : Num) (dx dy : List Int) (hd : dx ≠ dy) :
    evalCmp op (.qty x dx) (.qty y dy) = .error .incompatible := by
  have hd' : dy ≠ dx := fun h => hd h.symm
  cases op <;> simp [evalCmp, dispatchCmp, hd, hd']

open Dispatch Gen.Registry in
/-- the tie to the registry of the current tree: which implementation `dispatch` selects for the
    four forward comparison names on numbers, quantities and instants -/
theorem C09_dispatch_table :
    let ch := fun (name : String) (args : List Nat) =>
      (closest sub (applicable inst ((registry.lookup name).getD []) args)).bind (fun s => implNames[s.impl]?)
    let c := fun (n : String) => classNames.idxOf n
    let nums := [c "int", c "Fraction", c "float", c "Combinatoric"]
    (nums.all fun a => nums.all fun b =>
      ch "<" [a, b] == some "<|(Number, Number)|ka.functions.intify.<locals>.f_new[_operator.lt]" &&
      ch "<=" [a, b] == some "<=|(Number, Number)|ka.functions.intify.<locals>.f_new[_operator.le]" &&
      ch "==" [a, b] == some "==|(Number, Number)|ka.functions.intify.<locals>.f_new[_operator.eq]" &&
      ch "!=" [a, b] == some "!=|(Number, Number)|ka.functions.intify.<locals>.f_new[_operator.ne]") = true ∧
    ch "<" [c "Instant", c "Instant"] = some "<|(Instant, Instant)|ka.functions.intify.<locals>.f_new[ka.types.instant_lt]" ∧
    ch "<=" [c "Instant", c "Instant"] = some "<=|(Instant, Instant)|ka.functions.intify.<locals>.f_new[ka.types.instant_leq]" ∧
    ch "==" [c "Instant", c "Instant"] = some "==|(Instant, Instant)|ka.functions.intify.<locals>.f_new[_operator.eq]" ∧
    ch "!=" [c "Instant", c "Instant"] = some "!=|(Instant, Instant)|ka.functions.intify.<locals>.f_new[_operator.ne]" ∧
    ch "<" [c "Quantity", c "Quantity"] = some "<|(Quantity, Quantity)|ka.functions.register_quantities_op.<locals>.f['<',None,False]" ∧
    ch "<=" [c "Quantity", c "Quantity"] = some "<=|(Quantity, Quantity)|ka.functions.register_quantities_op.<locals>.f['<=',None,False]" ∧
    ch "==" [c "Quantity", c "Quantity"] = some "==|(Quantity, Quantity)|ka.functions.register_quantities_op.<locals>.f['==',None,False]" ∧
    ch "!=" [c "Quantity", c "Quantity"] = some "!=|(Quantity, Quantity)|ka.functions.register_quantities_op.<locals>.f['!=',None,False]" := by
  decide +kernel

/-- non-vacuity: 1 m vs 100 cm (both 1 in base units) and 1/2 vs 0.5 are comparable and equal -/
example : comparable (.qty (.int 1) [0,1,0]) (.qty (.frac 1) [0,1,0]) = true ∧
    evalCmp .eq (.num (.frac (1/2))) (.num (.flt 0.5)) = .ok (.int 1) := by
  constructor
  · rfl
  · rw [C09_semantics .eq _ _ rfl]
    have : CmpOp.eq.rel (key (.num (.frac (1/2)))) (key (.num (.flt 0.5))) := by
      show (1/2 : Rat) = floatToRat 0.5
      decide +kernel
    rw [if_pos this]

end KaVerif
