import KaVerif.Model.Parser
import KaVerif.Gen.Tokens
/-
  C02, generated-table part: the parser model's view of constant tokens (`PTok.ofConst`) covers
  exactly `ka.tokens.CONST_TOKENS` as regenerated from /repo on every run.  A token added to,
  removed from or respelled in the source makes this theorem fail at build time.
-/
namespace KaVerif
open KaVerif.Parser

private def isBad : PTok → Bool
  | .bad => true
  | _ => false

private def allConstToks : List PTok :=
  [.op .add, .op .sub, .op .pm, .op .mul, .op .div, .op .mod, .op .pow,
   .cmp .eq, .cmp .neq, .cmp .lt, .cmp .gt, .cmp .leq, .cmp .geq, .cmp .asg, .cmp .elem,
   .p .lpar, .p .rpar, .p .comma, .p .semi, .p .colon, .p .lbrace, .p .rbrace, .p .lbrack, .p .rbrack,
   .p .bang, .p .bar, .p .to, .p .dots]

/-- Every spelling in `CONST_TOKENS` is a token kind the parser model knows, and every constant
    token kind of the model is spelled as some entry of `CONST_TOKENS`. -/
theorem C02_token_table :
    Gen.Tokens.constTokens.all (fun s => !isBad (PTok.ofConst s)) = true
    ∧ allConstToks.all (fun k => Gen.Tokens.constTokens.contains k.toToken.tag.render) = true := by
  decide

end KaVerif
