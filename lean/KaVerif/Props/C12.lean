import KaVerif.Lemmas.ArrayLemmas
import Mathlib.Tactic.Linarith
import Mathlib.Tactic.Ring
import Mathlib.Tactic.Positivity
/-
  C12 — ranges, comprehensions and array aggregates follow their stated semantics.
-/
namespace KaVerif
open Arr Num

/-- `lo..hi` lists exactly the integers lo ≤ k ≤ hi … -/
theorem C12_range_mem (lo hi k : Int) : k ∈ Arr.range lo hi ↔ lo ≤ k ∧ k ≤ hi := by
  unfold Arr.range
  simp only [List.mem_map, List.mem_range]
  constructor
  · rintro ⟨j, hj, rfl⟩; simp only [Int.ofNat_eq_natCast]; constructor <;> omega
  · rintro ⟨h1, h2⟩
    refine ⟨(k - lo).toNat, by omega, ?_⟩
    simp only [Int.ofNat_eq_natCast]; omega

/-- … in ascending order without repetition, and is empty when lo > hi -/
theorem C12_range_sorted (lo hi : Int) :
    (Arr.range lo hi).Pairwise (· < ·) ∧ (Arr.range lo hi).length = (hi + 1 - lo).toNat ∧
    (hi < lo → Arr.range lo hi = []) := by
  unfold Arr.range
  refine ⟨?_, by simp, ?_⟩
  · rw [List.pairwise_map]
    refine List.Pairwise.imp ?_ (List.pairwise_lt_range)
    intro a b hab; simp only [Int.ofNat_eq_natCast]; omega
  · intro h
    have : (hi + 1 - lo).toNat = 0 := by omega
    simp [this]

/-- the loop of `range(lo, hi, step)`: from lo + j·step with enough fuel it appends exactly the
    remaining multiples that do not exceed hi -/
theorem rangeLoop_spec (lo hi step : Rat) (hs : 0 < step) (n : Nat)
    (hin : ∀ k : Nat, k ≤ n → lo + k * step ≤ hi) (hout : ¬ (lo + (n + 1 : Nat) * step ≤ hi))
    (d j : Nat) (hj : j + d = n + 1) (acc : List Rat) :
    rangeLoop hi step (d + 1) (lo + j * step) acc =
      some (acc.reverse ++ (List.range' j d).map (fun (k : Nat) => lo + (k : Rat) * step)) := by
  induction d generalizing j acc with
  | zero =>
    have : j = n + 1 := by omega
    subst this
    simp only [rangeLoop, hout, if_false, List.range'_zero, List.map_nil, List.append_nil]
  | succ d ih =>
    have hle : lo + (j : Rat) * step ≤ hi := hin j (by omega)
    rw [rangeLoop]
    simp only [hle, if_true]
    have hnext : lo + (j : Rat) * step + step = lo + ((j + 1 : Nat) : Rat) * step := by push_cast; ring
    rw [hnext, ih (j + 1) (by omega)]
    simp [List.range'_succ]

/-- **range with a positive step** lists lo, lo+step, … not exceeding hi, and terminates -/
theorem C12_range_step (lo hi step : Rat) (hs : 0 < step) (h : lo ≤ hi) :
    kaRange lo hi step =
      .ok ((List.range (((hi - lo) / step).floor.toNat + 1)).map (fun (k : Nat) => lo + (k : Rat) * step)) := by
  have hq : 0 ≤ (hi - lo) / step := div_nonneg (by linarith) (le_of_lt hs)
  have hfl : ((hi - lo) / step).floor = ⌊(hi - lo) / step⌋ := rfl
  have hf0 : 0 ≤ ((hi - lo) / step).floor := by rw [hfl]; exact Int.floor_nonneg.mpr hq
  set n := ((hi - lo) / step).floor.toNat with hn
  have hncast : ((n : Int) : Rat) = (((hi - lo) / step).floor : Rat) := by
    rw [hn]; congr 1; exact Int.toNat_of_nonneg hf0
  have h1 : (n : Rat) ≤ (hi - lo) / step := by
    have := Int.floor_le ((hi - lo) / step)
    rw [← hfl, ← hncast] at this; exact_mod_cast this
  have h2 : (hi - lo) / step < (n : Rat) + 1 := by
    have := Int.lt_floor_add_one ((hi - lo) / step)
    rw [← hfl, ← hncast] at this; exact_mod_cast this
  have hin : ∀ k : Nat, k ≤ n → lo + k * step ≤ hi := by
    intro k hk
    have hk' : (k : Rat) ≤ n := by exact_mod_cast hk
    have : (k : Rat) * step ≤ hi - lo := by
      calc (k : Rat) * step ≤ n * step := by apply mul_le_mul_of_nonneg_right hk' (le_of_lt hs)
        _ ≤ (hi - lo) / step * step := by apply mul_le_mul_of_nonneg_right h1 (le_of_lt hs)
        _ = hi - lo := by field_simp
    linarith
  have hout : ¬ (lo + ((n + 1 : Nat) : Rat) * step ≤ hi) := by
    intro hc
    have : ((n : Rat) + 1) * step ≤ hi - lo := by push_cast at hc; linarith
    have : (n : Rat) + 1 ≤ (hi - lo) / step := by rw [le_div_iff₀ hs]; exact this
    linarith
  unfold kaRange
  simp only [hs, not_true_eq_false, if_false, h]
  have := rangeLoop_spec lo hi step hs n hin hout (n + 1) 0 (by omega) []
  simp only [Nat.cast_zero, zero_mul, add_zero, List.reverse_nil, List.nil_append] at this
  rw [← hn, this, List.range_eq_range']

/-- a zero or negative step, or lo > hi, is rejected (never a hang, never a value) -/
theorem C12_range_step_reject (lo hi step : Rat) (h : step ≤ 0 ∨ hi < lo) :
    kaRange lo hi step = .error .funArg := by
  unfold kaRange
  rcases h with h | h
  · simp [not_lt.mpr h]
  · by_cases hs : 0 < step <;> simp [hs, not_le.mpr h]

/-- **aggregates agree with exact arithmetic** on arrays of exact numbers (delivered canonically):
    sum, product, size, membership for every array; sum of none is 0, product of none is 1 -/
theorem C12_sum_prod_size_in (qs : List Rat) (x : Rat) :
    arraySum (qs.map canon) = .ok (canon qs.sum) ∧
    arrayProd (qs.map canon) = .ok (canon qs.prod) ∧
    arraySize (qs.map canon) = .int qs.length ∧
    inArray (canon x) (qs.map canon) = .int (if x ∈ qs then 1 else 0) := by
  refine ⟨?_, ?_, by simp [arraySize], ?_⟩
  · cases qs with
    | nil => simp [arraySum, canon_zero]
    | cons h t => simp only [List.map_cons, arraySum, foldlM_add, List.sum_cons]
  · have := foldlM_mul qs 1
    simp only [canon_one, one_mul] at this
    exact this
  · unfold inArray
    congr 1
    have : (qs.map canon).any (fun e => cmpEq (canon x) e) = decide (x ∈ qs) := by
      induction qs with
      | nil => simp
      | cons h t ih =>
        simp only [List.map_cons, List.any_cons, cmpEq_canon, ih, List.mem_cons]
        by_cases h1 : x = h <;> by_cases h2 : x ∈ t <;> simp [h1, h2]
    rw [this]; by_cases h : x ∈ qs <;> simp [h]

/-- mean of a non-empty array is Σ/n; the empty array is rejected -/
theorem C12_mean (qs : List Rat) :
    (qs ≠ [] → arrayMean (qs.map canon) = .ok (canon (qs.sum / qs.length))) ∧
    arrayMean ([] : List Num) = .error .funArg := by
  refine ⟨?_, rfl⟩
  intro hne
  have hlen : ((qs.length : Int) : Rat) ≠ 0 := by
    have : qs.length ≠ 0 := by intro h; exact hne (List.length_eq_zero_iff.mp h)
    exact_mod_cast this
  unfold arrayMean
  have hemp : (qs.map canon).isEmpty = false := by cases qs <;> simp_all
  simp only [hemp, Bool.false_eq_true, if_false, (C12_sum_prod_size_in qs 0).1, bind, Except.bind, List.length_map]
  have hc : (Num.int (qs.length : Int)) = canon ((qs.length : Int) : Rat) := (canon_intCast _).symm
  rw [hc, binop_div_canon, if_neg hlen]
  congr 2

/-- min and max return an element of the array that is ≤ (resp. ≥) every element; empty rejected -/
theorem C12_min_max (qs : List Rat) (hne : qs ≠ []) :
    (∃ m, arrayMin (qs.map canon) = .ok (canon m) ∧ m ∈ qs ∧ ∀ q ∈ qs, m ≤ q) ∧
    (∃ M, arrayMax (qs.map canon) = .ok (canon M) ∧ M ∈ qs ∧ ∀ q ∈ qs, q ≤ M) ∧
    arrayMin ([] : List Num) = .error .funArg ∧ arrayMax ([] : List Num) = .error .funArg := by
  cases qs with
  | nil => exact absurd rfl hne
  | cons h t =>
    refine ⟨?_, ?_, rfl, rfl⟩
    · obtain ⟨m, hm, hmem, _, hall⟩ := foldl_min (h :: t) h
      refine ⟨m, ?_, ?_, hall⟩
      · simp only [List.map_cons, arrayMin]; rw [← List.map_cons]; exact congrArg _ hm
      · rcases hmem with rfl | h'
        · exact List.mem_cons_self
        · exact h'
    · obtain ⟨m, hm, hmem, _, hall⟩ := foldl_max (h :: t) h
      refine ⟨m, ?_, ?_, hall⟩
      · simp only [List.map_cons, arrayMax]; rw [← List.map_cons]; exact congrArg _ hm
      · rcases hmem with rfl | h'
        · exact List.mem_cons_self
        · exact h'

/-- median = the middle of the sorted array (mean of the two middle elements for an even size);
    `sortRat qs` is a sorted permutation of qs; the empty array is rejected -/
theorem C12_median (qs : List Rat) (hne : qs ≠ []) :
    (sortRat qs).Perm qs ∧ (sortRat qs).Pairwise (· ≤ ·) ∧
    arrayMedian (qs.map canon) = .ok (canon (
      if qs.length % 2 = 0 then ((sortRat qs).getD (qs.length / 2 - 1) 0 + (sortRat qs).getD (qs.length / 2) 0) / 2
      else (sortRat qs).getD (qs.length / 2) 0)) ∧
    arrayMedian ([] : List Num) = .error .funArg := by
  obtain ⟨hp, hs⟩ := sortRat_perm_sorted qs
  refine ⟨hp, hs, ?_, rfl⟩
  have hlen : (sortRat qs).length = qs.length := hp.length_eq
  have hemp : (qs.map canon).isEmpty = false := by cases qs <;> simp_all
  have hget : ∀ i, ((sortRat qs).map canon).getD i (.int 0) = canon ((sortRat qs).getD i 0) := by
    intro i
    simp only [List.getD_eq_getElem?_getD, List.getElem?_map]
    cases (sortRat qs)[i]? with
    | none => simp [canon_zero]
    | some v => rfl
  unfold arrayMedian
  simp only [hemp, Bool.false_eq_true, if_false, sortNums_canon, List.length_map, hlen, hget]
  by_cases hev : qs.length % 2 = 0
  · simp only [hev, if_true, binop_add_canon, bind, Except.bind]
    have h2 : (Num.int 2) = canon ((2 : Int) : Rat) := (canon_intCast 2).symm
    rw [h2, binop_div_canon]
    norm_num
  · simp only [hev, if_false]

section comprehension
variable {V : Type}

/-- **lock-step up to the shortest**: position i binds the generator variables exactly when every
    generator array still has an element at i -/
theorem C12_comprehension_lockstep (names : List String) (arrays : List (List V)) (env : Arr.Env V) (i : Nat)
    (hlen : names.length = arrays.length) :
    (comprStep.bind i names arrays env).isSome = true ↔ ∀ a ∈ arrays, i < a.length := by
  induction names generalizing arrays env with
  | nil =>
    cases arrays with
    | nil => simp [comprStep.bind]
    | cons a as => simp at hlen
  | cons n ns ih =>
    cases arrays with
    | nil => simp at hlen
    | cons a as =>
      simp only [List.length_cons, Nat.add_right_cancel_iff] at hlen
      simp only [comprStep.bind, List.mem_cons, forall_eq_or_imp]
      by_cases h : i < a.length
      · simp only [h, dite_true, true_and]; exact ih as _ hlen
      · simp [h]

/-- every condition is evaluated and each must be 0 or 1: the position is kept exactly when all are 1 -/
theorem C12_conditions (conds : List (Arr.Env V → Except Err Cond)) (e : Arr.Env V) (ok : Bool)
    (hall : ∀ c ∈ conds, c e = .ok .one ∨ c e = .ok .zero) :
    comprStep.evalConds e conds ok = .ok (ok && conds.all (fun c => decide (c e = .ok .one))) := by
  induction conds generalizing ok with
  | nil => simp [comprStep.evalConds]
  | cons c cs ih =>
    have hcs : ∀ c' ∈ cs, c' e = .ok .one ∨ c' e = .ok .zero := fun c' h => hall c' (List.mem_cons_of_mem _ h)
    rcases hall c List.mem_cons_self with h | h
    · simp [comprStep.evalConds, h, bind, Except.bind, ih ok hcs]
    · simp [comprStep.evalConds, h, bind, Except.bind, ih false hcs]

/-- a condition that is not 0 or 1 is an error (wherever it stands, if the earlier ones evaluate) -/
theorem C12_condition_not_bool (pre post : List (Arr.Env V → Except Err Cond)) (c : Arr.Env V → Except Err Cond)
    (e : Arr.Env V) (ok : Bool) (hpre : ∀ c' ∈ pre, c' e = .ok .one ∨ c' e = .ok .zero) (hc : c e = .ok .notBool) :
    comprStep.evalConds e (pre ++ c :: post) ok = .error .eval := by
  induction pre generalizing ok with
  | nil => simp [comprStep.evalConds, hc, bind, Except.bind]
  | cons p ps ih =>
    have hps : ∀ c' ∈ ps, c' e = .ok .one ∨ c' e = .ok .zero := fun c' h => hpre c' (List.mem_cons_of_mem _ h)
    rcases hpre p List.mem_cons_self with h | h
    · simp [comprStep.evalConds, h, bind, Except.bind, ih ok hps]
    · simp [comprStep.evalConds, h, bind, Except.bind, ih false hps]

theorem comprLoop_spec (names : List String) (arrays : List (List V))
    (conds : List (Arr.Env V → Except Err Cond)) (body : Arr.Env V → Except Err V) (env : Arr.Env V)
    (m : Nat) (r : Nat → Option V)
    (hsteps : ∀ i, i < m → comprStep names arrays conds body env i = .ok (some (r i)))
    (hend : comprStep names arrays conds body env m = .ok none)
    (d i : Nat) (hi : i + d = m) (fuel : Nat) (hf : d + 1 ≤ fuel) (acc : List V) :
    comprLoop names arrays conds body env fuel i acc =
      .ok (acc.reverse ++ (List.range' i d).filterMap r) := by
  induction d generalizing i fuel acc with
  | zero =>
    have : i = m := by omega
    subst this
    cases fuel with
    | zero => omega
    | succ f => simp [comprLoop, hend, bind, Except.bind]
  | succ d ih =>
    cases fuel with
    | zero => omega
    | succ f =>
      have hs := hsteps i (by omega)
      simp only [comprLoop, hs, bind, Except.bind]
      cases hr : r i with
      | none =>
        simp only [ih (i + 1) (by omega) f (by omega) acc, List.range'_succ, List.filterMap_cons, hr]
      | some v =>
        simp only [ih (i + 1) (by omega) f (by omega) (v :: acc), List.range'_succ, List.filterMap_cons, hr,
          List.reverse_cons, List.append_assoc, List.singleton_append]

/-- **comprehension**: if position i (for each i below m) binds, passes its conditions or not, and
    yields the body value `r i` (or is filtered out: `none`), and the generators are exhausted at m,
    the result lists the kept body values in order; and a clause list without a generator is an error. -/
theorem C12_comprehension (names : List String) (arrays : List (List V))
    (conds : List (Arr.Env V → Except Err Cond)) (body : Arr.Env V → Except Err V) (env : Arr.Env V)
    (m : Nat) (r : Nat → Option V) (hne : names ≠ [])
    (hm : m = (arrays.map List.length).foldl min (arrays.headD []).length)
    (hsteps : ∀ i, i < m → comprStep names arrays conds body env i = .ok (some (r i)))
    (hend : comprStep names arrays conds body env m = .ok none) :
    comprehension names arrays conds body env = .ok ((List.range m).filterMap r) ∧
    comprehension ([] : List String) arrays conds body env = .error .eval := by
  refine ⟨?_, rfl⟩
  unfold comprehension
  have : names.isEmpty = false := by cases names <;> simp_all
  simp only [this, Bool.false_eq_true, if_false, ← hm]
  rw [comprLoop_spec names arrays conds body env m r hsteps hend m 0 (by omega) (m + 1) (by omega) []]
  simp [List.range_eq_range']

/-- the first failing position aborts the whole comprehension with its error -/
theorem C12_comprehension_error (names : List String) (arrays : List (List V))
    (conds : List (Arr.Env V → Except Err Cond)) (body : Arr.Env V → Except Err V) (env : Arr.Env V)
    (k : Nat) (r : Nat → Option V) (e : Err)
    (hsteps : ∀ i, i < k → comprStep names arrays conds body env i = .ok (some (r i)))
    (hfail : comprStep names arrays conds body env k = .error e)
    (d i : Nat) (hi : i + d = k) (fuel : Nat) (hf : d + 1 ≤ fuel) (acc : List V) :
    comprLoop names arrays conds body env fuel i acc = .error e := by
  induction d generalizing i fuel acc with
  | zero =>
    have : i = k := by omega
    subst this
    cases fuel with
    | zero => omega
    | succ f => simp [comprLoop, hfail, bind, Except.bind]
  | succ d ih =>
    cases fuel with
    | zero => omega
    | succ f =>
      have hs := hsteps i (by omega)
      simp only [comprLoop, hs, bind, Except.bind]
      cases r i with
      | none => exact ih (i + 1) (by omega) f (by omega) acc
      | some v => exact ih (i + 1) (by omega) f (by omega) (v :: acc)

end comprehension

/-- non-vacuity of the comprehension theorem: `{x*10 : x in {1,2,3}, y in {7,8}, x ≠ 2}` ↦ {10} -/
example : comprehension (V := Int) ["x", "y"] [[1, 2, 3], [7, 8]]
    [fun e => .ok (if e.lookup "x" = some 2 then .zero else .one)]
    (fun e => .ok ((e.lookup "x").getD 0 * 10)) [] = .ok [10] := by
  decide

/-- non-vacuity: the aggregates of {3/2, 1/2, 2} -/
example : arraySum ([3/2, 1/2, 2].map canon) = .ok (.int 4) ∧ arrayMean ([3/2, 1/2, 2].map canon) = .ok (canon (4/3)) := by
  constructor
  · rw [(C12_sum_prod_size_in [3/2, 1/2, 2] 0).1]; norm_num; exact canon_intCast 4
  · rw [(C12_mean [3/2, 1/2, 2]).1 (by simp)]; norm_num

end KaVerif
