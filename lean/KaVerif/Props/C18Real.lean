import KaVerif.Model.Sample
import Mathlib.Analysis.SpecialFunctions.Log.Basic
/-
  C18 — inverse transform for the two samplers that go through the logarithm, over ℝ with the real
  `Real.log`: the generic formulas `exponentialG` / `geometricG` of Model/Sample.lean (the very
  definitions the driver executes over `Rat` with a floating-point `ln`) instantiated at ℝ.
  The cdfs are the code's `Exponential.cdf` / `Geometric.cdf`, restated.
-/
namespace KaVerif
open Sample

/-- **C18 inverse transform, Exponential** (real logarithm): for `u ∈ [0,1)`, `λ > 0` and every `t`:
    `-ln(1-u)/λ < t ⟺ u < F(t)` with `F(t) = 0` for `t < 0` and `1 - exp(-λt)` otherwise
    (`Exponential.cdf`) — so `P(sample < t) = F(t)`. -/
theorem C18_inverse_transform_exponential (lam u t : ℝ) (hl : 0 < lam) (h0 : 0 ≤ u) (h1 : u < 1) :
    exponentialG Real.log lam u < t ↔ u < (if t < 0 then 0 else 1 - Real.exp (-lam * t)) := by
  unfold exponentialG
  have hpos : 0 < 1 - u := by linarith
  have hlog : Real.log (1 - u) ≤ 0 := Real.log_nonpos (le_of_lt hpos) (by linarith)
  by_cases ht : t < 0
  · simp only [ht, if_true]
    constructor
    · intro h
      have : 0 ≤ -Real.log (1 - u) / lam := div_nonneg (by linarith) (le_of_lt hl)
      linarith
    · intro h; linarith
  · simp only [ht, if_false]
    rw [div_lt_iff₀ hl]
    have key : -(lam * t) < Real.log (1 - u) ↔ Real.exp (-(lam * t)) < 1 - u :=
      Real.lt_log_iff_exp_lt hpos
    have e : -lam * t = -(lam * t) := by ring
    rw [e]
    constructor
    · intro h
      have := key.mp (by linarith)
      linarith
    · intro h
      have := key.mpr (by linarith)
      linarith

/-- **C18 inverse transform, Geometric** (real logarithm): for `u ∈ (0,1)`, `0 < p < 1` and every
    integer `t`: `⌈ln(1-u)/ln(1-p)⌉ ≤ t ⟺ u ≤ F(t)` with `F(t) = 0` for `t < 1` and `1 - (1-p)^t`
    otherwise (`Geometric.cdf`) — so `P(sample ≤ t) = F(t)`. -/
theorem C18_inverse_transform_geometric (p u : ℝ) (hp0 : 0 < p) (hp1 : p < 1) (h0 : 0 < u) (h1 : u < 1)
    (t : ℤ) :
    geometricG Real.log (fun x => ⌈x⌉) p u ≤ t ↔ u ≤ (if t < 1 then 0 else 1 - (1 - p) ^ t.toNat) := by
  unfold geometricG
  have hu : 0 < 1 - u := by linarith
  have hq : 0 < 1 - p := by linarith
  have hlu : Real.log (1 - u) < 0 := Real.log_neg hu (by linarith)
  have hlq : Real.log (1 - p) < 0 := Real.log_neg hq (by linarith)
  have hr : 0 < Real.log (1 - u) / Real.log (1 - p) := div_pos_of_neg_of_neg hlu hlq
  by_cases ht : t < 1
  · simp only [ht, if_true]
    constructor
    · intro h
      have : (1 : ℤ) ≤ ⌈Real.log (1 - u) / Real.log (1 - p)⌉ := Int.one_le_ceil_iff.mpr hr
      omega
    · intro h; linarith
  · simp only [ht, if_false]
    have htn : ((t.toNat : ℕ) : ℤ) = t := Int.toNat_of_nonneg (by omega)
    have htr : ((t.toNat : ℕ) : ℝ) = (t : ℝ) := by exact_mod_cast htn
    rw [Int.ceil_le, div_le_iff_of_neg hlq, ← htr, ← Real.log_pow]
    have hpow : 0 < (1 - p) ^ t.toNat := pow_pos hq _
    rw [Real.log_le_log_iff hpow hu]
    constructor <;> intro h <;> linarith

/-- non-vacuity: the hypotheses are satisfiable and the statement is not degenerate -/
example : (0 : ℝ) < 2 ∧ (0 : ℝ) ≤ 1 / 2 ∧ (1 / 2 : ℝ) < 1 ∧ (0 : ℝ) < 1 / 3 ∧ (1 / 3 : ℝ) < 1 := by norm_num

end KaVerif
