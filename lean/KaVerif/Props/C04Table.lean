import KaVerif.Model.Quantity
import KaVerif.Gen.Units
/-
  C04 — which registered units are in the exact regime: a table fact re-checked on every run.
-/
namespace KaVerif
open Units

/-- every registered multiple / offset / prefix multiplier whose Python kind is `int` is stored with
    denominator 1, and every `Fraction` one is a reduced non-integral fraction: so `Qty.numOf` yields
    the canonical form (`canon`) of its value, which is the hypothesis of the C04 theorems -/
theorem C04_table_canonical :
    (Gen.Units.units.all fun u =>
      (match u.mulKind with
        | .int => u.mulDen == 1
        | .frac => u.mulDen != 1 && Nat.gcd u.mulNum.natAbs u.mulDen == 1
        | .float => true) &&
      (match u.offKind with
        | .int => u.offDen == 1
        | .frac => u.offDen != 1 && Nat.gcd u.offNum.natAbs u.offDen == 1
        | .float => true)) = true ∧
    (Gen.Units.prefixes.all fun p =>
      match p.mulKind with
        | .int => p.mulDen == 1
        | .frac => p.mulDen != 1 && Nat.gcd p.mulNum p.mulDen == 1
        | .float => false) = true := by
  constructor <;> decide +kernel

end KaVerif
