import KaVerif.Gen.Registry
/-
  C05 — the tie between the evaluation model (Model/Comb.lean `applyMul`/`applyDiv`/`coerceNumber`) and the
  registry of the current source tree: which registered overload `dispatch` selects for `*` and `/` on each
  pair of the kinds int / Fraction / float / Combinatoric, that `!` and `C` are the lazy constructors, and
  that every other operator or numeric function applied to a Combinatoric is the one declared on `Number`
  (so `coerce_to` resolves the lazy argument before the body runs).  Regenerated and re-checked on every run.
-/
namespace KaVerif
open Dispatch Gen.Registry

namespace C05Table

def chosen (name : String) (args : List Nat) : Option Sig :=
  closest sub (applicable inst ((registry.lookup name).getD []) args)

def chosenImpl (name : String) (args : List Nat) : Option String :=
  (chosen name args).bind (fun s => implNames[s.impl]?)

/-- declared positional parameter types of the chosen overload -/
def chosenParams (name : String) (args : List Nat) : Option (List String) :=
  (chosen name args).map (fun s => s.pos.map (fun t => typeNames.getD t "?"))

def cInt : Nat := classNames.idxOf "int"
def cFrac : Nat := classNames.idxOf "Fraction"
def cFlt : Nat := classNames.idxOf "float"
def cComb : Nat := classNames.idxOf "Combinatoric"

def exact2 : List Nat := [cInt, cFrac]
def all4 : List Nat := [cInt, cFrac, cFlt, cComb]

/-- operators other than `*` `/` that take two numbers -/
def numBinOps : List String := ["+", "-", "%", "^", "<", "<=", "==", "!=", ">", ">="]
/-- one-argument numeric functions -/
def numUnFuns : List String :=
  ["+", "-", "abs", "floor", "ceil", "round", "int", "float", "sqrt", "sin", "cos", "tan", "ln", "log10", "log2"]

end C05Table
open C05Table

theorem C05_dispatch_table :
    -- the lazy constructors
    chosenImpl "!" [cInt] = some "!|(Integral)|ka.utils.lazy_factorial" ∧
    chosenImpl "C" [cInt, cInt] = some "C|(Integral, Integral)|ka.utils.lazy_choose" ∧
    -- Combinatoric × Combinatoric
    chosenImpl "*" [cComb, cComb] = some "*|(Combinatoric, Combinatoric)|ka.functions.comb_times_comb" ∧
    chosenImpl "/" [cComb, cComb] = some "/|(Combinatoric, Combinatoric)|ka.functions.comb_div_comb" ∧
    -- Combinatoric with an int or a Fraction, either side
    (exact2.all fun k =>
      chosenImpl "*" [cComb, k] == some "*|(Combinatoric, Rational)|ka.functions.comb_times_frac" &&
      chosenImpl "/" [cComb, k] == some "/|(Combinatoric, Rational)|ka.functions.comb_div_frac" &&
      chosenImpl "*" [k, cComb] == some "*|(Rational, Combinatoric)|ka.functions.frac_times_comb" &&
      chosenImpl "/" [k, cComb] == some "/|(Rational, Combinatoric)|ka.functions.frac_div_comb") = true ∧
    -- Combinatoric with a float: Python's operator on (Number, Number), i.e. after `coerce_to` resolved it
    chosenImpl "*" [cComb, cFlt] = some "*|(Number, Number)|_operator.mul" ∧
    chosenImpl "*" [cFlt, cComb] = some "*|(Number, Number)|_operator.mul" ∧
    chosenImpl "/" [cComb, cFlt] = some "/|(Number, Number)|_operator.truediv" ∧
    chosenImpl "/" [cFlt, cComb] = some "/|(Number, Number)|_operator.truediv" ∧
    -- every other binary operator with a Combinatoric on either side is declared on (Number, Number)
    (numBinOps.all fun op => all4.all fun k =>
      chosenParams op [cComb, k] == some ["Number", "Number"] &&
      chosenParams op [k, cComb] == some ["Number", "Number"]) = true ∧
    -- every one-argument numeric function applied to a Combinatoric is the one declared on (Number)
    (numUnFuns.all fun f => chosenParams f [cComb] == some ["Number"]) = true ∧
    (all4.all fun k =>
      chosenParams "log" [cComb, k] == some ["Number", "Number"] &&
      chosenParams "log" [k, cComb] == some ["Number", "Number"]) = true := by
  decide +kernel

end KaVerif
