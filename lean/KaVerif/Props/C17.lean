import KaVerif.Lemmas.InstantLemmas
import KaVerif.Lemmas.InstantRoundLemmas
/-
  C17 — instant arithmetic obeys calendar laws.
  Property theorems only; helper lemmas live in Lemmas/InstantLemmas.lean and
  Lemmas/InstantRoundLemmas.lean.  Model: Model/Instant.lean (an instant = day number since
  0001-01-01 and microsecond of the day; CPython's ord_to_ymd / ymd_to_ord / timedelta rules).
-/
namespace KaVerif
open KaVerif.Instant

/-- **C17 (calendar round trip).**  For every valid civil date of the years 1..9999 the day number
    converts back to the same (year, month, day) and lies inside the calendar; and every day number
    of the calendar converts to a valid date whose day number it is.  (All 3 652 059 days; direct
    arithmetic proof over CPython's `ymd_to_ord` / `ord_to_ymd`, no enumeration.) -/
theorem C17_civil_roundtrip :
    (∀ y m d, validDate y m d = true →
        toCivil (fromCivil y m d) = (y, m, d) ∧ fromCivil y m d < maxDay)
    ∧ (∀ n, n < maxDay →
        validDate (toCivil n).1 (toCivil n).2.1 (toCivil n).2.2 = true
        ∧ fromCivil (toCivil n).1 (toCivil n).2.1 (toCivil n).2.2 = n) :=
  ⟨fun y m d h => ⟨toCivil_fromCivil y m d h, fromCivil_lt_maxDay y m d h⟩,
   fun n h => ⟨toCivil_valid n h, (fromCivil_toCivil n).2⟩⟩

example : validDate 2020 2 29 = true ∧ validDate 1900 2 29 = false ∧ validDate 9999 12 31 = true := by decide
example : fromCivil 1 1 1 = 0 ∧ fromCivil 9999 12 31 + 1 = maxDay ∧ toCivil 737483 = (2020, 2, 29) := by decide

/-- **C17 (whole days).**  `I + n` / `I - n` move the date by exactly `n` days and keep the time
    of day, and are the overflow error exactly when the result leaves years 1..9999;
    `(I + n) - n = I`; `I + n` is the same as `I + n·86400 s` (for the exact number of seconds, and
    for the integer quantity `n·86400 s` as the registered function receives it); and `(I + n) - I`
    is `n` days. -/
theorem C17_days (I : Inst) (n : Int) (hI : I.valid) :
    (instantPlusInt I n =
        if 0 ≤ I.day + n ∧ I.day + n < (maxDay : Int) then .ok ⟨I.day + n, I.us⟩ else .error .overflow)
    ∧ (instantMinusInt I n =
        if 0 ≤ I.day - n ∧ I.day - n < (maxDay : Int) then .ok ⟨I.day - n, I.us⟩ else .error .overflow)
    ∧ (∀ R, instantPlusInt I n = .ok R → instantMinusInt R n = .ok I)
    ∧ plusSeconds I ((n * 86400 : Int) : Rat) = instantPlusInt I n
    ∧ (∀ dim, isTimeDim dim = true → (n * 86400).natAbs ≤ 9007199254740992 →
        instantPlusQuantity I (.int (n * 86400)) dim = instantPlusInt I n)
    ∧ (∀ R, instantPlusInt I n = .ok R → diffUs R I = n * 86400 * 1000000) := by
  have hp := instantPlusInt_eq I n hI
  have h4 : plusSeconds I ((n * 86400 : Int) : Rat) = instantPlusInt I n := by
    unfold plusSeconds instantPlusInt tdDays
    rw [tdSecondsRat_int]
    have e : n * 86400 * 1000000 = n * (usPerDay : Int) := by simp only [usPerDay]; push_cast; ring
    rw [e]
  refine ⟨hp, instantMinusInt_eq I n hI, ?_, h4, ?_, ?_⟩
  · intro R hR
    rw [hp] at hR
    split at hR
    · rename_i hc
      injection hR with hR; subst hR
      have hv : (⟨I.day + n, I.us⟩ : Inst).valid := ⟨hc.1, hc.2, hI.2.2⟩
      rw [instantMinusInt_eq _ n hv]
      have e : I.day + n - n = I.day := by omega
      simp only [e]
      rw [if_pos ⟨hI.1, hI.2.1⟩]
    · cases hR
  · intro dim hd hs
    rw [instantPlusQuantity_int I _ dim hd hs, h4]
  · intro R hR
    rw [hp] at hR
    split at hR
    · injection hR with hR; subst hR
      simp only [diffUs, Inst.total, usPerDay]; push_cast; ring
    · cases hR

example : instantPlusInt ⟨737454, 36000000000⟩ 1 = .ok ⟨737455, 36000000000⟩ := by decide +kernel   -- 2020-01-31T10:00 + 1
example : instantPlusInt ⟨3652058, 0⟩ 1 = .error .overflow := by decide +kernel                   -- 9999-12-31 + 1

/-- **C17 (add / subtract a span, to the microsecond).**  At the microsecond level: if `I + k µs`
    exists then `(I + k) - I = k` and `(I + k) - k = I`; if `I - k` exists then `(I - k) + k = I`.
    For the registered functions: whenever `I + q` evaluates, the span `q` was converted to a whole
    number `k` of microseconds by the rounding function `spanUs` (`C17_span_rounding`),
    `(I + q) - I` is exactly those `k` microseconds and `(I + q) - q = I`; whenever `I - q`
    evaluates, `(I - q) + q = I`. -/
theorem C17_add_sub (I : Inst) (hI : I.valid) (mag : Num) (dim : List Rat) :
    (∀ k R, addUs I k = .ok R → diffUs R I = k ∧ addUs R (-k) = .ok I)
    ∧ (∀ k R, addUs I (-k) = .ok R → addUs R k = .ok I)
    ∧ (∀ R, instantPlusQuantity I mag dim = .ok R →
        ∃ k, spanUs mag = .ok k ∧ diffUs R I = k ∧ instantMinusQuantity R mag dim = .ok I)
    ∧ (∀ R, instantMinusQuantity I mag dim = .ok R →
        ∃ k, spanUs mag = .ok k ∧ diffUs I R = k ∧ instantPlusQuantity R mag dim = .ok I) := by
  refine ⟨?_, ?_, ?_, ?_⟩
  · intro k R h
    obtain ⟨h1, _, h3⟩ := addUs_then_back hI h
    exact ⟨h1, h3⟩
  · intro k R h
    obtain ⟨_, _, h3⟩ := addUs_then_back hI h
    simpa using h3
  · intro R h
    obtain ⟨hd, k, hs, ha⟩ := instantPlusQuantity_ok h
    obtain ⟨h1, _, h3⟩ := addUs_then_back hI ha
    exact ⟨k, hs, h1, by rw [instantMinusQuantity_of hd hs]; exact h3⟩
  · intro R h
    obtain ⟨hd, k, hs, ha⟩ := instantMinusQuantity_ok h
    obtain ⟨h1, _, h3⟩ := addUs_then_back hI ha
    refine ⟨k, hs, ?_, ?_⟩
    · unfold diffUs at h1 ⊢; omega
    · rw [instantPlusQuantity_of hd hs]; simpa using h3

-- 2020-01-31T10:00:00 + 90 min, + (1/3) s, + 1/2 µs (ties to even), − 1 ms
example : instantPlusQuantity ⟨737454, 36000000000⟩ (.int 5400) [0, 0, 1, 0, 0, 0, 0, 0] = .ok ⟨737454, 41400000000⟩ := by decide +kernel
example : instantPlusQuantity ⟨737454, 36000000000⟩ (.frac (1/3)) [0, 0, 1, 0, 0, 0, 0] = .ok ⟨737454, 36000333333⟩ := by decide +kernel
example : instantMinusQuantity ⟨737454, 0⟩ (.frac (1/1000)) [0, 0, 1, 0, 0, 0, 0, 0] = .ok ⟨737453, 86399999000⟩ := by decide +kernel

/-- **C17 (the rounding function from seconds to microseconds).**  `timedelta(seconds=x)` for a
    double of exact value `r`: whole seconds are exact; in general the result is the
    round-half-even of `trunc(r)·10⁶ + p`, where `p` is the double nearest to `10⁶·frac(r)`
    (CPython multiplies in double arithmetic); when that product is exact the result is
    round-half-even of `r·10⁶`; round-half-even is within half a microsecond; and a quantity of an
    integer number `s` of seconds (|s| ≤ 2⁵³) is exactly `s·10⁶` microseconds. -/
theorem C17_span_rounding :
    (∀ s : Int, tdSecondsRat (s : Rat) = tdNorm (s * 1000000))
    ∧ (∀ r p : Rat, dbl (1000000 * (r - (truncRat r : Rat))) = some p →
        tdSecondsRat r = tdNorm (Num.roundHalfEven ((truncRat r * 1000000 : Int) + p)))
    ∧ (∀ r : Rat, dbl (1000000 * (r - (truncRat r : Rat))) = some (1000000 * (r - (truncRat r : Rat))) →
        tdSecondsRat r = tdNorm (Num.roundHalfEven (r * 1000000)))
    ∧ (∀ q : Rat, |(Num.roundHalfEven q : Rat) - q| ≤ 1/2)
    ∧ (∀ s : Int, s.natAbs ≤ 9007199254740992 → spanUs (.int s) = tdNorm (s * 1000000)) := by
  refine ⟨tdSecondsRat_int, tdSecondsRat_spec, ?_, roundHalfEven_near, spanUs_int⟩
  intro r h
  rw [tdSecondsRat_spec r _ h]
  congr 2; push_cast; ring

example : dbl (1000000 * ((3/2 : Rat) - (truncRat (3/2) : Rat))) = some (1000000 * ((3/2 : Rat) - (truncRat (3/2) : Rat))) := by decide +kernel
example : spanUs (.frac (1/2000000)) = .ok 0 ∧ spanUs (.frac (3/2000000)) = .ok 2 ∧ spanUs (.int (-90)) = .ok (-90000000) := by decide +kernel

/-- **C17 (differences).**  `I - J` in microseconds is the negative of `J - I`, it is the elapsed
    time (adding it to `J` gives `I`), it is zero exactly for equal instants, and so is its value
    in seconds.  (The model delivers `Quantity(float((I-J)µs / 10⁶), s)`, correctly rounded.) -/
theorem C17_diff (I J : Inst) (hI : I.valid) (hJ : J.valid) :
    diffUs I J = - diffUs J I
    ∧ addUs J (diffUs I J) = .ok I
    ∧ (diffUs I J = 0 ↔ I = J)
    ∧ ((diffUs I J : Rat) / 1000000 = - ((diffUs J I : Rat) / 1000000)) := by
  refine ⟨by unfold diffUs; omega, addUs_of_total hI (by unfold diffUs; omega), ?_, ?_⟩
  · constructor
    · intro h; exact total_inj hI hJ (by unfold diffUs at h; omega)
    · intro h; subst h; unfold diffUs; omega
  · have : diffUs I J = - diffUs J I := by unfold diffUs; omega
    rw [this]; push_cast; ring

/-- **C17 (comparisons agree with the sign of the difference).**  Each of the six registered
    comparisons returns the integer 1 or 0, and 1 exactly when `I - J` has the corresponding sign. -/
theorem C17_cmp_sign (I J : Inst) (hI : I.valid) (hJ : J.valid) :
    cmpReg .lt I J = .int (if diffUs I J < 0 then 1 else 0)
    ∧ cmpReg .le I J = .int (if diffUs I J ≤ 0 then 1 else 0)
    ∧ cmpReg .gt I J = .int (if 0 < diffUs I J then 1 else 0)
    ∧ cmpReg .ge I J = .int (if 0 ≤ diffUs I J then 1 else 0)
    ∧ cmpReg .eq I J = .int (if diffUs I J = 0 then 1 else 0)
    ∧ cmpReg .ne I J = .int (if diffUs I J ≠ 0 then 1 else 0) := by
  have key : ∀ op, cmpReg op I J = .int (if signHolds op (diffUs I J) then 1 else 0) := by
    intro op
    unfold cmpReg
    have := cmpBool_sign op I J hI hJ
    by_cases h : cmpBool op I J = true
    · rw [if_pos h, if_pos (this.mp h)]
    · rw [if_neg h, if_neg (fun hs => h (this.mpr hs))]
  exact ⟨key .lt, key .le, key .gt, key .ge, key .eq, key .ne⟩

/-- **C17 (floor / ceil).**  For EVERY instant whose day is not the calendar's last:
    `floor I` and `ceil I` exist, `floor I` is midnight of I's day, `ceil I` is midnight of the next
    day (month ends, leap days and year ends included), `floor I ≤ I < ceil I`, both have all time
    fields zero, and they are exactly one day apart. -/
theorem C17_floor_ceil (I : Inst) (hI : I.valid) (hlast : I.day + 1 < (maxDay : Int)) :
    ∃ F C, floorInstant I = .ok F ∧ ceilInstant I = .ok C
      ∧ F = ⟨I.day, 0⟩ ∧ C = ⟨I.day + 1, 0⟩
      ∧ cmpBool .le F I = true ∧ cmpBool .lt I C = true
      ∧ (F.hour = 0 ∧ F.minute = 0 ∧ F.second = 0 ∧ F.micro = 0)
      ∧ (C.hour = 0 ∧ C.minute = 0 ∧ C.second = 0 ∧ C.micro = 0)
      ∧ diffUs C F = (usPerDay : Int) ∧ instantPlusInt F 1 = .ok C
      ∧ F.valid ∧ C.valid := by
  have hF : (⟨I.day, 0⟩ : Inst).valid := ⟨hI.1, hI.2.1, by show (0:Nat) < usPerDay; decide⟩
  have hC : (⟨I.day + 1, 0⟩ : Inst).valid := ⟨by show (0:Int) ≤ I.day + 1; have := hI.1; omega, hlast, by show (0:Nat) < usPerDay; decide⟩
  refine ⟨⟨I.day, 0⟩, ⟨I.day + 1, 0⟩, floorInstant_eq I hI, ?_, rfl, rfl, ?_, ?_, ?_, ?_, ?_, ?_, hF, hC⟩
  · rw [ceilInstant_eq I hI, if_pos hlast]
  · simp [cmpBool, le]
  · have := hI.2.2
    simp only [cmpBool, lt, decide_eq_true_eq]; left; omega
  · simp [Inst.hour, Inst.minute, Inst.second, Inst.micro]
  · simp [Inst.hour, Inst.minute, Inst.second, Inst.micro]
  · simp only [diffUs, Inst.total]; push_cast; ring
  · rw [instantPlusInt_eq _ 1 hF, if_pos ⟨by show (0:Int) ≤ I.day + 1; have := hI.1; omega, hlast⟩]

/-- On the calendar's last day (9999-12-31) `floor` exists and `ceil` is the overflow error
    (its value would be year 10000) — an error, not a crash and not a wrong date. -/
theorem C17_ceil_last_day (I : Inst) (hI : I.valid) (hlast : I.day + 1 = (maxDay : Int)) :
    floorInstant I = .ok ⟨I.day, 0⟩ ∧ ceilInstant I = .error .overflow := by
  refine ⟨floorInstant_eq I hI, ?_⟩
  rw [ceilInstant_eq I hI, if_neg (by omega)]

-- 2020-01-31T10:00:00.000005 (a month end), 2020-02-29, 2019-12-31, 9999-12-31
example : ceilInstant ⟨737454, 36000000005⟩ = .ok ⟨737455, 0⟩ ∧ toCivil 737455 = (2020, 2, 1) := by decide +kernel
example : ceilInstant ⟨737483, 1⟩ = .ok ⟨737484, 0⟩ ∧ toCivil 737484 = (2020, 3, 1) := by decide +kernel
example : ceilInstant ⟨737423, 86399999999⟩ = .ok ⟨737424, 0⟩ ∧ toCivil 737424 = (2020, 1, 1) := by decide +kernel
example : (⟨3652058, 5⟩ : Inst).valid ∧ ceilInstant ⟨3652058, 5⟩ = .error .overflow := by decide +kernel

/-- **C17 (fields of the ISO text).**  For valid written fields, each of the six literal forms
    parses to the instant with exactly those fields: `year … second` (and the microseconds) return
    what was written; the separator may be `T` or a space; missing seconds / time mean zero;
    a year-month literal means the first day of the month and a year-only literal January 1st. -/
theorem C17_fields (y m d h mi s us : Nat) (sep : Char) (hv : validDate y m d = true)
    (hh : h < 24) (hmi : mi < 60) (hs : s < 60) (hus : us < 1000000) (hsep : sep = 'T' ∨ sep = ' ') :
    instantFromIso (textDate y m d ++ sep :: textHMSU h mi s us)
        = .ok ⟨(fromCivil y m d : Nat), ((h * 60 + mi) * 60 + s) * 1000000 + us⟩
    ∧ (let I : Inst := ⟨(fromCivil y m d : Nat), ((h * 60 + mi) * 60 + s) * 1000000 + us⟩
       I.year = y ∧ I.month = m ∧ I.dayOfMonth = d ∧ I.hour = h ∧ I.minute = mi ∧ I.second = s
       ∧ I.micro = us ∧ I.valid)
    ∧ instantFromIso (textDate y m d ++ sep :: textHMS h mi s)
        = .ok ⟨(fromCivil y m d : Nat), ((h * 60 + mi) * 60 + s) * 1000000 + 0⟩
    ∧ instantFromIso (textDate y m d ++ sep :: textHM h mi)
        = .ok ⟨(fromCivil y m d : Nat), ((h * 60 + mi) * 60 + 0) * 1000000 + 0⟩
    ∧ instantFromIso (textDate y m d) = .ok ⟨(fromCivil y m d : Nat), 0⟩
    ∧ instantFromIso (pad4 y ++ '-' :: pad2 m) = .ok ⟨(fromCivil y m 1 : Nat), 0⟩
    ∧ instantFromIso (pad4 y) = .ok ⟨(fromCivil y 1 1 : Nat), 0⟩ := by
  obtain ⟨hy1, hy2, hm1, hm2, hd1, hd2⟩ := (validDate_iff y m d).mp hv
  have hd31 := dimL_le (isLeap y) m
  have hy4 : y < 10000 := by omega
  have hm100 : m < 100 := by omega
  have hd100 : d < 100 := by omega
  have hv1 : validDate y m 1 = true := by
    rw [validDate_iff]; refine ⟨hy1, hy2, hm1, hm2, le_refl 1, ?_⟩; omega
  have hv11 : validDate y 1 1 = true := by
    rw [validDate_iff]; refine ⟨hy1, hy2, le_refl 1, by decide, le_refl 1, ?_⟩
    simp [dimL]
  refine ⟨?_, ?_, ?_, ?_, ?_, ?_, ?_⟩
  · have e : textDate y m d ++ sep :: textHMSU h mi s us
        = textDate y m d ++ (sep :: (textHM h mi ++ (':' :: (pad2 s ++ '.' :: pad6 us)))) := by
      simp [textHMSU, textHMS]
    rw [e, instantFromIso_full, parse_date y m d hy4 hm100 hd100, parse_hm y m d h mi (by omega) (by omega) sep hsep,
      parse_su y m d h mi s us (by omega) hus, isoBuild_ok y m d h mi s us hv hh hmi hs hus]
  · have hrt := toCivil_fromCivil y m d hv
    have hlt := fromCivil_lt_maxDay y m d hv
    simp only [Inst.year, Inst.month, Inst.dayOfMonth, Inst.hour, Inst.minute, Inst.second, Inst.micro,
      Inst.valid, Int.toNat_natCast, hrt]
    refine ⟨trivial, trivial, trivial, by omega, by omega, by omega, by omega, by omega, ?_, ?_⟩
    · exact_mod_cast hlt
    · simp only [usPerDay]; omega
  · have e : textDate y m d ++ sep :: textHMS h mi s
        = textDate y m d ++ (sep :: (textHM h mi ++ (':' :: pad2 s))) := by
      simp [textHMS]
    rw [e, instantFromIso_full, parse_date y m d hy4 hm100 hd100, parse_hm y m d h mi (by omega) (by omega) sep hsep,
      parse_s y m d h mi s (by omega), isoBuild_ok y m d h mi s 0 hv hh hmi hs (by decide)]
  · have e : textDate y m d ++ sep :: textHM h mi = textDate y m d ++ (sep :: (textHM h mi ++ [])) := by simp
    rw [e, instantFromIso_full, parse_date y m d hy4 hm100 hd100, parse_hm y m d h mi (by omega) (by omega) sep hsep]
    simp only [isoSec]
    rw [isoBuild_ok y m d h mi 0 0 hv hh hmi (by decide) (by decide)]
  · have e : textDate y m d = textDate y m d ++ [] := by simp
    rw [e, instantFromIso_full, parse_date y m d hy4 hm100 hd100]
    simp only [isoTime]
    rw [isoBuild_ok y m d 0 0 0 0 hv (by decide) (by decide) (by decide) (by decide)]
  · rw [instantFromIso_yearMonth y m hy4 hm100, isoBuild_ok y m 1 0 0 0 0 hv1 (by decide) (by decide) (by decide) (by decide)]
  · rw [instantFromIso_year y hy4, isoBuild_ok y 1 1 0 0 0 0 hv11 (by decide) (by decide) (by decide) (by decide)]

example : instantFromIso "2020-01-31T10:00:00".toList = .ok ⟨737454, 36000000000⟩
    ∧ instantFromIso "2020-02".toList = .ok ⟨737455, 0⟩ ∧ instantFromIso "2020".toList = .ok ⟨737424, 0⟩
    ∧ instantFromIso "2019-02-29".toList = .invalid ∧ instantFromIso "20200101".toList = .notModelled := by decide +kernel

/-- **C17 (non-time quantities are rejected).**  `validate_time` accepts exactly the exponent
    vector of the second, (0, 0, 1, 0, …, 0); for every other dimension `I + q` and `I - q` are the
    `KaRuntimeError`, whatever the instant and the magnitude — never a value. -/
theorem C17_non_time_rejected (I : Inst) (mag : Num) (dim : List Rat) :
    (isTimeDim dim = true ↔ ∃ n, dim = 0 :: 0 :: 1 :: List.replicate n 0)
    ∧ (isTimeDim dim = false →
        instantPlusQuantity I mag dim = .error .runtime ∧ instantMinusQuantity I mag dim = .error .runtime) :=
  ⟨isTimeDim_iff dim, fun h => ⟨non_time_plus I mag dim h, non_time_minus I mag dim h⟩⟩

example : isTimeDim [0, 1, 0, 0, 0, 0, 0, 0] = false ∧ isTimeDim [0, 0, 2, 0, 0, 0, 0] = false
    ∧ isTimeDim [0, 0, 0, 0, 0, 0, 0, 0] = false ∧ isTimeDim [0, 1, 1, 0, 0, 0, 0, 0] = false := by decide +kernel

/-- **C17 (results out of the year range are errors).**  Moving a valid instant by `k` µs gives
    either the valid instant exactly `k` µs away, or — exactly when that lies outside years
    1..9999 — the overflow error; and every instant any of the operations returns is valid. -/
theorem C17_out_of_range (I : Inst) (hI : I.valid) :
    (∀ k, (∃ R, addUs I k = .ok R ∧ R.valid ∧ R.total = I.total + k
              ∧ (0 ≤ I.total + k ∧ I.total + k < (maxDay : Int) * (usPerDay : Int)))
          ∨ (addUs I k = .error .overflow
              ∧ ¬ (0 ≤ I.total + k ∧ I.total + k < (maxDay : Int) * (usPerDay : Int))))
    ∧ (∀ mag dim R, instantPlusQuantity I mag dim = .ok R → R.valid)
    ∧ (∀ mag dim R, instantMinusQuantity I mag dim = .ok R → R.valid)
    ∧ (∀ n R, instantPlusInt I n = .ok R → R.valid)
    ∧ (∀ n R, instantMinusInt I n = .ok R → R.valid)
    ∧ (∀ R, floorInstant I = .ok R → R.valid)
    ∧ (∀ R, ceilInstant I = .ok R → R.valid) := by
  refine ⟨?_, ?_, ?_, ?_, ?_, ?_, ?_⟩
  · intro k
    by_cases h : 0 ≤ I.total + k ∧ I.total + k < (maxDay : Int) * (usPerDay : Int)
    · left
      rcases addUs_cases I k with ⟨R, hR⟩ | he
      · obtain ⟨h1, h2⟩ := addUs_ok hR
        exact ⟨R, hR, h2, h1, h⟩
      · exfalso
        unfold addUs at he
        simp only [] at he
        split at he
        · cases he
        · rename_i hc
          apply hc
          simp only [Inst.total, usPerDay, maxDay] at *
          omega
    · right; exact ⟨addUs_overflow h, h⟩
  · intro mag dim R h
    obtain ⟨_, k, _, ha⟩ := instantPlusQuantity_ok h
    exact (addUs_ok ha).2
  · intro mag dim R h
    obtain ⟨_, k, _, ha⟩ := instantMinusQuantity_ok h
    exact (addUs_ok ha).2
  · intro n R h
    rw [instantPlusInt_eq I n hI] at h
    split at h
    · rename_i hc; injection h with h; subst h; exact ⟨hc.1, hc.2, hI.2.2⟩
    · cases h
  · intro n R h
    rw [instantMinusInt_eq I n hI] at h
    split at h
    · rename_i hc; injection h with h; subst h; exact ⟨hc.1, hc.2, hI.2.2⟩
    · cases h
  · intro R h
    rw [floorInstant_eq I hI] at h
    injection h with h; subst h
    exact ⟨hI.1, hI.2.1, by show (0:Nat) < usPerDay; decide⟩
  · intro R h
    rw [ceilInstant_eq I hI] at h
    split at h
    · rename_i hc; injection h with h; subst h
      exact ⟨by show (0:Int) ≤ I.day + 1; have := hI.1; omega, hc, by show (0:Nat) < usPerDay; decide⟩
    · cases h

end KaVerif
