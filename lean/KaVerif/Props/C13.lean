import KaVerif.Lemmas.UnitsLemmas
import KaVerif.Props.C13Table
import KaVerif.Props.C13Table2
/-
  C13 — unit names resolve uniquely, prefixes scale exactly, sizes match definitions.

  Model: `Model/Units.lean` (`lookupUnit` = `ka.units.lookup_unit`, `applyPrefix` = `apply_prefix`).
  The first group of theorems holds for EVERY unit table (unbounded in the table's contents); the second
  group is about the table of the current source tree (`Gen/Units.lean`, regenerated on every run) against
  the hand-written reference `Lemmas/UnitRef.lean`, by complete kernel evaluation.
-/
namespace KaVerif
open Units Gen.Units

/-! ## generic: every table -/

/-- **C13 (a spelling that is itself a registered unit always means that unit).** If `w` is a key of
    `NAME_TO_UNIT` (→ unit `i`), or is not but is a key of `SYMBOL_TO_UNIT` (→ `i`), `lookup_unit(w)` returns the
    registered unit `i` itself — no prefix is tried, whatever prefixed readings `w` also has. -/
theorem C13_exact_wins (t : UnitTable) (w : List Nat) (i : Nat)
    (h : assoc t.names w = some i ∨ (assoc t.names w = none ∧ assoc t.symbols w = some i)) :
    lookupUnit t w = .ok (some (t.plain i)) := by
  rcases h with h | ⟨h1, h2⟩
  · simp [lookupUnit, lookupHit, h, UnitTable.plain]
  · simp [lookupUnit, lookupHit, h1, h2, UnitTable.plain]

/-- **C13 (prefixes: unique reading).** `w` is not a registered spelling, it reads as prefix `p` on unit `i`
    (by name on a name, or by symbol on the symbol), and every other reading of `w` is the same unit with a prefix of
    the same multiplier (the table has two spellings `k`/`K` of kilo).  Then `lookup_unit(w)` is `apply_prefix(p, unit i)`. -/
theorem C13_prefix_unique (t : UnitTable) (w : List Nat) (p : PrefixRec) (i : Nat)
    (hnew : assoc t.names w = none ∧ assoc t.symbols w = none)
    (hr : Reading t.names t.symbols t.prefixes w p i)
    (huniq : ∀ p' i', Reading t.names t.symbols t.prefixes w p' i' → i' = i ∧ p'.sameMult p) :
    lookupUnit t w = (applyPrefix p i (t.unit i)).map some := by
  have hsome := prefixLoop_complete _ _ _ _ _ _ hr
  cases hl : prefixLoop t.names t.symbols w t.prefixes with
  | none => rw [hl] at hsome; cases hsome
  | some h =>
    obtain ⟨p', hp', hr'⟩ := prefixLoop_sound _ _ _ _ _ hl
    obtain ⟨hi, hm⟩ := huniq p' h.idx hr'
    obtain ⟨j, pre⟩ := h
    simp only at hp' hi
    subst hp'; subst hi
    simp only [lookupUnit, lookupHit, hnew.1, hnew.2, hl]
    rw [applyPrefix_congr p' p hm]

/-- **C13 (prefixes scale exactly; refused on offset units).** Under the hypotheses of `C13_prefix_unique`:
    if the unit has no offset the result is the same unit record with
    `multiple = prefix.multiplier * unit.multiple` *exactly* (as rational numbers; Python kind: float if the unit's
    multiple is a float, int for int*int, Fraction otherwise); if it has an offset, `InvalidPrefixError`. -/
theorem C13_prefix_scales (t : UnitTable) (w : List Nat) (p : PrefixRec) (i : Nat)
    (hnew : assoc t.names w = none ∧ assoc t.symbols w = none)
    (hr : Reading t.names t.symbols t.prefixes w p i)
    (huniq : ∀ p' i', Reading t.names t.symbols t.prefixes w p' i' → i' = i ∧ p'.sameMult p) :
    ((t.unit i).offNum = 0 →
      ∃ r, lookupUnit t w = .ok (some r) ∧ r.idx = i ∧ r.unit = t.unit i ∧
           r.multiple = p.mult * (t.unit i).multiple ∧ r.mulKind = mulKindOf p.mulKind (t.unit i).mulKind) ∧
    ((t.unit i).offNum ≠ 0 → lookupUnit t w = .error .invalidPrefix) := by
  rw [C13_prefix_unique t w p i hnew hr huniq]
  constructor
  · intro h0
    cases hap : applyPrefix p i (t.unit i) with
    | error e => simp [applyPrefix, h0] at hap
    | ok r =>
      obtain ⟨h1, h2, h3, h4⟩ := applyPrefix_multiple p i (t.unit i) r hap
      exact ⟨r, rfl, h2, h3, h1, h4⟩
  · intro h0
    simp [applyPrefix, h0, Except.map]

/-- **C13 (no reading, no unit).** A spelling that is not registered and has no prefixed reading is unknown
    (`None`), and conversely `None` is only returned for such spellings. -/
theorem C13_unknown_iff (t : UnitTable) (w : List Nat) :
    lookupUnit t w = .ok none ↔
      (assoc t.names w = none ∧ assoc t.symbols w = none ∧ ∀ p i, ¬ Reading t.names t.symbols t.prefixes w p i) := by
  constructor
  · intro h
    cases hn : assoc t.names w with
    | some i => rw [C13_exact_wins t w i (.inl hn)] at h; cases h
    | none =>
      cases hs : assoc t.symbols w with
      | some i => rw [C13_exact_wins t w i (.inr ⟨hn, hs⟩)] at h; cases h
      | none =>
        refine ⟨rfl, rfl, fun p i hr => ?_⟩
        have hsome := prefixLoop_complete _ _ _ _ _ _ hr
        cases hl : prefixLoop t.names t.symbols w t.prefixes with
        | none => rw [hl] at hsome; cases hsome
        | some hit =>
          obtain ⟨p', hp', _⟩ := prefixLoop_sound _ _ _ _ _ hl
          obtain ⟨j, pre⟩ := hit
          simp only at hp'; subst hp'
          simp only [lookupUnit, lookupHit, hn, hs, hl] at h
          cases hap : applyPrefix p' j (t.unit j) <;> simp [hap, Except.map] at h
  · rintro ⟨hn, hs, hno⟩
    cases hl : prefixLoop t.names t.symbols w t.prefixes with
    | none => simp [lookupUnit, lookupHit, hn, hs, hl]
    | some hit =>
      obtain ⟨p', _, hr'⟩ := prefixLoop_sound _ _ _ _ _ hl
      exact absurd hr' (hno p' hit.idx)

/-- **C13 (unit names are case-sensitive: spellings are compared code point by code point).** Two spellings are
    the same key exactly when they are the same sequence of code points — no case folding, no normalisation. -/
theorem C13_code_points (a b : List Nat) : eqCp a b = true ↔ a = b := eqCp_iff a b

/-! ## the unit table of the current source tree -/

/-- **C13 (every unit is reachable under its symbol, singular and plural name with one and the same meaning).**
    For every entry `u = UNITS[i]`: `lookup_unit` of each of its spellings returns that very record, unprefixed. -/
theorem C13_reachable (i : Nat) (u : UnitRec) (hu : table.units[i]? = some u) :
    table.unit i = u ∧
    lookupUnit table u.symbol = .ok (some (table.plain i)) ∧
    lookupUnit table u.singular = .ok (some (table.plain i)) ∧
    (u.hasPlural = true → lookupUnit table u.plural = .ok (some (table.plain i))) :=
  reachable_sound table reachAll i u hu

/-- table fact: every key of the two maps points at a unit of the table (what that unit's own spellings resolve to is
    `C13_reachable`; that no key is a mere alias is `C13_maps_own_spellings` in Props/C13Complete.lean) -/
theorem C13_maps_wellformed :
    (∀ e ∈ table.names, ∃ u, table.units[e.2]? = some u) ∧ (∀ e ∈ table.symbols, ∃ u, table.units[e.2]? = some u) := by
  constructor
  · intro e he
    have h := Table.namesWF
    simp only [namesWellFormed, List.all_eq_true] at h
    have := h e he
    split at this
    · rename_i u hu; exact ⟨u, hu⟩
    · cases this
  · intro e he
    have h := Table.symbolsWF
    simp only [symbolsWellFormed, List.all_eq_true] at h
    have := h e he
    split at this
    · rename_i u hu; exact ⟨u, hu⟩
    · cases this

/-- **C13 (every prefix scales by its power of 10 or 2).** The stored multiplier of each entry of `PREFIXES` is
    exactly `base ^ exponent` (negative exponents as exact fractions). -/
theorem C13_prefix_mult (p : PrefixRec) (hp : p ∈ table.prefixes) : p.mult = (p.base : ℚ) ^ p.exp := by
  have h := Table.prefixMult
  rw [List.all_eq_true] at h
  exact prefixMultOk_sound p (h p hp)

/-- **C13 (the prefixes are the SI and binary prefixes).** Every entry of `PREFIXES` is one of the reference
    prefixes (hand-written: yotta…yocto with `k` and `K` for kilo, kibi…tebi) with the same name, symbol, base and
    exponent — so together with `C13_prefix_mult` its multiplier is the documented power — and none is missing. -/
theorem C13_prefix_table :
    (∀ p ∈ table.prefixes, ∃ r ∈ refPrefixes, r.name = p.name ∧ r.sym = p.sym ∧ r.base = p.base ∧ r.exp = p.exp) ∧
    (∀ r ∈ refPrefixes, ∃ p ∈ table.prefixes, r.name = p.name ∧ r.sym = p.sym ∧ r.base = p.base ∧ r.exp = p.exp) := by
  have h := Table.prefixRef
  simp only [prefixesMatchRef, prefixIsRef, Bool.and_eq_true, List.all_eq_true, List.any_eq_true, decide_eq_true_eq] at h
  constructor
  · intro p hp
    obtain ⟨r, hr, ⟨⟨h1, h2⟩, h3⟩, h4⟩ := h.1 p hp
    exact ⟨r, hr, (eqCp_iff _ _).1 h1, (eqCp_iff _ _).1 h2, Nat.eq_of_beq_eq_true h3, h4⟩
  · intro r hr
    obtain ⟨p, hp, ⟨⟨h1, h2⟩, h3⟩, h4⟩ := h.2 r hr
    exact ⟨p, hp, (eqCp_iff _ _).1 h1, (eqCp_iff _ _).1 h2, Nat.eq_of_beq_eq_true h3, h4⟩

/-- table fact: no prefix has an empty name or symbol, and two prefixes that share a name or a symbol have the
    same multiplier (so "which of the two kilos" never matters) -/
theorem C13_prefixes_distinct (p q : PrefixRec) (hp : p ∈ table.prefixes) (hq : q ∈ table.prefixes) :
    p.name ≠ [] ∧ p.sym ≠ [] ∧ ((p.name = q.name ∨ p.sym = q.sym) → p.sameMult q) := by
  have h := Table.prefixDistinct
  simp only [prefixesDistinct, List.all_eq_true, Bool.and_eq_true, Bool.or_eq_true, Bool.not_eq_eq_eq_not, Bool.not_true] at h
  obtain ⟨⟨h1, h2⟩, h3⟩ := h p hp
  refine ⟨by simpa using h1, by simpa using h2, ?_⟩
  intro hpq
  rcases h3 q hq with ⟨hn, hs⟩ | hm
  · rcases hpq with e | e
    · rw [e, eqCp_refl] at hn; cases hn
    · rw [e, eqCp_refl] at hs; cases hs
  · exact (sameMultB_iff p q).1 hm

/-- **C13 (each unit's dimension is that of its SI definition).** Every non-currency unit of the table that has a reference
    entry (on the reviewed tree: every one, `C13_reference_complete`) has the reference's SI dimension in its first seven exponents
    (kg m s A K mol cd — `table.baseUnits` starts with exactly these) and 0 in every further (currency) exponent. -/
theorem C13_dimensions (u : UnitRec) (hu : u ∈ table.units) (hc : u.cash = false) (r : RefUnit) (hr : findRef refUnits u.symbol = some r) :
    table.baseUnits.take 7 = refBase ∧ u.dim.take 7 = r.dim ∧ ∀ e ∈ u.dim.drop 7, e = 0 := by
  refine ⟨by simpa using Table.siBase, ?_⟩
  have h := Table.physical
  rw [List.all_eq_true] at h
  have h1 := h u hu
  simp only [physOk, hc, Bool.false_or, hr, Bool.and_eq_true] at h1
  exact dimOk_sound _ _ h1.1.1

/-- **C13 (every unit's size is within 1 % of its physical definition).** For every non-currency unit with a reference entry
    (on the reviewed tree: every one, `C13_reference_complete`): its multiple (exact rational value of the stored number) differs
    from the reference size by at most 1 %; it has an offset only where the reference has one (degC, degF), equal to within 1e-9. -/
theorem C13_sizes (u : UnitRec) (hu : u ∈ table.units) (hc : u.cash = false) (r : RefUnit) (hr : findRef refUnits u.symbol = some r) :
    |u.multiple - r.size| ≤ r.size / 100 ∧
      (r.offNum = 0 → u.offNum = 0) ∧ (r.offNum ≠ 0 → |u.offset - r.offset| ≤ r.offset / 1000000000) := by
  have h := Table.physical
  rw [List.all_eq_true] at h
  have h1 := h u hu
  simp only [physOk, hc, Bool.false_or, hr, Bool.and_eq_true] at h1
  exact ⟨sizeOk_sound u r h1.1.2, offOk_sound u r h1.2⟩

/-- table fact: every reference entry is the symbol of a registered non-currency unit (nothing documented vanished) -/
theorem C13_reference_covered (r : RefUnit) (hr : r ∈ refUnits) :
    ∃ i u, assoc table.symbols r.symbol = some i ∧ table.units[i]? = some u ∧ u.cash = false ∧ u.symbol = r.symbol := by
  have h := Table.refCover
  rw [List.all_eq_true] at h
  have h1 := h r hr
  unfold refCovered at h1
  split at h1
  · rename_i i hi
    split at h1
    · rename_i u hu
      simp only [Bool.and_eq_true, Bool.not_eq_eq_eq_not, Bool.not_true] at h1
      exact ⟨i, u, hi, hu, h1.1, (eqCp_iff _ _).1 h1.2⟩
    · cases h1
  · cases h1

/-- table fact: every currency has the dimension of the base currency only, no offset and a positive multiple -/
theorem C13_currencies (u : UnitRec) (hu : u ∈ table.units) (hc : u.cash = true) :
    (∀ e ∈ u.dim.take 7, e = 0) ∧ u.dim.drop 7 = [1] ∧ u.offNum = 0 ∧ 0 < u.mulNum := by
  have h := Table.cashDims
  rw [List.all_eq_true] at h
  have h1 := h u hu
  simp only [hc, Bool.not_true, Bool.false_or, Bool.and_eq_true, List.all_eq_true, beq_iff_eq, decide_eq_true_eq] at h1
  exact ⟨h1.1.1.1, h1.1.1.2, h1.1.2, h1.2⟩

/-- **C13 (definitional ratios hold).** For every ratio `1 a = k b` of the reference list (60 s per min, 60 min per h,
    24 h per d, 7 d per week, 12 in per ft, 3 ft per yd, 1760 yd per mi, 2 pt per qt, 4 qt per gal, 8 b per B,
    1000 kg per t, 1000 g per kg, 100 cm per m, 1024 B per KiB, …): both spellings resolve (prefixed ones through the
    prefix loop), have the same dimension and no offset, the multiples satisfy the ratio to within 1e-12, and
    *exactly* when neither multiple is a Python float. -/
theorem C13_ratios (r : RefRatio) (hr : r ∈ refRatios) :
    ∃ x y, lookupUnit table r.a = .ok (some x) ∧ lookupUnit table r.b = .ok (some y) ∧
      x.unit.dim = y.unit.dim ∧ x.unit.offNum = 0 ∧ y.unit.offNum = 0 ∧
      |x.multiple - r.k * y.multiple| ≤ r.k * y.multiple / (1000000000000 : ℕ) ∧
      (x.mulKind ≠ .float → y.mulKind ≠ .float → x.multiple = r.k * y.multiple) := by
  have h := Table.ratios
  rw [List.all_eq_true] at h
  exact ratioOk_sound table _ r (h r hr)

/-- table fact (weaker, NOT part of the strict ratio list): ratios between units the code registers as independently
    rounded decimals (lb = 0.45 kg, oz = 28.35 g, st = 6.35 kg, tsp/tbsp/cup, year = 365 d) hold within 1 %.
    Full strength (`1 lb = 16 oz` to 1e-12) is false of the current table: `1 lb to oz` = 15.873. -/
theorem C13_ratios_rounded_partial (r : RefRatio) (hr : r ∈ refLooseRatios) :
    ∃ x y, lookupUnit table r.a = .ok (some x) ∧ lookupUnit table r.b = .ok (some y) ∧
      x.unit.dim = y.unit.dim ∧ |x.multiple - r.k * y.multiple| ≤ r.k * y.multiple / (100 : ℕ) := by
  have h := Table.looseRatios
  rw [List.all_eq_true] at h
  obtain ⟨x, y, h1, h2, h3, _, _, h6, _⟩ := ratioOk_sound table _ r (h r hr)
  exact ⟨x, y, h1, h2, h3, h6⟩

/-- **C13 (prefixes are refused on offset units).** For every unit of the table with an offset (degC, degF) and every
    one of the 25 prefixes: symbol-prefix + symbol, name-prefix + singular, name-prefix + plural all raise
    `InvalidPrefixError`. -/
theorem C13_offset_units_refuse (u : UnitRec) (hu : u ∈ table.units) (ho : u.offNum ≠ 0) (p : PrefixRec) (hp : p ∈ table.prefixes) :
    lookupUnit table (p.sym ++ u.symbol) = .error .invalidPrefix ∧
    lookupUnit table (p.name ++ u.singular) = .error .invalidPrefix ∧
    (u.hasPlural = true → lookupUnit table (p.name ++ u.plural) = .error .invalidPrefix) := by
  have h := Table.offsetRefuse
  simp only [List.all_eq_true, Bool.or_eq_true, Bool.and_eq_true, beq_iff_eq, Bool.not_eq_eq_eq_not, Bool.not_true] at h
  have refuses : ∀ w, refusesPrefix table w = true → lookupUnit table w = .error .invalidPrefix := by
    intro w hw
    unfold refusesPrefix at hw
    split at hw
    · assumption
    · cases hw
  rcases h u hu with h0 | h1
  · exact absurd h0 ho
  · obtain ⟨⟨a, b⟩, c⟩ := h1 p hp
    refine ⟨refuses _ a, refuses _ b, fun hpl => ?_⟩
    rcases c with c | c
    · rw [hpl] at c; cases c
    · exact refuses _ c

/-- **C13 (unit names are case-sensitive), on the current table.** `Mm` is the megametre and `mm` the millimetre;
    `S`/`s`, `B`/`b`, `T`/`t`, `H`/`h` are different units; `Pa` is the pascal, `PA` the peta-ampere, `pA` the
    pico-ampere and `pa` nothing; `min` is the minute (registered spellings win) while `Min` is the mega-inch;
    `MM`, `KM`, `Metre`, `METRE`, `hz`, `DegC`, `Second`, `Gal`, `FT` are no units. -/
theorem C13_case_sensitive : Table.CaseExamples := Table.caseExamples

/-! ## non-vacuity -/

/-- `km`: not registered, exactly one reading (a kilo on the metre) — the hypotheses of `C13_prefix_unique` /
    `C13_prefix_scales` are satisfiable on the current table (`uniqueReading` decides them, `uniqueReading_spec`),
    and the conclusion is the metre scaled to 1000.  The check counts all such spellings of the table. -/
example : ∃ p i r, uniqueReading table [107, 109] = some (p, i) ∧ lookupUnit table [107, 109] = .ok (some r) ∧
    r.idx = i ∧ (table.unit i).symbol = [109] ∧ r.multiple = 1000 := by
  have hs : (uniqueReading table [107, 109]).map (fun x => (x.1.mulNum, x.1.mulDen, (table.unit x.2).symbol,
      (table.unit x.2).mulNum, (table.unit x.2).mulDen, (table.unit x.2).offNum)) = some (1000, 1, [109], 1, 1, 0) := by
    decide +kernel
  obtain ⟨⟨p, i⟩, hu, hx⟩ := Option.map_eq_some_iff.1 hs
  simp only [Prod.mk.injEq] at hx
  obtain ⟨h1, h2, h3, h4, h5, h6⟩ := hx
  obtain ⟨hnew, hr, huniq⟩ := uniqueReading_spec table _ p i hu
  obtain ⟨r, hl, hidx, _, hmul, _⟩ := (C13_prefix_scales table _ p i hnew hr huniq).1 h6
  refine ⟨p, i, r, hu, hl, hidx, h3, ?_⟩
  rw [hmul]
  simp only [PrefixRec.mult, UnitRec.multiple, h1, h2, h4, h5, mkRat_eq_div']
  norm_num

/-- the reference lists are not empty and the table has physical units and currencies -/
example : 0 < refRatios.length ∧ 0 < refUnits.length ∧ 0 < (table.units.filter (·.cash)).length ∧
    refUnits.length ≤ (table.units.filter (!·.cash)).length ∧ 0 < table.prefixes.length := by decide +kernel

end KaVerif
