/-
  ROUND — `Model/Num.lean`'s rational → double rounding (`Num.posRatToBits`, the body of `Num.ratToFloat`) and
  double → rational decoding (`Num.floatToRat`) against a specification of IEEE-754 binary64
  round-to-nearest, ties-to-even, written over `Rat` / `Nat`.

  Level: BIT PATTERNS.  Lean's `Float.ofBits` / `Float.toBits` are opaque to the kernel, so the theorems
  speak about the 63 low bits `b : Nat` of a non-negative double:
    `Rounding.bitsToRat b`     its exact value (what `floatToRat` computes, sign aside: `ROUND_decode`),
    `Rounding.isFiniteBits b`  `b < 2047 * 2^52`.
  Both are defined at the top of `Lemmas/RoundingLemmas.lean`; the proofs are there too.
-/
import KaVerif.Lemmas.RoundingLemmas

set_option linter.unusedVariables false

namespace KaVerif
open KaVerif.Num KaVerif.Rounding

/-! ### auxiliary: the distance between a rational and a double, cross-multiplied -/

private theorem dist_eq (n d c : Nat) (hd : 0 < d) :
    (n : Rat) / d - bitsToRat c
      = (((((n * 2^1074 : Nat) : Int) - ((bitsToNat c * d : Nat) : Int) : Int)) : Rat)
          / ((d : Rat) * (2:Rat)^(1074:Nat)) := by
  rw [bitsToRat_eq]
  have hdq : (d : Rat) ≠ 0 := by exact_mod_cast (Nat.pos_iff_ne_zero.1 hd)
  push_cast
  have hP : (2:Rat)^(1074:Nat) ≠ 0 := by positivity
  generalize (2:Rat)^(1074:Nat) = P at *
  field_simp

private theorem abs_dist_eq (n d c : Nat) (hd : 0 < d) :
    |(n : Rat) / d - bitsToRat c|
      = ((|((n * 2^1074 : Nat) : Int) - ((bitsToNat c * d : Nat) : Int)| : Int) : Rat)
          / ((d : Rat) * (2:Rat)^(1074:Nat)) := by
  have hpos : (0 : Rat) < (d : Rat) * (2:Rat)^(1074:Nat) := by
    have : (0 : Rat) < d := by exact_mod_cast hd
    positivity
  rw [dist_eq n d c hd, abs_div, abs_of_pos hpos, Int.cast_abs]

/-- **decoding**: `floatToRat` is `bitsToRat` of the bit pattern, with the sign bit as the sign. -/
theorem ROUND_decode (x : Float) :
    floatToRat x = (if x.toBits.toNat / 2^63 % 2 = 1 then -1 else 1) * bitsToRat x.toBits.toNat :=
  floatToRat_eq x

/-- `bitsToRat` in closed form: an integer number of units of 2^-1074. -/
theorem ROUND_decode_units (b : Nat) : bitsToRat b = (bitsToNat b : Rat) / (2:Rat)^(1074:Nat) :=
  bitsToRat_eq b

/-- **2. order**: `bitsToRat` is strictly increasing on finite patterns — the order of patterns is the
    order of values. -/
theorem ROUND_monotone_bits {b c : Nat} (hb : isFiniteBits b) (hc : isFiniteBits c) (h : b < c) :
    bitsToRat b < bitsToRat c := by
  rw [bitsToRat_eq, bitsToRat_eq]
  have hP : (0:Rat) < (2:Rat)^(1074:Nat) := by positivity
  have := bitsToNat_strictMono h (finite_lt hc)
  exact div_lt_div_of_pos_right (by exact_mod_cast this) hP

/-- order, both directions (so `bitsToRat` is injective on finite patterns). -/
theorem ROUND_order_iff {b c : Nat} (hb : isFiniteBits b) (hc : isFiniteBits c) :
    bitsToRat b < bitsToRat c ↔ b < c := by
  constructor
  · intro h
    rcases Nat.lt_trichotomy b c with h1 | h1 | h1
    · exact h1
    · rw [h1] at h; exact absurd h (lt_irrefl _)
    · exact absurd h (not_lt.2 (le_of_lt (ROUND_monotone_bits hc hb h1)))
  · exact ROUND_monotone_bits hb hc

example : bitsToRat 0x3FB999999999999A < bitsToRat 0x3FB999999999999B :=   -- 0.1 and its upper neighbour
  ROUND_monotone_bits (by unfold isFiniteBits; norm_num) (by unfold isFiniteBits; norm_num) (by norm_num)

/-- **3. nearest**: when `posRatToBits n d` delivers a pattern `b` for a positive rational `n/d`, `b` is
    finite and no finite double is nearer to `n/d` than `b`. -/
theorem ROUND_nearest {n d b : Nat} (hn : 0 < n) (hd : 0 < d) (h : posRatToBits n d = some b) :
    isFiniteBits b ∧ ∀ c, isFiniteBits c →
      |(n : Rat) / d - bitsToRat b| ≤ |(n : Rat) / d - bitsToRat c| := by
  obtain ⟨hfin, hnear⟩ := nearest_int hn hd h
  refine ⟨hfin, fun c _ => ?_⟩
  rw [abs_dist_eq n d b hd, abs_dist_eq n d c hd]
  have hpos : (0 : Rat) < (d : Rat) * (2:Rat)^(1074:Nat) := by
    have : (0 : Rat) < d := by exact_mod_cast hd
    positivity
  apply div_le_div_of_nonneg_right _ (le_of_lt hpos)
  exact_mod_cast (hnear _ (bitsToNat_grid c)).1

-- 1/3: the delivered pattern 0x3FD5555555555555 is at least as near as every finite double
example : ∀ c, isFiniteBits c →
    |((1:Nat):Rat) / (3:Nat) - bitsToRat 0x3FD5555555555555| ≤ |((1:Nat):Rat) / (3:Nat) - bitsToRat c| :=
  (ROUND_nearest (n := 1) (d := 3) (by norm_num) (by norm_num) (by decide +kernel)).2

/-- **4. ties to even**: if some other finite double is exactly as near to `n/d` as the delivered `b`,
    then the mantissa of `b` is even. -/
theorem ROUND_ties_even {n d b c : Nat} (hn : 0 < n) (hd : 0 < d) (h : posRatToBits n d = some b)
    (hc : isFiniteBits c) (hne : c ≠ b)
    (htie : |(n : Rat) / d - bitsToRat c| = |(n : Rat) / d - bitsToRat b|) : b % 2 = 0 := by
  obtain ⟨hfin, hnear⟩ := nearest_int hn hd h
  apply (hnear _ (bitsToNat_grid c)).2
  · rw [abs_dist_eq n d b hd, abs_dist_eq n d c hd] at htie
    have hpos : (0 : Rat) < (d : Rat) * (2:Rat)^(1074:Nat) := by
      have : (0 : Rat) < d := by exact_mod_cast hd
      positivity
    have := (div_left_inj' (ne_of_gt hpos)).1 htie
    exact_mod_cast this.symm
  · intro heq
    exact hne (bitsToNat_inj (finite_lt hc) (finite_lt hfin) heq)

-- a genuine tie: 2^53 + 1 lies half way between the doubles 2^53 (…000) and 2^53 + 2 (…001); all hypotheses hold
example : posRatToBits (2^53 + 1) 1 = some 0x4340000000000000 := by decide +kernel
example : |((2^53 + 1 : Nat):Rat) / (1:Nat) - bitsToRat 0x4340000000000001|
    = |((2^53 + 1 : Nat):Rat) / (1:Nat) - bitsToRat 0x4340000000000000| := by
  unfold bitsToRat; norm_num
example : 0x4340000000000000 % 2 = 0 :=
  ROUND_ties_even (n := 2^53 + 1) (d := 1) (c := 0x4340000000000001) (by norm_num) (by norm_num)
    (by decide +kernel) (by unfold isFiniteBits; norm_num) (by norm_num) (by unfold bitsToRat; norm_num)

/-- **5a. overflow**: `none` exactly when `n/d` is at or above `2^1024 − 2^970`, the midpoint between the
    largest finite double and `2^1024` (a tie there goes up, to the even mantissa: overflow). -/
theorem ROUND_overflow {n d : Nat} (hd : 0 < d) :
    posRatToBits n d = none ↔ (2:Rat)^(1024:Nat) - (2:Rat)^(970:Nat) ≤ (n : Rat) / d := by
  have hdq : (0 : Rat) < d := by exact_mod_cast hd
  have e1024 : (2:Rat)^(1024:Nat) = 2^(54:Nat) * 2^(970:Nat) := by rw [← pow_add]
  have e2044 : (2:Rat)^(2044:Nat) = 2^(970:Nat) * 2^(1074:Nat) := by rw [← pow_add]
  have hA : (0:Rat) < (2:Rat)^(970:Nat) := by positivity
  have hP : (0:Rat) < (2:Rat)^(1074:Nat) := by positivity
  rcases Nat.eq_zero_or_pos n with rfl | hn
  · have h0 : posRatToBits 0 d = some 0 := rfl
    rw [h0]
    constructor
    · intro h; exact absurd h (by simp)
    · intro h
      rw [e1024] at h
      generalize (2:Rat)^(970:Nat) = A at *
      norm_num at h
      clear e1024 e2044
      linarith
  · rw [overflow_int hn hd, le_div_iff₀ hdq]
    have key : (((2^54 - 1) * 2^2044 * d : Nat) : Rat)
        = ((2:Rat)^(1024:Nat) - (2:Rat)^(970:Nat)) * d * (2:Rat)^(1074:Nat) := by
      have e : ((2^54 - 1 : Nat) : Rat) = 2^(54:Nat) - 1 := by norm_num
      rw [Nat.cast_mul, Nat.cast_mul, e]
      push_cast
      rw [e2044, e1024]
      ring
    have key2 : ((n * 2^1074 : Nat) : Rat) = (n : Rat) * (2:Rat)^(1074:Nat) := by push_cast; ring
    rw [← Nat.cast_le (α := Rat), key, key2]
    generalize (2:Rat)^(1024:Nat) - (2:Rat)^(970:Nat) = Θ
    generalize (2:Rat)^(1074:Nat) = P at *
    constructor
    · intro h; exact le_of_mul_le_mul_right h hP
    · intro h; exact mul_le_mul_of_nonneg_right h (le_of_lt hP)

-- both sides of the equivalence occur: the midpoint itself overflows, one below it is the largest finite double
example : posRatToBits (2^1024 - 2^970) 1 = none := by decide +kernel
example : posRatToBits (2^1024 - 2^970 - 1) 1 = some 0x7FEFFFFFFFFFFFFF := by decide +kernel
example : posRatToBits (2^1024 - 2^970) 1 = none :=
  (ROUND_overflow (n := 2^1024 - 2^970) (d := 1) (by norm_num)).2 (by
    have h : (2:Nat)^970 ≤ 2^1024 := Nat.pow_le_pow_right (by norm_num) (by norm_num)
    rw [Nat.cast_sub h]; push_cast; simp)

/-- **5b. zero**: `posRatToBits 0 d = some 0` (+0.0). -/
theorem ROUND_zero (d : Nat) : posRatToBits 0 d = some 0 := rfl

/-- **5c. bottom of the subnormal range**: the answer is +0 exactly when `n/d ≤ 2^-1075`, half the
    smallest subnormal (the tie at exactly `2^-1075` goes to the even neighbour, 0). -/
theorem ROUND_underflow {n d : Nat} (hd : 0 < d) :
    posRatToBits n d = some 0 ↔ (n : Rat) / d ≤ 1 / (2:Rat)^(1075:Nat) := by
  have hdq : (0 : Rat) < d := by exact_mod_cast hd
  have hP : (0:Rat) < (2:Rat)^(1074:Nat) := by positivity
  have e1075 : (2:Rat)^(1075:Nat) = 2 * 2^(1074:Nat) := by
    have : (1075:Nat) = 1 + 1074 := rfl
    rw [this, pow_add]; norm_num
  rcases Nat.eq_zero_or_pos n with rfl | hn
  · have h0 : posRatToBits 0 d = some 0 := rfl
    rw [h0]
    simp only [Nat.cast_zero, zero_div, true_iff]
    positivity
  · rw [underflow_int hn hd, e1075, div_le_div_iff₀ hdq (by positivity), ← Nat.cast_le (α := Rat)]
    push_cast
    generalize (2:Rat)^(1074:Nat) = P at *
    constructor <;> intro h <;> linarith

-- the tie at exactly 2^-1075 goes to 0; just above it the answer is the smallest subnormal
example : posRatToBits 1 (2^1075) = some 0 := by decide +kernel
example : posRatToBits 1 (2^1075 - 1) = some 1 := by decide +kernel

/-- **1. exactness**: the exact value of a finite double, written as any fraction `n/d`, rounds to that
    double — `ratToFloat (floatToRat x) = x` at the level of bit patterns. -/
theorem ROUND_exact {b n d : Nat} (hb : isFiniteBits b) (hd : 0 < d)
    (hv : bitsToRat b = (n : Rat) / d) : posRatToBits n d = some b := by
  have hdq : (d : Rat) ≠ 0 := by exact_mod_cast (Nat.pos_iff_ne_zero.1 hd)
  have hP : (2:Rat)^(1074:Nat) ≠ 0 := by positivity
  rw [bitsToRat_eq, div_eq_div_iff hP hdq] at hv
  have hnat : n * 2^1074 = bitsToNat b * d := by
    have : ((bitsToNat b * d : Nat) : Rat) = ((n * 2^1074 : Nat) : Rat) := by push_cast; exact hv
    exact_mod_cast this.symm
  rcases Nat.eq_zero_or_pos n with rfl | hn
  · have h0 : bitsToNat b = bitsToNat 0 := by
      rw [bitsToNat_zero]
      rcases Nat.eq_zero_or_pos (bitsToNat b) with h | h
      · exact h
      · have := Nat.mul_pos h hd; omega
    rw [bitsToNat_inj (finite_lt hb) (by norm_num) h0]
    rfl
  · exact exact_int hb hn hd hnat

-- 0.5 = 1/2 (also 2/4, …: the fraction need not be in lowest terms)
example : posRatToBits 1 2 = some 0x3FE0000000000000 :=
  ROUND_exact (b := 0x3FE0000000000000) (n := 1) (d := 2) (by unfold isFiniteBits; norm_num) (by norm_num)
    (by unfold bitsToRat; norm_num)

/-- exactness in the form `ratToFloat` uses it: numerator and denominator of the value in lowest terms. -/
theorem ROUND_exact_lowest_terms {b : Nat} (hb : isFiniteBits b) :
    posRatToBits (bitsToRat b).num.natAbs (bitsToRat b).den = some b := by
  apply ROUND_exact hb (bitsToRat b).den_pos
  have hnn : 0 ≤ bitsToRat b := by rw [bitsToRat_eq]; positivity
  have hnum : 0 ≤ (bitsToRat b).num := Rat.num_nonneg.2 hnn
  have : (((bitsToRat b).num.natAbs : Nat) : Rat) = (((bitsToRat b).num : Int) : Rat) := by
    rw [← Int.cast_natCast, Int.natAbs_of_nonneg hnum]
  rw [this]
  exact (Rat.num_div_den _).symm

-- the double nearest 0.1, and the largest subnormal
example : posRatToBits (bitsToRat 0x3FB999999999999A).num.natAbs (bitsToRat 0x3FB999999999999A).den
    = some 0x3FB999999999999A := ROUND_exact_lowest_terms (by unfold isFiniteBits; norm_num)
example : posRatToBits (bitsToRat 0x000FFFFFFFFFFFFF).num.natAbs (bitsToRat 0x000FFFFFFFFFFFFF).den
    = some 0x000FFFFFFFFFFFFF := ROUND_exact_lowest_terms (by unfold isFiniteBits; norm_num)

end KaVerif
