import KaVerif.Lemmas.Pipeline3Lemmas
import KaVerif.Props.Pipeline2
import KaVerif.Props.C17
import KaVerif.Props.C08
/-
  PIPE, third batch — instants and probability inside the unified pipeline model.

  `Model/Eval.lean` (text → tokens → parse tree → `eval_node` over the generated registry →
  `reduce_result` → `display_result`) now evaluates instant literals, instant arithmetic, the eight
  distribution constructors, the event constructors, `P`, `E` and `mean` by CALLING the fragment
  models `Model/Instant.lean` and `Model/Prob.lean` (with the generated decision table
  `Gen/ProbTable.lean`).  The theorems below are refinement lemmas: on instant / probability
  expressions the unified evaluator computes exactly the fragments' functions, so that the C17 and
  C08 property theorems are statements about what the whole-program model — the thing
  `harness/pipeline.py` fuzzes against `ka.interpret.execute` — computes.  Each block ends with
  corollaries that transport a C17 / C08 law to the evaluator.

  Helper lemmas: Lemmas/Pipeline3Lemmas.lean (namespace `KaVerif.Pipe3`).
-/
set_option linter.unusedSimpArgs false

namespace KaVerif
open KaVerif.Eval KaVerif.Parser KaVerif.Pipe2 KaVerif.Pipe3

/-! ## the registry tie -/

/-- **The registry tie for instants and probability.**  Kernel-checked over the generated registry
    (`Gen/Registry.lean`, regenerated from the source on every run): which registered implementation
    `dispatch` selects for `floor ceil year … second` on an Instant, for `I - J`, `I ± q`, `q + I`,
    `I ± n`, `n + I`, for the six comparisons of two Instants (the `intify` wrappers, not the
    `(Any, Any)` catch-alls), for the eight distribution constructors on every admitted numeric kind
    (and that a non-int count has no signature), for `E` / `mean` on each of the eight classes, for
    `P` on an Event / a DoubleEvent, for `<` `<=` between a number and a random variable in both
    orders, for `X = k` (discrete variable and int only), for the four forward double chains — and
    that the mixed chains are not registered names; and that the hand-written table `Eval.implTable`
    holds the corresponding model body (`instFloor` … `prob`) under exactly that descriptor.
    Re-pointing a name, changing a closure cell (`make_event_fun(op)`), or dropping a signature breaks
    this at build time.  (Serves C17, C08, C09, C10, C06.) -/
theorem PIPE_dispatch_table3 :
    ((resolveDesc "floor" [cInst] []).toOption = some (chP [tInst] "floor|(Instant)|ka.types.floor_instant" .instFloor) ∧
    (resolveDesc "ceil" [cInst] []).toOption = some (chP [tInst] "ceil|(Instant)|ka.types.ceil_instant" .instCeil) ∧
    (resolveDesc "year" [cInst] []).toOption = some (chP [tInst] "year|(Instant)|ka.types.get_year" (.instField .year)) ∧
    (resolveDesc "month" [cInst] []).toOption = some (chP [tInst] "month|(Instant)|ka.types.get_month" (.instField .month)) ∧
    (resolveDesc "day" [cInst] []).toOption = some (chP [tInst] "day|(Instant)|ka.types.get_day" (.instField .day)) ∧
    (resolveDesc "hour" [cInst] []).toOption = some (chP [tInst] "hour|(Instant)|ka.types.get_hour" (.instField .hour)) ∧
    (resolveDesc "minute" [cInst] []).toOption = some (chP [tInst] "minute|(Instant)|ka.types.get_minute" (.instField .minute)) ∧
    (resolveDesc "second" [cInst] []).toOption = some (chP [tInst] "second|(Instant)|ka.types.get_second" (.instField .second))) ∧
    ((resolveDesc "-" [cInst, cInst] []).toOption = some (chP [tInst, tInst] "-|(Instant, Instant)|ka.types.instant_minus_instant" .instSub) ∧
    (resolveDesc "+" [cInst, cQty] []).toOption = some (chP [tInst, tQty] "+|(Instant, Quantity)|ka.types.instant_plus_quantity" (.instQty true)) ∧
    (resolveDesc "+" [cQty, cInst] []).toOption = some (chP [tQty, tInst]
      "+|(Quantity, Instant)|ka.functions.register_commutative_op.<locals>.reverse_f[ka.types.instant_plus_quantity]" (.rev (.instQty true))) ∧
    (resolveDesc "-" [cInst, cQty] []).toOption = some (chP [tInst, tQty] "-|(Instant, Quantity)|ka.types.instant_minus_quantity" (.instQty false)) ∧
    (resolveDesc "+" [cInst, cInt] []).toOption = some (chP [tInst, tInt] "+|(Instant, Integral)|ka.types.instant_plus_int" (.instInt true)) ∧
    (resolveDesc "+" [cInt, cInst] []).toOption = some (chP [tInt, tInst]
      "+|(Integral, Instant)|ka.functions.register_commutative_op.<locals>.reverse_f[ka.types.instant_plus_int]" (.rev (.instInt true))) ∧
    (resolveDesc "-" [cInst, cInt] []).toOption = some (chP [tInst, tInt] "-|(Instant, Integral)|ka.types.instant_minus_int" (.instInt false))) ∧
    ((resolveDesc "<" [cInst, cInst] []).toOption = some (chP [tInst, tInst] "<|(Instant, Instant)|ka.functions.intify.<locals>.f_new[ka.types.instant_lt]" (.instCmp .lt)) ∧
    (resolveDesc "<=" [cInst, cInst] []).toOption = some (chP [tInst, tInst] "<=|(Instant, Instant)|ka.functions.intify.<locals>.f_new[ka.types.instant_leq]" (.instCmp .le)) ∧
    (resolveDesc ">" [cInst, cInst] []).toOption = some (chP [tInst, tInst] ">|(Instant, Instant)|ka.functions.intify.<locals>.f_new[ka.types.instant_gt]" (.instCmp .gt)) ∧
    (resolveDesc ">=" [cInst, cInst] []).toOption = some (chP [tInst, tInst] ">=|(Instant, Instant)|ka.functions.intify.<locals>.f_new[ka.types.instant_geq]" (.instCmp .ge)) ∧
    (resolveDesc "==" [cInst, cInst] []).toOption = some (chP [tInst, tInst] "==|(Instant, Instant)|ka.functions.intify.<locals>.f_new[_operator.eq]" (.instCmp .eq)) ∧
    (resolveDesc "!=" [cInst, cInst] []).toOption = some (chP [tInst, tInst] "!=|(Instant, Instant)|ka.functions.intify.<locals>.f_new[_operator.ne]" (.instCmp .ne))) ∧
    (∀ a ∈ kinds3, ∀ b ∈ kinds3,
    (resolveDesc "Binomial" [cInt, a] []).toOption = some (chP [tInt, tNum] "Binomial|(Integral, Number)|ka.probability.Binomial" (.mkRv .binomial)) ∧
    (resolveDesc "Poisson" [cInt] []).toOption = some (chP [tInt] "Poisson|(Integral)|ka.probability.Poisson" (.mkRv .poisson)) ∧
    (resolveDesc "Geometric" [a] []).toOption = some (chP [tNum] "Geometric|(Number)|ka.probability.Geometric" (.mkRv .geometric)) ∧
    (resolveDesc "Bernoulli" [a] []).toOption = some (chP [tNum] "Bernoulli|(Number)|ka.probability.Bernoulli" (.mkRv .bernoulli)) ∧
    (resolveDesc "UniformInt" [cInt, cInt] []).toOption = some (chP [tInt, tInt] "UniformInt|(Integral, Integral)|ka.probability.UniformInt" (.mkRv .uniformInt)) ∧
    (resolveDesc "Exponential" [a] []).toOption = some (chP [tNum] "Exponential|(Number)|ka.probability.Exponential" (.mkRv .exponential)) ∧
    (resolveDesc "Uniform" [a, b] []).toOption = some (chP [tNum, tNum] "Uniform|(Number, Number)|ka.probability.Uniform" (.mkRv .uniform)) ∧
    (resolveDesc "Gaussian" [a, b] []).toOption = some (chP [tNum, tNum] "Gaussian|(Number, Number)|ka.probability.Gaussian" (.mkRv .gaussian)) ∧
    (a ≠ cInt → errOf (resolveDesc "Binomial" [a, b] []) = some .noMatch ∧ errOf (resolveDesc "Poisson" [a] []) = some .noMatch ∧
      errOf (resolveDesc "UniformInt" [a, b] []) = some .noMatch ∧ errOf (resolveDesc "UniformInt" [b, a] []) = some .noMatch)) ∧
    (∀ c ∈ rvClasses,
    (resolveDesc "E" [c] []).toOption = some (chP [tRV]
      "E|(RandomVariable)|ka.functions.<lambda:register_function(lambda rv: rv.mean(), \"E\", (RandomVariable,), \"Expectation of a random variable.\")>" .rvMean) ∧
    (resolveDesc "mean" [c] []).toOption = some (chP [tRV]
      "mean|(RandomVariable)|ka.functions.<lambda:register_function(lambda rv: rv.mean(), \"mean\", (RandomVariable,), \"Get the mean of a random variable.\")>" .rvMean)) ∧
    ((resolveDesc "P" [cEvent] []).toOption = some (chP [tEvent]
      "P|(Event)|ka.functions.<lambda:register_function(lambda event: event.probability(), \"P\", (etype,), \"Evaluate the probability of an event.\")>" .prob) ∧
    (resolveDesc "P" [cDEvent] []).toOption = some (chP [tDEvent]
      "P|(DoubleEvent)|ka.functions.<lambda:register_function(lambda event: event.probability(), \"P\", (etype,), \"Evaluate the probability of an event.\")>" .prob)) ∧
    (∀ a ∈ kinds3, ∀ c ∈ rvClasses,
    (resolveDesc "<" [c, a] []).toOption = some (chP [tRV, tNum] "<|(RandomVariable, Number)|ka.functions.make_event_fun.<locals>.event_fun['<']" (.event1 .lt)) ∧
    (resolveDesc "<" [a, c] []).toOption = some (chP [tNum, tRV] "<|(Number, RandomVariable)|ka.functions.make_event_fun.<locals>.event_fun['<']" (.event1 .lt)) ∧
    (resolveDesc "<=" [c, a] []).toOption = some (chP [tRV, tNum] "<=|(RandomVariable, Number)|ka.functions.make_event_fun.<locals>.event_fun['<=']" (.event1 .le)) ∧
    (resolveDesc "<=" [a, c] []).toOption = some (chP [tNum, tRV] "<=|(Number, RandomVariable)|ka.functions.make_event_fun.<locals>.event_fun['<=']" (.event1 .le))) ∧
    ((∀ c ∈ discClasses, (resolveDesc "=" [c, cInt] []).toOption = some (chP [tDRV, tInt]
      "=|(DiscreteRandomVariable, Integral)|ka.functions.<lambda:register_function(lambda x, y: Event(ComparisonOp.EQ, x, y), ComparisonOp.EQ, (DiscreteRandomVariable, Integral), \"Compa>" (.event1 .eq))) ∧
    (∀ c ∈ rvClasses, ∀ a ∈ kinds3, errOf (resolveDesc "=" [a, c] []) = some .noMatch ∧
      (a ≠ cInt → errOf (resolveDesc "=" [c, a] []) = some .noMatch)) ∧
    (∀ c ∈ [cExponential, cUniform, cGaussian], errOf (resolveDesc "=" [c, cInt] []) = some .noMatch)) ∧
    (∀ a ∈ kinds3, ∀ c ∈ rvClasses, ∀ b ∈ kinds3,
    (resolveDesc "<_<" [a, c, b] []).toOption = some (chP [tNum, tRV, tNum] "<_<|(Number, RandomVariable, Number)|ka.functions.make_double_event_fun.<locals>.event_fun['<','<']" (.event2 .lt .lt)) ∧
    (resolveDesc "<_<=" [a, c, b] []).toOption = some (chP [tNum, tRV, tNum] "<_<=|(Number, RandomVariable, Number)|ka.functions.make_double_event_fun.<locals>.event_fun['<','<=']" (.event2 .lt .le)) ∧
    (resolveDesc "<=_<" [a, c, b] []).toOption = some (chP [tNum, tRV, tNum] "<=_<|(Number, RandomVariable, Number)|ka.functions.make_double_event_fun.<locals>.event_fun['<=','<']" (.event2 .le .lt)) ∧
    (resolveDesc "<=_<=" [a, c, b] []).toOption = some (chP [tNum, tRV, tNum] "<=_<=|(Number, RandomVariable, Number)|ka.functions.make_double_event_fun.<locals>.event_fun['<=','<=']" (.event2 .le .le))) ∧
    (∀ nm ∈ ["<_>", "<_>=", "<=_>", "<=_>=", ">_<", ">_<=", ">=_<", ">=_<="], ∀ a ∈ kinds3, ∀ c ∈ rvClasses, ∀ b ∈ kinds3,
      errOf (resolveDesc nm [a, c, b] []) = some .unknownFunction) :=
  ⟨inst_table1, inst_table2, inst_table_cmp, rv_table_ctor, rv_table_mean, prob_table, event_table1, event_table_eq,
   event_table2, event_table_mixed⟩

/-! ## C17: instants -/

/-- **The instant literal leaf.**  `eval_node` of an instant literal is `instant_from_iso` of its raw
    text (`Instant.instantFromIso`, with the YYYY / YYYY-MM completion): the instant, the
    KaRuntimeError of a malformed literal, or — for an ISO form the `Instant` fragment does not cover —
    the model's refusal.  And C17's field theorem (`C17_fields`), for the evaluator: a literal written
    with valid fields `y-m-d(T| )h:mi:s.us` evaluates to an instant on which `year`, `month`, `day`,
    `hour`, `minute`, `second`, dispatched over the generated registry, return exactly the written
    fields.  (Serves C17.) -/
theorem PIPE_instant_literal (env : Env) :
    (∀ s : String, evalE env (.inst s) =
      match Instant.instantFromIso s.toList with
      | .ok i => .ok (.inst i)
      | .invalid => .error (.err .runtime)
      | .notModelled => .error (.unmodelled "instant form")) ∧
    (∀ (y m d h mi s us : Nat) (sep : Char), Instant.validDate y m d = true → h < 24 → mi < 60 → s < 60 →
      us < 1000000 → (sep = 'T' ∨ sep = ' ') →
      ∃ I : Instant.Inst,
        evalE env (.inst (String.ofList (Instant.textDate y m d ++ sep :: Instant.textHMSU h mi s us))) = .ok (.inst I) ∧
        I.valid ∧
        dispatchTop "year" [.inst I] [] = .ok (.num (.int y)) ∧ dispatchTop "month" [.inst I] [] = .ok (.num (.int m)) ∧
        dispatchTop "day" [.inst I] [] = .ok (.num (.int d)) ∧ dispatchTop "hour" [.inst I] [] = .ok (.num (.int h)) ∧
        dispatchTop "minute" [.inst I] [] = .ok (.num (.int mi)) ∧ dispatchTop "second" [.inst I] [] = .ok (.num (.int s))) := by
  refine ⟨fun s => ?_, fun y m d h mi s us sep hv hh hmi hs hus hsep => ?_⟩
  · simp only [evalE, instLeaf]
    cases Instant.instantFromIso s.toList <;> rfl
  · obtain ⟨h1, h2, _⟩ := C17_fields y m d h mi s us sep hv hh hmi hs hus hsep
    obtain ⟨hy, hm, hd, hh', hmi', hs', _, hval⟩ := h2
    refine ⟨⟨(Instant.fromCivil y m d : Nat), ((h * 60 + mi) * 60 + s) * 1000000 + us⟩, ?_, hval, ?_, ?_, ?_, ?_, ?_, ?_⟩
    · simp only [evalE, instLeaf, String.toList_ofList, h1]
    · rw [dispatchTop, dispatchFuel, show "year" = fieldName .year from rfl, dispatch_field]; simp only [InstField.get, hy]
    · rw [dispatchTop, dispatchFuel, show "month" = fieldName .month from rfl, dispatch_field]; simp only [InstField.get, hm]
    · rw [dispatchTop, dispatchFuel, show "day" = fieldName .day from rfl, dispatch_field]; simp only [InstField.get, hd]
    · rw [dispatchTop, dispatchFuel, show "hour" = fieldName .hour from rfl, dispatch_field]; simp only [InstField.get, hh']
    · rw [dispatchTop, dispatchFuel, show "minute" = fieldName .minute from rfl, dispatch_field]; simp only [InstField.get, hmi']
    · rw [dispatchTop, dispatchFuel, show "second" = fieldName .second from rfl, dispatch_field]; simp only [InstField.get, hs']

/-- **A malformed instant literal is a parse-stage error.**  `instant_from_iso` runs when the parser
    reads the token, so: a program tree with a malformed literal (all literals being of forms the ISO
    model covers) makes `execute` answer status 1 with the KaRuntimeError diagnostic — nothing is
    evaluated, the session's bindings are untouched, whatever else the program contains; and when the
    parser fails at token `i`, a malformed literal among the tokens it had read before wins over the
    ParsingError.  When every literal is a well-formed instant the check is passed and evaluation
    proceeds (`PIPE_stages`, `PIPE_display`).  (Serves C17, C06.) -/
theorem PIPE_instant_parse_stage (env : Env) :
    (∀ t : Ast, (instTexts t).any isoNotModelled = false → (instTexts t).any isoInvalid = true →
      runTree env t = (env, .evalErr .runtime)) ∧
    (∀ (toks : List Token) (i : Nat), parse toks = .error (.parsing i) →
      (tokInstTexts (toks.take i)).any isoNotModelled = false → (tokInstTexts (toks.take i)).any isoInvalid = true →
      runTokens env toks = (env, .evalErr .runtime)) ∧
    (∀ t : Ast, (instTexts t).any isoNotModelled = false → (instTexts t).any isoInvalid = false →
      checkInstants (instTexts t) = none) := by
  refine ⟨fun t h1 h2 => ?_, fun toks i hp h1 h2 => ?_, fun t h1 h2 => ?_⟩
  · simp only [runTree, checkInstants, h1, h2, Bool.false_eq_true, if_false, if_true]
  · simp only [runTokens, hp, checkInstants, h1, h2, Bool.false_eq_true, if_false, if_true]
  · simp only [checkInstants, h1, h2, Bool.false_eq_true, if_false]

/-- **C17's operations inside the unified evaluator (dispatch level).**  On instants `I`, `J`, a
    quantity `(mag, dim)` and an int `n`, `dispatch` over the generated registry runs exactly the
    functions of the `Instant` fragment the C17 theorems are about: `floor`, `ceil`
    (`floorInstant`, `ceilInstant`), `I + q` in both orders and `I - q` (`instantPlusQuantity`,
    `instantMinusQuantity`: `validate_time`, the rounding of the span to microseconds, the range check),
    `I + n` in both orders and `I - n` (`instantPlusInt`, `instantMinusInt`), `I - J`
    (`instantMinusInstant`, delivered as a quantity of seconds), the six comparisons (`cmpReg`: the
    number 1 or 0) — the same value or the same error class. -/
theorem PIPE_instant_ops (I J : Instant.Inst) (mag : Num) (dim : List Int) (n : Int) :
    dispatchTop "floor" [.inst I] [] = liftI (Instant.floorInstant I) ∧
    dispatchTop "ceil" [.inst I] [] = liftI (Instant.ceilInstant I) ∧
    dispatchTop "+" [.inst I, .qty mag dim] [] = liftI (Instant.instantPlusQuantity I mag (dimRat dim)) ∧
    dispatchTop "+" [.qty mag dim, .inst I] [] = liftI (Instant.instantPlusQuantity I mag (dimRat dim)) ∧
    dispatchTop "-" [.inst I, .qty mag dim] [] = liftI (Instant.instantMinusQuantity I mag (dimRat dim)) ∧
    dispatchTop "+" [.inst I, .num (.int n)] [] = liftI (Instant.instantPlusInt I n) ∧
    dispatchTop "+" [.num (.int n), .inst I] [] = liftI (Instant.instantPlusInt I n) ∧
    dispatchTop "-" [.inst I, .num (.int n)] [] = liftI (Instant.instantMinusInt I n) ∧
    dispatchTop "-" [.inst I, .inst J] [] = liftSecs (Instant.instantMinusInstant I J) ∧
    (∀ op : Instant.Cmp, dispatchTop (instCmpName op) [.inst I, .inst J] [] = .ok (.num (Instant.cmpReg op I J))) ∧
    (∀ f : InstField, dispatchTop (fieldName f) [.inst I] [] = .ok (.num (.int (f.get I)))) :=
  ⟨dispatch_floor _ I, dispatch_ceil _ I, dispatch_inst_plus_qty _ I mag dim, dispatch_qty_plus_inst _ I mag dim,
   dispatch_inst_minus_qty _ I mag dim, dispatch_inst_plus_int _ I n, dispatch_int_plus_inst _ I n,
   dispatch_inst_minus_int _ I n, dispatch_inst_sub _ I J, fun op => dispatch_inst_cmp _ op I J,
   fun f => dispatch_field _ f I⟩

/-- **… at parse-tree level.**  For sub-expressions `A`, `B` evaluating to instants `I`, `J`, `Q` to a
    quantity and `N` to an int: the FUNCALL nodes the parser builds for `A + Q`, `Q + A`, `A - Q`,
    `A + N`, `N + A`, `A - N`, `A - B`, `floor(A)`, `ceil(A)`, `year(A)` … `second(A)` and the comparison
    node `make_comparison_node` builds for `A op B` (with `>` / `>=` flipped and the operands reversed)
    evaluate to the `Instant` fragment's results. -/
theorem PIPE_instant_node (env : Env) (A B Q N : Ast) (I J : Instant.Inst) (mag : Num) (dim : List Int) (n : Int)
    (hA : evalE env A = .ok (.inst I)) (hB : evalE env B = .ok (.inst J))
    (hQ : evalE env Q = .ok (.qty mag dim)) (hN : evalE env N = .ok (.num (.int n))) :
    evalE env (.bin .add A Q) = liftI (Instant.instantPlusQuantity I mag (dimRat dim)) ∧
    evalE env (.bin .add Q A) = liftI (Instant.instantPlusQuantity I mag (dimRat dim)) ∧
    evalE env (.bin .sub A Q) = liftI (Instant.instantMinusQuantity I mag (dimRat dim)) ∧
    evalE env (.bin .add A N) = liftI (Instant.instantPlusInt I n) ∧
    evalE env (.bin .add N A) = liftI (Instant.instantPlusInt I n) ∧
    evalE env (.bin .sub A N) = liftI (Instant.instantMinusInt I n) ∧
    evalE env (.bin .sub A B) = liftSecs (Instant.instantMinusInstant I J) ∧
    evalE env (.call "floor" [A] []) = liftI (Instant.floorInstant I) ∧
    evalE env (.call "ceil" [A] []) = liftI (Instant.ceilInstant I) ∧
    (∀ f : InstField, evalE env (.call (fieldName f) [A] []) = .ok (.num (.int (f.get I)))) ∧
    (∀ op : Instant.Cmp, evalE env (mkCmp1 (pcmpOfI op) A B) = .ok (.num (Instant.cmpReg op I J))) := by
  obtain ⟨h1, h2, h3, h4, h5, h6, h7, h8, h9, _, h11⟩ := PIPE_instant_ops I J mag dim n
  refine ⟨?_, ?_, ?_, ?_, ?_, ?_, ?_, ?_, ?_, fun f => ?_, fun op => evalE_mkCmp1_inst env op A B I J hA hB⟩
  · simp only [evalE, hA, hQ, bind, Except.bind]; exact h3
  · simp only [evalE, hA, hQ, bind, Except.bind]; exact h4
  · simp only [evalE, hA, hQ, bind, Except.bind]; exact h5
  · simp only [evalE, hA, hN, bind, Except.bind]; exact h6
  · simp only [evalE, hA, hN, bind, Except.bind]; exact h7
  · simp only [evalE, hA, hN, bind, Except.bind]; exact h8
  · simp only [evalE, hA, hB, bind, Except.bind]; exact h9
  · rw [evalE_call1, hA]; simp only [bind, Except.bind]; exact h1
  · rw [evalE_call1, hA]; simp only [bind, Except.bind]; exact h2
  · rw [evalE_call1, hA]; simp only [bind, Except.bind]; exact h11 f

/-- **C17's law `(I + q) - q = I` and `(I + q) - I = q`, evaluated by `eval_node`** (transport of
    `C17_add_sub`).  Let `A` evaluate to a valid instant `I` and `Q` to a quantity.  Whenever the parse
    tree of `A + Q` evaluates (to some instant), then
    * the tree of `(A + Q) - Q` evaluates to `I` itself — to the microsecond;
    * the tree of `(A + Q) - A` evaluates to the quantity of seconds that is exactly the whole number
      `k` of microseconds the span was rounded to (`spanUs`, `C17_span_rounding`), as a float of
      seconds / an int when integral;
    and whenever `A - Q` evaluates, `(A - Q) + Q` evaluates to `I`. -/
theorem PIPE_instant_add_sub (env : Env) (A Q : Ast) (I : Instant.Inst) (hI : I.valid) (mag : Num) (dim : List Int)
    (hA : evalE env A = .ok (.inst I)) (hQ : evalE env Q = .ok (.qty mag dim)) :
    (∀ R, evalE env (.bin .add A Q) = .ok (.inst R) →
      evalE env (.bin .sub (.bin .add A Q) Q) = .ok (.inst I) ∧
      ∃ k, Instant.spanUs mag = .ok k ∧
        evalE env (.bin .sub (.bin .add A Q) A) = liftSecs (Num.simplify (.flt (Instant.totalSeconds k)))) ∧
    (∀ R, evalE env (.bin .sub A Q) = .ok (.inst R) →
      evalE env (.bin .add (.bin .sub A Q) Q) = .ok (.inst I)) := by
  obtain ⟨_, _, h3, h4⟩ := C17_add_sub I hI mag (dimRat dim)
  have eAdd : evalE env (.bin .add A Q) = liftI (Instant.instantPlusQuantity I mag (dimRat dim)) := by
    simp only [evalE_bin, hA, hQ, bind, Except.bind]; exact dispatch_inst_plus_qty _ I mag dim
  have eSub : evalE env (.bin .sub A Q) = liftI (Instant.instantMinusQuantity I mag (dimRat dim)) := by
    simp only [evalE_bin, hA, hQ, bind, Except.bind]; exact dispatch_inst_minus_qty _ I mag dim
  constructor
  · intro R hR
    have hplus : Instant.instantPlusQuantity I mag (dimRat dim) = .ok R := liftI_ok (eAdd ▸ hR)
    obtain ⟨k, hk, hd, hm⟩ := h3 R hplus
    refine ⟨?_, k, hk, ?_⟩
    · rw [evalE_bin, hR, hQ]
      simp only [bind, Except.bind]
      exact (dispatch_inst_minus_qty _ R mag dim).trans (by rw [hm]; rfl)
    · rw [evalE_bin, hR, hA]
      simp only [bind, Except.bind]
      refine (dispatch_inst_sub _ R I).trans ?_
      rw [Instant.instantMinusInstant, hd]
  · intro R hR
    have hminus : Instant.instantMinusQuantity I mag (dimRat dim) = .ok R := liftI_ok (eSub ▸ hR)
    obtain ⟨k, _, _, hp⟩ := h4 R hminus
    rw [evalE_bin, hR, hQ]
    simp only [bind, Except.bind]
    exact (dispatch_inst_plus_qty _ R mag dim).trans (by rw [hp]; rfl)

/-- **C17's floor / ceil law, evaluated by `eval_node`** (transport of `C17_floor_ceil`).  For a
    sub-expression `A` evaluating to any valid instant that is not on the calendar's last day — month
    ends, leap days and year ends included — `floor(A)` and `ceil(A)` evaluate to midnight of that day and
    of the next day, the comparison trees `floor(A) <= A` and `A < ceil(A)` evaluate to the number 1,
    and `floor(A) + 1` evaluates to `ceil(A)`: exactly one day apart. -/
theorem PIPE_instant_floor_ceil (env : Env) (A : Ast) (I : Instant.Inst) (hI : I.valid)
    (hlast : I.day + 1 < (Instant.maxDay : Int)) (hA : evalE env A = .ok (.inst I)) :
    evalE env (.call "floor" [A] []) = .ok (.inst ⟨I.day, 0⟩) ∧
    evalE env (.call "ceil" [A] []) = .ok (.inst ⟨I.day + 1, 0⟩) ∧
    evalE env (mkCmp1 .leq (.call "floor" [A] []) A) = .ok (.num (.int 1)) ∧
    evalE env (mkCmp1 .lt A (.call "ceil" [A] [])) = .ok (.num (.int 1)) ∧
    evalE env (.bin .add (.call "floor" [A] []) (.num (.int 1))) = .ok (.inst ⟨I.day + 1, 0⟩) := by
  obtain ⟨F, C, hF, hC, rfl, rfl, hle, hlt, _, _, _, hone, _, _⟩ := C17_floor_ceil I hI hlast
  have eF : evalE env (.call "floor" [A] []) = .ok (.inst ⟨I.day, 0⟩) := by
    rw [evalE_call1, hA]; simp only [bind, Except.bind]
    exact (dispatch_floor _ I).trans (by rw [hF]; rfl)
  have eC : evalE env (.call "ceil" [A] []) = .ok (.inst ⟨I.day + 1, 0⟩) := by
    rw [evalE_call1, hA]; simp only [bind, Except.bind]
    exact (dispatch_ceil _ I).trans (by rw [hC]; rfl)
  refine ⟨eF, eC, ?_, ?_, ?_⟩
  · rw [show PCmp.leq = pcmpOfI .le from rfl, evalE_mkCmp1_inst env .le _ A _ I eF hA, Instant.cmpReg, hle]; rfl
  · rw [show PCmp.lt = pcmpOfI .lt from rfl, evalE_mkCmp1_inst env .lt A _ I _ hA eC, Instant.cmpReg, hlt]; rfl
  · rw [evalE_bin, eF]
    simp only [evalE, Num.simplify, liftE, Except.map, bind, Except.bind]
    exact (dispatch_inst_plus_int _ _ 1).trans (by rw [hone]; rfl)

/-- **C17's comparison law, evaluated by `eval_node`** (transport of `C17_cmp_sign`): for
    sub-expressions evaluating to valid instants `I`, `J`, each of the six comparison trees the parser
    builds evaluates — without error — to the number 1 exactly when the elapsed time `I - J` (in
    microseconds) has the corresponding sign, and to 0 otherwise.  (Serves C17 and C09.) -/
theorem PIPE_instant_cmp_sign (env : Env) (A B : Ast) (I J : Instant.Inst) (hI : I.valid) (hJ : J.valid)
    (hA : evalE env A = .ok (.inst I)) (hB : evalE env B = .ok (.inst J)) :
    evalE env (mkCmp1 .lt A B) = .ok (.num (.int (if Instant.diffUs I J < 0 then 1 else 0))) ∧
    evalE env (mkCmp1 .leq A B) = .ok (.num (.int (if Instant.diffUs I J ≤ 0 then 1 else 0))) ∧
    evalE env (mkCmp1 .gt A B) = .ok (.num (.int (if 0 < Instant.diffUs I J then 1 else 0))) ∧
    evalE env (mkCmp1 .geq A B) = .ok (.num (.int (if 0 ≤ Instant.diffUs I J then 1 else 0))) ∧
    evalE env (mkCmp1 .eq A B) = .ok (.num (.int (if Instant.diffUs I J = 0 then 1 else 0))) ∧
    evalE env (mkCmp1 .neq A B) = .ok (.num (.int (if Instant.diffUs I J ≠ 0 then 1 else 0))) := by
  obtain ⟨h1, h2, h3, h4, h5, h6⟩ := C17_cmp_sign I J hI hJ
  have key := fun op => evalE_mkCmp1_inst env op A B I J hA hB
  exact ⟨by rw [← h1]; exact key .lt, by rw [← h2]; exact key .le, by rw [← h3]; exact key .gt,
         by rw [← h4]; exact key .ge, by rw [← h5]; exact key .eq, by rw [← h6]; exact key .ne⟩

/-- C17's "non-time quantities are rejected", for the evaluator: `A + Q` and `A - Q` with `Q` a quantity
    of any dimension other than the second's are the KaRuntimeError diagnostic, whatever the instant and
    the magnitude (transport of `C17_non_time_rejected`). -/
theorem PIPE_instant_non_time (env : Env) (A Q : Ast) (I : Instant.Inst) (mag : Num) (dim : List Int)
    (hA : evalE env A = .ok (.inst I)) (hQ : evalE env Q = .ok (.qty mag dim))
    (hd : Instant.isTimeDim (dimRat dim) = false) :
    evalE env (.bin .add A Q) = .error (.err .runtime) ∧ evalE env (.bin .sub A Q) = .error (.err .runtime) ∧
    evalE env (.bin .add Q A) = .error (.err .runtime) := by
  obtain ⟨hp, hm⟩ := (C17_non_time_rejected I mag (dimRat dim)).2 hd
  refine ⟨?_, ?_, ?_⟩
  · simp only [evalE_bin, hA, hQ, bind, Except.bind]
    exact (dispatch_inst_plus_qty _ I mag dim).trans (by rw [hp]; rfl)
  · simp only [evalE_bin, hA, hQ, bind, Except.bind]
    exact (dispatch_inst_minus_qty _ I mag dim).trans (by rw [hm]; rfl)
  · simp only [evalE_bin, hA, hQ, bind, Except.bind]
    exact (dispatch_qty_plus_inst _ I mag dim).trans (by rw [hp]; rfl)

/-- **What is printed for an instant, and that it reads back** (C15's clause for instants, C17's "printed
    ISO text").  A program whose value is the instant `I` prints exactly `datetime.isoformat()` of it —
    `YYYY-MM-DDTHH:MM:SS`, with `.ffffff` when the microsecond is not zero (`isoText`) — and a newline;
    and for every valid instant that text, written back as an instant literal, evaluates to `I` itself
    (the re-entry text `#…#` round-trips; transport of `C17_fields` and `C17_civil_roundtrip`). -/
theorem PIPE_instant_display (env env' : Env) (t : Ast) (hi : checkInstants (instTexts t) = none) (I : Instant.Inst)
    (hv : runProgram env t = (env', .ok (.inst I))) :
    runTree env t = (env', .ok (String.ofList (isoText I ++ ['\n']))) ∧
    (I.valid → ∀ env'', evalE env'' (.inst (String.ofList (isoText I))) = .ok (.inst I)) := by
  refine ⟨(PIPE_display env env' t hi _ hv).1 (.inst (isoText I)) rfl, fun hI env'' => ?_⟩
  obtain ⟨h0, h1, h2⟩ := hI
  have hn : I.day.toNat < Instant.maxDay := by omega
  obtain ⟨hvd, hfc⟩ := C17_civil_roundtrip.2 I.day.toNat hn
  have hus : I.us < 86400000000 := h2
  have hh : I.hour < 24 := by unfold Instant.Inst.hour; omega
  have hmi : I.minute < 60 := by unfold Instant.Inst.minute; omega
  have hs : I.second < 60 := by unfold Instant.Inst.second; omega
  have hmu : I.micro < 1000000 := by unfold Instant.Inst.micro; omega
  obtain ⟨f1, _, f3, _⟩ := C17_fields I.year I.month I.dayOfMonth I.hour I.minute I.second I.micro 'T' hvd hh hmi hs hmu (Or.inl rfl)
  have hday : ((Instant.fromCivil I.year I.month I.dayOfMonth : Nat) : Int) = I.day := by
    have : Instant.fromCivil I.year I.month I.dayOfMonth = I.day.toNat := hfc
    rw [this]; omega
  have hrec : ((I.hour * 60 + I.minute) * 60 + I.second) * 1000000 + I.micro = I.us := by
    unfold Instant.Inst.hour Instant.Inst.minute Instant.Inst.second Instant.Inst.micro; omega
  simp only [evalE, instLeaf, String.toList_ofList, isoText]
  by_cases hz : I.micro = 0
  · simp only [hz, if_true, f3]
    have : ((I.hour * 60 + I.minute) * 60 + I.second) * 1000000 + 0 = I.us := by rw [← hrec, hz]
    rw [this, hday]
  · simp only [hz, if_false, f1, hrec, hday]

/-! ## C08: probability -/

section Probability
open Prob Gen.ProbTable

/-- **The distribution constructors inside the unified evaluator; invalid parameters are rejected
    before any value exists.**  On numeric arguments of the kinds its signature admits, each of the
    eight constructor names dispatches — over the generated registry — to the body that builds the
    `Prob` fragment's law (`Dist` / `CDist`, a float parameter entering with its exact value) and
    applies the FRAGMENT's parameter check `Dist.valid` / `CDist.valid` (`C08_invalid_params_rejected`:
    exactly the textbook domains): the result is the random variable carrying that law, or
    InvalidParameterException — status 1, no object.  A count that is not an int (`Binomial`'s `n`,
    `Poisson`'s `mu`, `UniformInt`'s bounds) is refused earlier, by the signature
    (NoMatchingFunctionSignatureError).  (Serves C08, C06.) -/
theorem PIPE_prob_constructors (n m : Int) (p q : Num) (hp : p.finite = true) (hq : q.finite = true) :
    dispatchTop "Binomial" [.num (.int n), .num p] [] =
      (if (Dist.binomial n p.toRat).valid then .ok (.rv ⟨.disc (.binomial n p.toRat), [.int n, p]⟩) else .error (.err .invalidParam)) ∧
    dispatchTop "Poisson" [.num (.int n)] [] =
      (if (Dist.poisson n (poissonE n)).valid then .ok (.rv ⟨.disc (.poisson n (poissonE n)), [.int n]⟩) else .error (.err .invalidParam)) ∧
    dispatchTop "Geometric" [.num p] [] =
      (if (Dist.geometric p.toRat).valid then .ok (.rv ⟨.disc (.geometric p.toRat), [p]⟩) else .error (.err .invalidParam)) ∧
    dispatchTop "Bernoulli" [.num p] [] =
      (if (Dist.bernoulli p.toRat).valid then .ok (.rv ⟨.disc (.bernoulli p.toRat), [p]⟩) else .error (.err .invalidParam)) ∧
    dispatchTop "UniformInt" [.num (.int n), .num (.int m)] [] =
      (if (Dist.uniformInt n m).valid then .ok (.rv ⟨.disc (.uniformInt n m), [.int n, .int m]⟩) else .error (.err .invalidParam)) ∧
    dispatchTop "Exponential" [.num p] [] =
      (if (CDist.exponential p.toRat).valid then .ok (.rv ⟨.cont (.exponential p.toRat), [p]⟩) else .error (.err .invalidParam)) ∧
    dispatchTop "Uniform" [.num p, .num q] [] =
      (if (CDist.uniform p.toRat q.toRat).valid then .ok (.rv ⟨.cont (.uniform p.toRat q.toRat), [p, q]⟩) else .error (.err .invalidParam)) ∧
    dispatchTop "Gaussian" [.num p, .num q] [] =
      (if (CDist.gaussian p.toRat q.toRat).valid then .ok (.rv ⟨.cont (.gaussian p.toRat q.toRat), [p, q]⟩) else .error (.err .invalidParam)) ∧
    (numClass p ≠ cInt →
      dispatchTop "Binomial" [.num p, .num q] [] = .error (.err .noMatch) ∧
      dispatchTop "Poisson" [.num p] [] = .error (.err .noMatch) ∧
      dispatchTop "UniformInt" [.num p, .num q] [] = .error (.err .noMatch) ∧
      dispatchTop "UniformInt" [.num q, .num p] [] = .error (.err .noMatch)) := by
  obtain ⟨t1, t2, t3, t4, t5, t6, t7, t8, t9⟩ := rv_table_ctor _ (numClass_mem p) _ (numClass_mem q)
  have fi : ∀ k : Int, (Num.int k).finite = true := fun _ => rfl
  refine ⟨?_, ?_, ?_, ?_, ?_, ?_, ?_, ?_, fun hne => ?_⟩
  · exact dispatch_ctor2 _ .binomial _ _ _ _ (.int n) p (fi n) hp t1
  · exact dispatch_ctor1 _ .poisson _ _ _ (.int n) (fi n) t2
  · exact dispatch_ctor1 _ .geometric _ _ _ p hp t3
  · exact dispatch_ctor1 _ .bernoulli _ _ _ p hp t4
  · exact dispatch_ctor2 _ .uniformInt _ _ _ _ (.int n) (.int m) (fi n) (fi m) t5
  · exact dispatch_ctor1 _ .exponential _ _ _ p hp t6
  · exact dispatch_ctor2 _ .uniform _ _ _ _ p q hp hq t7
  · exact dispatch_ctor2 _ .gaussian _ _ _ _ p q hp hq t8
  · obtain ⟨e1, e2, e3, e4⟩ := t9 hne
    exact ⟨dispatchV_err (args := [.num p, .num q]) e1, dispatchV_err (args := [.num p]) e2,
      dispatchV_err (args := [.num p, .num q]) e3, dispatchV_err (args := [.num q, .num p]) e4⟩

/-- **`E(X)` and `mean(X)` are the fragment's mean.**  For every random variable the evaluator can hold,
    both names dispatch to `rv.mean()`, whose value is `Dist.mean` / `CDist.mean` of its law — the
    function `C08_mean` is about (`Σ k·pmf k` over the support for Binomial, Bernoulli, UniformInt;
    Poisson's parameter; `1/p`) — delivered as Python delivers it: canonically (an int when integral,
    else the reduced Fraction) when Python's arithmetic on the parameters is exact, otherwise the double
    nearest to that exact value. -/
theorem PIPE_prob_mean (x : RV) :
    dispatchTop "E" [.rv x] [] = meanResult x ∧ dispatchTop "mean" [.rv x] [] = meanResult x ∧
    (x.meanFloat = false → meanResult x = .ok (.num (Num.canon x.mean))) ∧
    (∀ d ps, x = ⟨.disc d, ps⟩ → x.mean = d.mean) ∧ (∀ d ps, x = ⟨.cont d, ps⟩ → x.mean = d.mean) := by
  refine ⟨(dispatch_mean_rv _ x).1, (dispatch_mean_rv _ x).2, fun h => ?_, ?_, ?_⟩
  · simp only [meanResult, h, deliver, Bool.false_eq_true, if_false]
    rw [simplify_exact _ (isExact_canon _), toRat_canon]; rfl
  · rintro d ps rfl; rfl
  · rintro d ps rfl; rfl

/-- **`P(X op t)` and `P(t op X)` inside the unified evaluator** — all four order operators, written in
    either direction, through the parser's tree (`make_comparison_node` turns `>` / `>=` into `<` / `<=`
    with the operands reversed), the generated registry and the generated decision table.  Let `XA`
    evaluate to a random variable `x` and `TA` to a number `t`.  Then
    * the comparison tree evaluates to the event the registered constructor builds;
    * the `Prob` fragment's pipeline (`resolveRow` over `flips`, `labels`, `rows` — what the C08 theorems
      are about) selects for the WRITTEN condition `single op rvLeft t` the same decision-table row with
      the same argument list, and `P( … )` evaluates to that row read in Python's numeric tower
      (`evalPN`: the leaves are the fragment's `cdf` / `pmf` values, `1 - e` / `e - f` / `max(e, 0)` are
      Python's operations), followed by `simplify_type`;
    * when Python's arithmetic on the event is exact (no float parameter or threshold involved:
      `leafFloat` false), `P( … )` evaluates to `Prob.probWritten`'s rational — C08's `P law w` —
      delivered canonically.
    Side condition: the model declines thresholds / counts beyond `maxThreshold` / `maxCount` / `maxRate`
    for the looping laws (`probRefused`). -/
theorem PIPE_prob_single (env : Env) (op : Op) (hop : op ≠ .eq) (rvLeft : Bool) (XA TA : Ast) (x : RV) (t : Num)
    (hX : evalE env XA = .ok (.rv x)) (hT : evalE env TA = .ok (.num t)) (hg : probRefused x [t] = false) :
    evalE env (singleAst op rvLeft XA TA) = .ok (.event [(singleShape op rvLeft).1] (singleShape op rvLeft).2 x [t]) ∧
    (∃ row, resolveRow flips labels rows x.probLaw.isDisc (single op rvLeft t.toRat) =
          .ok (row, slotTerms (eventSlots (singleShape op rvLeft).2 [t])) ∧
        evalE env (.call "P" [singleAst op rvLeft XA TA] []) =
          match evalPN x (eventSlots (singleShape op rvLeft).2 [t]) row.expr with
          | some v => liftN (Num.simplify v)
          | none => .error (.err (.py "TypeError"))) ∧
    ((∀ a, leafFloat x (eventSlots (singleShape op rvLeft).2 [t]) a = false) →
      evalE env (.call "P" [singleAst op rvLeft XA TA] []) =
        match P x.probLaw (single op rvLeft t.toRat) with
        | .ok q => .ok (.num (Num.canon q))
        | .error _ => .error (.err (.py "TypeError"))) := by
  have hE := evalE_singleAst env op hop rvLeft XA TA x t hX hT
  obtain ⟨row, hrow, hres⟩ := resolveRow_single op hop rvLeft x.probLaw.isDisc t
  have hP := evalE_P env _ _ _ x [t] (Or.inl rfl) hE
  refine ⟨hE, ⟨row, hres, ?_⟩, fun hex => ?_⟩
  · rw [hP]; exact probOfEvent_row _ _ x [t] row hg hrow
  · rw [hP, probOfEvent_exact _ _ x [t] row hg hrow hex, P, probWritten_of_resolve hres]
    cases evalRow x.probLaw row (slotTerms (eventSlots (singleShape op rvLeft).2 [t])) <;> rfl

/-- **`P(X = k)`**: for a discrete variable and an int `k` (the only registered signature) the `=` tree
    evaluates to `Event(=, X, k)` and `P` of it to the fragment's `P law (X = k)`, i.e. `pmf k`
    (`C08_single_eq`), canonically when `p` is exact; a continuous variable, a non-integral threshold, or
    the variable on the right are NoMatchingFunctionSignatureError (`C08_single_eq_rejected`). -/
theorem PIPE_prob_eq (env : Env) (XA TA : Ast) (d : Dist) (ps : List Num) (k : Int)
    (hX : evalE env XA = .ok (.rv ⟨.disc d, ps⟩)) (hT : evalE env TA = .ok (.num (.int k)))
    (hg : probRefused ⟨.disc d, ps⟩ [.int k] = false) :
    evalE env (mkCmp1 .asg XA TA) = .ok (.event [.eq] 0 ⟨.disc d, ps⟩ [.int k]) ∧
    ((RV.probFloat ⟨.disc d, ps⟩ = false) →
      evalE env (.call "P" [mkCmp1 .asg XA TA] []) =
        match P d.law (single .eq true (k : Rat)) with
        | .ok q => .ok (.num (Num.canon q))
        | .error _ => .error (.err (.py "TypeError"))) ∧
    (∀ (y : RV) (t : Num), evalE env (mkCmp1 .asg TA XA) = .error (.err .noMatch) ∧
      (evalE env XA = .ok (.rv y) → evalE env TA = .ok (.num t) → numClass t ≠ cInt →
        evalE env (mkCmp1 .asg XA TA) = .error (.err .noMatch))) := by
  have hE : evalE env (mkCmp1 .asg XA TA) = .ok (.event [.eq] 0 ⟨.disc d, ps⟩ [.int k]) := by
    simp only [mkCmp1, PCmp.backward, PCmp.forward, Bool.false_and, Bool.false_eq_true, if_false, evalE_cmp1, hX, hT,
      bind, Except.bind]
    exact dispatch_event_eq _ d ps k
  refine ⟨hE, fun hf => ?_, fun y t => ⟨?_, fun hy ht hne => ?_⟩⟩
  · obtain ⟨row, hrow, hres⟩ := resolveRow_eq k
    have hex : ∀ a, leafFloat ⟨.disc d, ps⟩ (eventSlots 0 [.int k]) a = false := by
      intro a; cases d <;> exact hf
    have hres' : resolveRow flips labels rows d.law.isDisc (single .eq true (k : Rat)) =
        .ok (row, slotTerms (eventSlots 0 [.int k])) := hres
    rw [evalE_P env _ _ _ _ [.int k] (Or.inl rfl) hE,
      probOfEvent_exact [.eq] 0 ⟨.disc d, ps⟩ [.int k] row hg hrow hex, P, probWritten_of_resolve hres']
    show (match evalRow d.law row (slotTerms (eventSlots 0 [.int k])) with
        | .ok q => (.ok (.num (Num.canon q)) : R Val) | .error _ => .error (.err (.py "TypeError"))) = _
    cases evalRow d.law row (slotTerms (eventSlots 0 [.int k])) <;> rfl
  · simp only [mkCmp1, PCmp.backward, PCmp.forward, Bool.false_and, Bool.false_eq_true, if_false, evalE_cmp1, hX, hT,
      bind, Except.bind]
    exact dispatchV_err (args := [.num (.int k), .rv ⟨.disc d, ps⟩])
      ((event_table_eq.2.1 _ (classOf_rv_mem _) _ (numClass_mem (.int k))).1)
  · simp only [mkCmp1, PCmp.backward, PCmp.forward, Bool.false_and, Bool.false_eq_true, if_false, evalE_cmp1, hy, ht,
      bind, Except.bind]
    exact dispatchV_err (args := [.rv y, .num t])
      ((event_table_eq.2.1 _ (classOf_rv_mem y) _ (numClass_mem t)).2 hne)

/-- **`P(a op1 X op2 b)` inside the unified evaluator** — the four forward chains as written, the four
    backward chains flipped and reversed by the parser (`make_comparison_node`).  Let `AA`, `BA` evaluate
    to numbers `a`, `b` and `XA` to a random variable `x`.  Then the chain's tree evaluates to the
    `DoubleEvent` the registered constructor builds; the `Prob` fragment's pipeline selects for the written
    `double o1 o2 a b` the same decision-table row with the same argument list, and `P( … )` is that row
    read in Python's numeric tower; and when Python's arithmetic is exact it is `Prob.probWritten`'s
    rational (C08's `P law w`: `C08_double`, `C08_double_cont`), delivered canonically.  A mixed chain
    (`a < X > b` …) is UnknownFunctionError (`C08_double_mixed_rejected`). -/
theorem PIPE_prob_double (env : Env) (o1 o2 : Op)
    (hdir : ((o1.forward && o2.forward) || (o1.backward && o2.backward)) = true)
    (AA XA BA : Ast) (x : RV) (a b : Num)
    (hA : evalE env AA = .ok (.num a)) (hX : evalE env XA = .ok (.rv x)) (hB : evalE env BA = .ok (.num b))
    (hg : probRefused x (doubleShape o1 o2 a b).2 = false) :
    evalE env (mkCmp2 (pcmpOfP o1) (pcmpOfP o2) AA XA BA) = .ok (.event (doubleShape o1 o2 a b).1 1 x (doubleShape o1 o2 a b).2) ∧
    (∃ row, resolveRow flips labels rows x.probLaw.isDisc (double o1 o2 a.toRat b.toRat) =
          .ok (row, slotTerms (eventSlots 1 (doubleShape o1 o2 a b).2)) ∧
        evalE env (.call "P" [mkCmp2 (pcmpOfP o1) (pcmpOfP o2) AA XA BA] []) =
          match evalPN x (eventSlots 1 (doubleShape o1 o2 a b).2) row.expr with
          | some v => liftN (Num.simplify v)
          | none => .error (.err (.py "TypeError"))) ∧
    ((∀ e, leafFloat x (eventSlots 1 (doubleShape o1 o2 a b).2) e = false) →
      evalE env (.call "P" [mkCmp2 (pcmpOfP o1) (pcmpOfP o2) AA XA BA] []) =
        match P x.probLaw (double o1 o2 a.toRat b.toRat) with
        | .ok q => .ok (.num (Num.canon q))
        | .error _ => .error (.err (.py "TypeError"))) := by
  have hE := evalE_doubleAst env o1 o2 hdir AA XA BA x a b hA hX hB
  obtain ⟨row, hrow, hres⟩ := resolveRow_double o1 o2 hdir x.probLaw.isDisc a b
  have hl : (doubleShape o1 o2 a b).1.length = 1 ∨ (doubleShape o1 o2 a b).1.length = 2 := by
    right; cases o1 <;> cases o2 <;> rfl
  have hP := evalE_P env _ _ _ x _ hl hE
  refine ⟨hE, ⟨row, hres, ?_⟩, fun hex => ?_⟩
  · rw [hP]; exact probOfEvent_row _ _ x _ row hg hrow
  · rw [hP, probOfEvent_exact _ _ x _ row hg hrow hex, P, probWritten_of_resolve hres]
    cases evalRow x.probLaw row (slotTerms (eventSlots 1 (doubleShape o1 o2 a b).2)) <;> rfl

/-- a mixed chain `a op1 X op2 b` (one operator forward, one backward) is not a registered function:
    UnknownFunctionError, as in the fragment (`C08_double_mixed_rejected`) -/
theorem PIPE_prob_mixed_rejected (env : Env) (o1 o2 : Op)
    (hmix : ((o1.forward && o2.backward) || (o1.backward && o2.forward)) = true)
    (AA XA BA : Ast) (x : RV) (a b : Num)
    (hA : evalE env AA = .ok (.num a)) (hX : evalE env XA = .ok (.rv x)) (hB : evalE env BA = .ok (.num b)) :
    evalE env (mkCmp2 (pcmpOfP o1) (pcmpOfP o2) AA XA BA) = .error (.err .unknownFn) ∧
    P x.probLaw (double o1 o2 a.toRat b.toRat) = .error .unknownFn := by
  refine ⟨?_, C08_double_mixed_rejected _ o1 o2 hmix _ _⟩
  have key := fun nm hnm => event_table_mixed nm hnm _ (numClass_mem a) _ (classOf_rv_mem x) _ (numClass_mem b)
  cases o1 <;> cases o2 <;> simp only [Op.forward, Op.backward, Bool.and_self, Bool.and_false, Bool.false_and,
      Bool.or_self, Bool.or_false, Bool.false_or, Bool.false_eq_true] at hmix <;>
    simp only [mkCmp2, pcmpOfP, PCmp.backward, PCmp.forward, PCmp.flip, Bool.false_eq_true, if_false, if_true,
      Bool.not_false, Bool.not_true, Bool.and_true, Bool.and_false, Bool.false_and, Bool.or_self, Bool.or_false,
      Bool.or_true, Bool.true_or, Bool.false_or, evalE_cmp2, hA, hX, hB, bind, Except.bind]
  · exact dispatchV_err (args := [.num a, .rv x, .num b]) (key "<=_>" (by decide))
  · exact dispatchV_err (args := [.num a, .rv x, .num b]) (key "<=_>=" (by decide))
  · exact dispatchV_err (args := [.num a, .rv x, .num b]) (key "<_>" (by decide))
  · exact dispatchV_err (args := [.num a, .rv x, .num b]) (key "<_>=" (by decide))
  · exact dispatchV_err (args := [.num a, .rv x, .num b]) (key ">_<=" (by decide))
  · exact dispatchV_err (args := [.num a, .rv x, .num b]) (key ">_<" (by decide))
  · exact dispatchV_err (args := [.num a, .rv x, .num b]) (key ">=_<=" (by decide))
  · exact dispatchV_err (args := [.num a, .rv x, .num b]) (key ">=_<" (by decide))

/-- a discrete variable's `cdf` / `pmf` values are floats exactly when `RV.probFloat` says so -/
theorem leafFloat_disc (d : Dist) (ps : List Num) (slots : List (Option Num)) (a : Arg) :
    leafFloat ⟨.disc d, ps⟩ slots a = RV.probFloat ⟨.disc d, ps⟩ := by
  cases d <;> rfl

/-- **C08's complement law, evaluated by `eval_node`** (transport of `C08_complement`): for every random
    variable on which Python's arithmetic is exact, every strict / non-strict comparison on either side and
    every threshold, the trees of `P(X op t)` and of its logical negation `P(X op' t)` (`<` ↔ `>=`,
    `<=` ↔ `>`) both evaluate to numbers, and the two numbers sum to exactly 1. -/
theorem PIPE_prob_complement (env : Env) (op : Op) (hop : op ≠ .eq) (rvLeft : Bool) (XA TA : Ast) (x : RV) (t : Num)
    (hX : evalE env XA = .ok (.rv x)) (hT : evalE env TA = .ok (.num t)) (hg : probRefused x [t] = false)
    (hex : ∀ pos a, leafFloat x (eventSlots pos [t]) a = false) :
    ∃ v v' : Num, evalE env (.call "P" [singleAst op rvLeft XA TA] []) = .ok (.num v) ∧
      evalE env (.call "P" [singleAst op.neg rvLeft XA TA] []) = .ok (.num v') ∧ v.toRat + v'.toRat = 1 := by
  have hn : op.neg ≠ .eq := by cases op <;> simp [Op.neg] at hop ⊢
  obtain ⟨q, q', h1, h2, hs⟩ := C08_complement x.probLaw op rvLeft hop t.toRat
  refine ⟨Num.canon q, Num.canon q', ?_, ?_, by rw [toRat_canon, toRat_canon, hs]⟩
  · rw [(PIPE_prob_single env op hop rvLeft XA TA x t hX hT hg).2.2 (hex _), h1]
  · rw [(PIPE_prob_single env op.neg hn rvLeft XA TA x t hX hT hg).2.2 (hex _), h2]

open Finset in
/-- **C08's headline, evaluated by `eval_node`** (transport of `C08_dist_events`).  Let `XA` evaluate to a
    Binomial, Bernoulli or UniformInt variable with accepted parameters on which Python's arithmetic is
    exact (an int / Fraction `p`).  Then for every order operator written in either direction and every
    threshold `t` (any kind: non-integers, outside the support), and for every double chain `a o1 X o2 b`
    with both operators forward or both backward, the tree of `P( … )` evaluates to the number that is
    the SUM OF THE PROBABILITY MASS OVER EXACTLY THE INTEGERS OF THE SUPPORT THAT SATISFY THE CONDITION AS
    WRITTEN — in canonical form (an int when integral, else the reduced Fraction). -/
theorem PIPE_prob_mass (env : Env) (d : Dist) (ps : List Num) (hv : d.valid = true) (hi : Int) (hhi : d.hi = some hi)
    (hf : RV.probFloat ⟨.disc d, ps⟩ = false) (XA : Ast) (hX : evalE env XA = .ok (.rv ⟨.disc d, ps⟩)) :
    (∀ (op : Op) (rvLeft : Bool) (TA : Ast) (t : Num), op ≠ .eq → evalE env TA = .ok (.num t) →
      probRefused ⟨.disc d, ps⟩ [t] = false →
      evalE env (.call "P" [singleAst op rvLeft XA TA] []) =
        .ok (.num (Num.canon (∑ k ∈ (Icc d.lo hi).filter (fun k => (single op rvLeft t.toRat).holds k = true), d.pmf k)))) ∧
    (∀ (o1 o2 : Op) (AA BA : Ast) (a b : Num), ((o1.forward && o2.forward) || (o1.backward && o2.backward)) = true →
      evalE env AA = .ok (.num a) → evalE env BA = .ok (.num b) →
      probRefused ⟨.disc d, ps⟩ (doubleShape o1 o2 a b).2 = false →
      evalE env (.call "P" [mkCmp2 (pcmpOfP o1) (pcmpOfP o2) AA XA BA] []) =
        .ok (.num (Num.canon (∑ k ∈ (Icc d.lo hi).filter (fun k => (double o1 o2 a.toRat b.toRat).holds k = true), d.pmf k)))) := by
  obtain ⟨h1, _, h3⟩ := C08_dist_events d hv hi hhi
  have hex : ∀ slots a, leafFloat ⟨.disc d, ps⟩ slots a = false := fun slots a => by rw [leafFloat_disc, hf]
  constructor
  · intro op rvLeft TA t hop hT hg
    rw [(PIPE_prob_single env op hop rvLeft XA TA _ t hX hT hg).2.2 (hex _)]
    show (match P d.law (single op rvLeft t.toRat) with
      | .ok q => (.ok (.num (Num.canon q)) : R Val) | .error _ => .error (.err (.py "TypeError"))) = _
    rw [h1 op rvLeft hop t.toRat]
  · intro o1 o2 AA BA a b hdir hA hB hg
    rw [(PIPE_prob_double env o1 o2 hdir AA XA BA _ a b hA hX hB hg).2.2 (hex _)]
    show (match P d.law (double o1 o2 a.toRat b.toRat) with
      | .ok q => (.ok (.num (Num.canon q)) : R Val) | .error _ => .error (.err (.py "TypeError"))) = _
    rw [h3 o1 o2 hdir a.toRat b.toRat]

/-- C08's range law for what `P` delivers on a discrete variable with exact parameters (transport of
    `C08_dist_range`): whatever written chain the evaluator accepts, the number lies in [0, 1]. -/
theorem PIPE_prob_range (env : Env) (d : Dist) (ps : List Num) (hv : d.valid = true)
    (hE : ∀ mu E, d = .poisson mu E → 0 ≤ E ∧ ∀ n, d.cdf n ≤ 1)
    (hf : RV.probFloat ⟨.disc d, ps⟩ = false) (op : Op) (hop : op ≠ .eq) (rvLeft : Bool) (XA TA : Ast) (t v : Num)
    (hX : evalE env XA = .ok (.rv ⟨.disc d, ps⟩)) (hT : evalE env TA = .ok (.num t))
    (hg : probRefused ⟨.disc d, ps⟩ [t] = false)
    (hv' : evalE env (.call "P" [singleAst op rvLeft XA TA] []) = .ok (.num v)) :
    0 ≤ v.toRat ∧ v.toRat ≤ 1 := by
  have hex : ∀ a, leafFloat ⟨.disc d, ps⟩ (eventSlots (singleShape op rvLeft).2 [t]) a = false :=
    fun a => by rw [leafFloat_disc, hf]
  rw [(PIPE_prob_single env op hop rvLeft XA TA _ t hX hT hg).2.2 hex] at hv'
  change (match P d.law (single op rvLeft t.toRat) with
      | .ok q => (.ok (.num (Num.canon q)) : R Val) | .error _ => .error (.err (.py "TypeError"))) = _ at hv'
  cases hq : P d.law (single op rvLeft t.toRat) with
  | error e => rw [hq] at hv'; cases hv'
  | ok q =>
    rw [hq] at hv'
    simp only [Except.ok.injEq, Val.num.injEq] at hv'
    rw [← hv', toRat_canon]
    exact C08_dist_range d hv hE _ q hq

end Probability

/-! ## non-vacuity: the hypotheses are satisfiable; concrete programs through the whole pipeline,
    evaluated by the kernel -/

section Examples
open Prob

/-- the classes the table facts range over: three numeric kinds, eight random-variable classes (five discrete) -/
example : kinds3.length = 3 ∧ rvClasses.length = 8 ∧ discClasses.length = 5 ∧ rvClasses.Nodup := by decide

/-- hypotheses of `PIPE_instant_literal` (second clause): a leap day, one microsecond before midnight -/
example : Instant.validDate 2024 2 29 = true ∧ 23 < 24 ∧ 59 < 60 ∧ 999999 < 1000000 := by decide
/-- hypotheses of `PIPE_instant_node` / `_add_sub` / `_floor_ceil` / `_cmp_sign`: a literal evaluates to a valid
    instant that is not on the calendar's last day; a span evaluates to a quantity of time -/
example : evalE initialEnv (.inst "2020-01-31") = .ok (.inst ⟨737454, 0⟩) := by rfl
example : (⟨737454, 0⟩ : Instant.Inst).valid ∧ (737454 : Int) + 1 < (Instant.maxDay : Int) := by decide
set_option maxRecDepth 100000 in
example : (match evalE initialEnv (.quantity (.num (.int 90)) ⟨[("min", 1)], []⟩) with
    | .ok (.qty (.int 5400) d) => d == secondsDim && Instant.isTimeDim (dimRat d)
    | _ => false) = true := by decide +kernel
/-- `secondsDim` is the vector `validate_time` accepts; a length is not (hypothesis of `PIPE_instant_non_time`) -/
example : Instant.isTimeDim (dimRat secondsDim) = true ∧ Instant.isTimeDim (dimRat [0, 1, 0, 0, 0, 0, 0, 0]) = false := by
  decide +kernel
/-- hypotheses of `PIPE_instant_parse_stage`: a malformed literal in a tree; before / after a parse error -/
example : (instTexts (.bin .add (.inst "2020-02-30") (.num (.int 1)))).any isoNotModelled = false
    ∧ (instTexts (.bin .add (.inst "2020-02-30") (.num (.int 1)))).any isoInvalid = true
    ∧ (instTexts (.bin .add (.inst "2020-02-29") (.num (.int 1)))).any isoInvalid = false := by decide +kernel
set_option maxRecDepth 100000 in
example : (runText "#2020-02-30# + 1").render = "err runtime" := by decide +kernel
set_option maxRecDepth 100000 in
example : (runText "1/0 + #2020-02-30# +").render = "err runtime" := by decide +kernel
set_option maxRecDepth 100000 in
example : (runText "1 ) #2020-02-30#").render = "err parse:2" := by decide +kernel
set_option maxRecDepth 100000 in
example : (runText "#2020-01-31T10:00# + 90 min").render = "ok 2020-01-31T11:30:00\n" := by decide +kernel
set_option maxRecDepth 100000 in
example : (runText "{year(t) : t in {#2024-02-29#, #1999-12-31T23:59:59#}}").render = "ok {2024, 1999}\n" := by decide +kernel

/-- hypotheses of `PIPE_prob_constructors`, `PIPE_prob_single`, `PIPE_prob_eq`, `PIPE_prob_double`, `PIPE_prob_mass`:
    finite parameters, accepted parameters, a variable bound to a random variable, a threshold inside the
    model's bounds, exact arithmetic -/
example : (Num.frac (1/2)).finite = true ∧ (Dist.binomial 10 (1/2)).valid = true ∧ (Dist.binomial 10 (1/2)).hi = some 10
    ∧ (Dist.binomial 0 (1/2)).valid = false ∧ (CDist.gaussian 0 0).valid = false := by decide +kernel
example : evalE [("X", .rv ⟨.disc (.binomial 10 (1/2)), [.int 10, .frac (1/2)]⟩)] (.var "X") =
    .ok (.rv ⟨.disc (.binomial 10 (1/2)), [.int 10, .frac (1/2)]⟩) := by rfl
example : probRefused ⟨.disc (.binomial 10 (1/2)), [.int 10, .frac (1/2)]⟩ [.int 3] = false
    ∧ probRefused ⟨.disc (.binomial 10 (1/2)), [.int 10, .frac (1/2)]⟩ (doubleShape .gt .ge (.int 7) (.frac (1/2))).2 = false
    ∧ RV.probFloat ⟨.disc (.binomial 10 (1/2)), [.int 10, .frac (1/2)]⟩ = false
    ∧ RV.meanFloat ⟨.disc (.binomial 10 (1/2)), [.int 10, .frac (1/2)]⟩ = false := by decide +kernel
example (slots : List (Option Num)) (a : Arg) :
    leafFloat ⟨.disc (.binomial 10 (1/2)), [.int 10, .frac (1/2)]⟩ slots a = false := rfl
/-- exact arithmetic on a continuous variable: `Uniform(0, 1)` with a Fraction threshold -/
example : ∀ a ∈ [Arg.var 0, .var 1, .var 2, .floor (.var 1)],
    leafFloat ⟨.cont (.uniform 0 1), [.int 0, .int 1]⟩ (eventSlots 0 [.frac (1/3)]) a = false := by decide +kernel
example : (Op.lt.forward && Op.le.forward || Op.lt.backward && Op.le.backward) = true
    ∧ (Op.gt.forward && Op.ge.forward || Op.gt.backward && Op.ge.backward) = true
    ∧ (Op.lt.forward && Op.ge.backward || Op.lt.backward && Op.ge.forward) = true := by decide

set_option maxRecDepth 100000 in
example : (runText "P(Binomial(10, 1/2) <= 3)").render = "ok 11/64     (0.171875)\n" := by decide +kernel
set_option maxRecDepth 100000 in
example : (runText "P(3 > Geometric(1/2) >= 1)").render = "ok 3/4     (0.75)\n" := by decide +kernel
set_option maxRecDepth 100000 in
example : (runText "P(1 < Bernoulli(1/3) > 0)").render = "err unknownfn" := by decide +kernel
set_option maxRecDepth 100000 in
example : (runText "Binomial(0, 1/2)").render = "err invalidparam" := by decide +kernel
set_option maxRecDepth 100000 in
example : (runText "E(Binomial(10, 1/4))").render = "ok 2 1/2     (2.5)\n" := by decide +kernel
set_option maxRecDepth 100000 in
example : (runText "Binomial(10, 1/2) < 3").render = "ok Event(Binomial(n=10, p=1/2) < 3)\n" := by decide +kernel

end Examples

end KaVerif
