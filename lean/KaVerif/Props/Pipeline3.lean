import KaVerif.Lemmas.Pipeline3Lemmas
import KaVerif.Props.Pipeline2
import KaVerif.Props.C17
import KaVerif.Props.C08
/-
  PIPE, third batch — instants and probability inside the unified pipeline model.

  `Model/Eval.lean` (text → tokens → parse tree → `eval_node` over the generated registry →
  `reduce_result` → `display_result`) now evaluates instant literals, instant arithmetic, the eight
  distribution constructors, the event constructors, `P`, `E` and `mean` by CALLING the fragment
  models `Model/Instant.lean` and `Model/Prob.lean` (with the generated decision table
  `Gen/ProbTable.lean`).  The theorems below are refinement lemmas: on instant / probability
  expressions the unified evaluator computes exactly the fragments' functions, so that the C17 and
  C08 property theorems are statements about what the whole-program model — the thing
  `harness/pipeline.py` fuzzes against `ka.interpret.execute` — computes.  Each block ends with
  corollaries that transport a C17 / C08 law to the evaluator.

  Helper lemmas: Lemmas/Pipeline3Lemmas.lean (namespace `KaVerif.Pipe3`).
-/
namespace KaVerif
open KaVerif.Eval KaVerif.Parser KaVerif.Pipe2 KaVerif.Pipe3

/-! ## C17: instants -/

/-- **The instant literal leaf.**  `eval_node` of an instant literal is `instant_from_iso` of its raw
    text (`Instant.instantFromIso`, with the YYYY / YYYY-MM completion): the instant, the
    KaRuntimeError of a malformed literal, or — for an ISO form the `Instant` fragment does not cover —
    the model's refusal.  And C17's field theorem (`C17_fields`), for the evaluator: a literal written
    with valid fields `y-m-d(T| )h:mi:s.us` evaluates to an instant on which `year`, `month`, `day`,
    `hour`, `minute`, `second`, dispatched over the generated registry, return exactly the written
    fields.  (Serves C17.) -/
theorem PIPE_instant_literal (env : Env) :
    (∀ s : String, evalE env (.inst s) =
      match Instant.instantFromIso s.toList with
      | .ok i => .ok (.inst i)
      | .invalid => .error (.err .runtime)
      | .notModelled => .error (.unmodelled "instant form")) ∧
    (∀ (y m d h mi s us : Nat) (sep : Char), Instant.validDate y m d = true → h < 24 → mi < 60 → s < 60 →
      us < 1000000 → (sep = 'T' ∨ sep = ' ') →
      ∃ I : Instant.Inst,
        evalE env (.inst (String.ofList (Instant.textDate y m d ++ sep :: Instant.textHMSU h mi s us))) = .ok (.inst I) ∧
        I.valid ∧
        dispatchTop "year" [.inst I] [] = .ok (.num (.int y)) ∧ dispatchTop "month" [.inst I] [] = .ok (.num (.int m)) ∧
        dispatchTop "day" [.inst I] [] = .ok (.num (.int d)) ∧ dispatchTop "hour" [.inst I] [] = .ok (.num (.int h)) ∧
        dispatchTop "minute" [.inst I] [] = .ok (.num (.int mi)) ∧ dispatchTop "second" [.inst I] [] = .ok (.num (.int s))) := by
  refine ⟨fun s => ?_, fun y m d h mi s us sep hv hh hmi hs hus hsep => ?_⟩
  · simp only [evalE, instLeaf]
    cases Instant.instantFromIso s.toList <;> rfl
  · obtain ⟨h1, h2, _⟩ := C17_fields y m d h mi s us sep hv hh hmi hs hus hsep
    obtain ⟨hy, hm, hd, hh', hmi', hs', _, hval⟩ := h2
    refine ⟨⟨(Instant.fromCivil y m d : Nat), ((h * 60 + mi) * 60 + s) * 1000000 + us⟩, ?_, hval, ?_, ?_, ?_, ?_, ?_, ?_⟩
    · simp only [evalE, instLeaf, String.toList_ofList, h1]
    · rw [dispatchTop, dispatchFuel, show "year" = fieldName .year from rfl, dispatch_field]; simp only [InstField.get, hy]
    · rw [dispatchTop, dispatchFuel, show "month" = fieldName .month from rfl, dispatch_field]; simp only [InstField.get, hm]
    · rw [dispatchTop, dispatchFuel, show "day" = fieldName .day from rfl, dispatch_field]; simp only [InstField.get, hd]
    · rw [dispatchTop, dispatchFuel, show "hour" = fieldName .hour from rfl, dispatch_field]; simp only [InstField.get, hh']
    · rw [dispatchTop, dispatchFuel, show "minute" = fieldName .minute from rfl, dispatch_field]; simp only [InstField.get, hmi']
    · rw [dispatchTop, dispatchFuel, show "second" = fieldName .second from rfl, dispatch_field]; simp only [InstField.get, hs']

/-- **A malformed instant literal is a parse-stage error.**  `instant_from_iso` runs when the parser
    reads the token, so: a program tree with a malformed literal (all literals being of forms the ISO
    model covers) makes `execute` answer status 1 with the KaRuntimeError diagnostic — nothing is
    evaluated, the session's bindings are untouched, whatever else the program contains; and when the
    parser fails at token `i`, a malformed literal among the tokens it had read before wins over the
    ParsingError.  When every literal is a well-formed instant the check is passed and evaluation
    proceeds (`PIPE_stages`, `PIPE_display`).  (Serves C17, C06.) -/
theorem PIPE_instant_parse_stage (env : Env) :
    (∀ t : Ast, (instTexts t).any isoNotModelled = false → (instTexts t).any isoInvalid = true →
      runTree env t = (env, .evalErr .runtime)) ∧
    (∀ (toks : List Token) (i : Nat), parse toks = .error (.parsing i) →
      (tokInstTexts (toks.take i)).any isoNotModelled = false → (tokInstTexts (toks.take i)).any isoInvalid = true →
      runTokens env toks = (env, .evalErr .runtime)) ∧
    (∀ t : Ast, (instTexts t).any isoNotModelled = false → (instTexts t).any isoInvalid = false →
      checkInstants (instTexts t) = none) := by
  refine ⟨fun t h1 h2 => ?_, fun toks i hp h1 h2 => ?_, fun t h1 h2 => ?_⟩
  · simp only [runTree, checkInstants, h1, h2, Bool.false_eq_true, if_false, if_true]
  · simp only [runTokens, hp, checkInstants, h1, h2, Bool.false_eq_true, if_false, if_true]
  · simp only [checkInstants, h1, h2, Bool.false_eq_true, if_false]

/-- **C17's operations inside the unified evaluator (dispatch level).**  On instants `I`, `J`, a
    quantity `(mag, dim)` and an int `n`, `dispatch` over the generated registry runs exactly the
    functions of the `Instant` fragment the C17 theorems are about: `floor`, `ceil`
    (`floorInstant`, `ceilInstant`), `I + q` in both orders and `I - q` (`instantPlusQuantity`,
    `instantMinusQuantity`: `validate_time`, the rounding of the span to microseconds, the range check),
    `I + n` in both orders and `I - n` (`instantPlusInt`, `instantMinusInt`), `I - J`
    (`instantMinusInstant`, delivered as a quantity of seconds), the six comparisons (`cmpReg`: the
    number 1 or 0) — the same value or the same error class. -/
theorem PIPE_instant_ops (I J : Instant.Inst) (mag : Num) (dim : List Int) (n : Int) :
    dispatchTop "floor" [.inst I] [] = liftI (Instant.floorInstant I) ∧
    dispatchTop "ceil" [.inst I] [] = liftI (Instant.ceilInstant I) ∧
    dispatchTop "+" [.inst I, .qty mag dim] [] = liftI (Instant.instantPlusQuantity I mag (dimRat dim)) ∧
    dispatchTop "+" [.qty mag dim, .inst I] [] = liftI (Instant.instantPlusQuantity I mag (dimRat dim)) ∧
    dispatchTop "-" [.inst I, .qty mag dim] [] = liftI (Instant.instantMinusQuantity I mag (dimRat dim)) ∧
    dispatchTop "+" [.inst I, .num (.int n)] [] = liftI (Instant.instantPlusInt I n) ∧
    dispatchTop "+" [.num (.int n), .inst I] [] = liftI (Instant.instantPlusInt I n) ∧
    dispatchTop "-" [.inst I, .num (.int n)] [] = liftI (Instant.instantMinusInt I n) ∧
    dispatchTop "-" [.inst I, .inst J] [] = liftSecs (Instant.instantMinusInstant I J) ∧
    (∀ op : Instant.Cmp, dispatchTop (instCmpName op) [.inst I, .inst J] [] = .ok (.num (Instant.cmpReg op I J))) ∧
    (∀ f : InstField, dispatchTop (fieldName f) [.inst I] [] = .ok (.num (.int (f.get I)))) :=
  ⟨dispatch_floor _ I, dispatch_ceil _ I, dispatch_inst_plus_qty _ I mag dim, dispatch_qty_plus_inst _ I mag dim,
   dispatch_inst_minus_qty _ I mag dim, dispatch_inst_plus_int _ I n, dispatch_int_plus_inst _ I n,
   dispatch_inst_minus_int _ I n, dispatch_inst_sub _ I J, fun op => dispatch_inst_cmp _ op I J,
   fun f => dispatch_field _ f I⟩

/-- **… at parse-tree level.**  For sub-expressions `A`, `B` evaluating to instants `I`, `J`, `Q` to a
    quantity and `N` to an int: the FUNCALL nodes the parser builds for `A + Q`, `Q + A`, `A - Q`,
    `A + N`, `N + A`, `A - N`, `A - B`, `floor(A)`, `ceil(A)`, `year(A)` … `second(A)` and the comparison
    node `make_comparison_node` builds for `A op B` (with `>` / `>=` flipped and the operands reversed)
    evaluate to the `Instant` fragment's results. -/
theorem PIPE_instant_node (env : Env) (A B Q N : Ast) (I J : Instant.Inst) (mag : Num) (dim : List Int) (n : Int)
    (hA : evalE env A = .ok (.inst I)) (hB : evalE env B = .ok (.inst J))
    (hQ : evalE env Q = .ok (.qty mag dim)) (hN : evalE env N = .ok (.num (.int n))) :
    evalE env (.bin .add A Q) = liftI (Instant.instantPlusQuantity I mag (dimRat dim)) ∧
    evalE env (.bin .add Q A) = liftI (Instant.instantPlusQuantity I mag (dimRat dim)) ∧
    evalE env (.bin .sub A Q) = liftI (Instant.instantMinusQuantity I mag (dimRat dim)) ∧
    evalE env (.bin .add A N) = liftI (Instant.instantPlusInt I n) ∧
    evalE env (.bin .add N A) = liftI (Instant.instantPlusInt I n) ∧
    evalE env (.bin .sub A N) = liftI (Instant.instantMinusInt I n) ∧
    evalE env (.bin .sub A B) = liftSecs (Instant.instantMinusInstant I J) ∧
    evalE env (.call "floor" [A] []) = liftI (Instant.floorInstant I) ∧
    evalE env (.call "ceil" [A] []) = liftI (Instant.ceilInstant I) ∧
    (∀ f : InstField, evalE env (.call (fieldName f) [A] []) = .ok (.num (.int (f.get I)))) ∧
    (∀ op : Instant.Cmp, evalE env (mkCmp1 (pcmpOfI op) A B) = .ok (.num (Instant.cmpReg op I J))) := by
  obtain ⟨h1, h2, h3, h4, h5, h6, h7, h8, h9, _, h11⟩ := PIPE_instant_ops I J mag dim n
  refine ⟨?_, ?_, ?_, ?_, ?_, ?_, ?_, ?_, ?_, fun f => ?_, fun op => evalE_mkCmp1_inst env op A B I J hA hB⟩
  · simp only [evalE, hA, hQ, bind, Except.bind]; exact h3
  · simp only [evalE, hA, hQ, bind, Except.bind]; exact h4
  · simp only [evalE, hA, hQ, bind, Except.bind]; exact h5
  · simp only [evalE, hA, hN, bind, Except.bind]; exact h6
  · simp only [evalE, hA, hN, bind, Except.bind]; exact h7
  · simp only [evalE, hA, hN, bind, Except.bind]; exact h8
  · simp only [evalE, hA, hB, bind, Except.bind]; exact h9
  · rw [evalE_call1, hA]; simp only [bind, Except.bind]; exact h1
  · rw [evalE_call1, hA]; simp only [bind, Except.bind]; exact h2
  · rw [evalE_call1, hA]; simp only [bind, Except.bind]; exact h11 f

/-- **C17's law `(I + q) - q = I` and `(I + q) - I = q`, evaluated by `eval_node`** (transport of
    `C17_add_sub`).  Let `A` evaluate to a valid instant `I` and `Q` to a quantity.  Whenever the parse
    tree of `A + Q` evaluates (to some instant), then
    * the tree of `(A + Q) - Q` evaluates to `I` itself — to the microsecond;
    * the tree of `(A + Q) - A` evaluates to the quantity of seconds that is exactly the whole number
      `k` of microseconds the span was rounded to (`spanUs`, `C17_span_rounding`), as a float of
      seconds / an int when integral;
    and whenever `A - Q` evaluates, `(A - Q) + Q` evaluates to `I`. -/
theorem PIPE_instant_add_sub (env : Env) (A Q : Ast) (I : Instant.Inst) (hI : I.valid) (mag : Num) (dim : List Int)
    (hA : evalE env A = .ok (.inst I)) (hQ : evalE env Q = .ok (.qty mag dim)) :
    (∀ R, evalE env (.bin .add A Q) = .ok (.inst R) →
      evalE env (.bin .sub (.bin .add A Q) Q) = .ok (.inst I) ∧
      ∃ k, Instant.spanUs mag = .ok k ∧
        evalE env (.bin .sub (.bin .add A Q) A) = liftSecs (Num.simplify (.flt (Instant.totalSeconds k)))) ∧
    (∀ R, evalE env (.bin .sub A Q) = .ok (.inst R) →
      evalE env (.bin .add (.bin .sub A Q) Q) = .ok (.inst I)) := by
  obtain ⟨_, _, h3, h4⟩ := C17_add_sub I hI mag (dimRat dim)
  have eAdd : evalE env (.bin .add A Q) = liftI (Instant.instantPlusQuantity I mag (dimRat dim)) := by
    simp only [evalE_bin, hA, hQ, bind, Except.bind]; exact dispatch_inst_plus_qty _ I mag dim
  have eSub : evalE env (.bin .sub A Q) = liftI (Instant.instantMinusQuantity I mag (dimRat dim)) := by
    simp only [evalE_bin, hA, hQ, bind, Except.bind]; exact dispatch_inst_minus_qty _ I mag dim
  constructor
  · intro R hR
    have hplus : Instant.instantPlusQuantity I mag (dimRat dim) = .ok R := liftI_ok (eAdd ▸ hR)
    obtain ⟨k, hk, hd, hm⟩ := h3 R hplus
    refine ⟨?_, k, hk, ?_⟩
    · rw [evalE_bin, hR, hQ]
      simp only [bind, Except.bind]
      exact (dispatch_inst_minus_qty _ R mag dim).trans (by rw [hm]; rfl)
    · rw [evalE_bin, hR, hA]
      simp only [bind, Except.bind]
      refine (dispatch_inst_sub _ R I).trans ?_
      rw [Instant.instantMinusInstant, hd]
  · intro R hR
    have hminus : Instant.instantMinusQuantity I mag (dimRat dim) = .ok R := liftI_ok (eSub ▸ hR)
    obtain ⟨k, _, _, hp⟩ := h4 R hminus
    rw [evalE_bin, hR, hQ]
    simp only [bind, Except.bind]
    exact (dispatch_inst_plus_qty _ R mag dim).trans (by rw [hp]; rfl)

/-- **C17's floor / ceil law, evaluated by `eval_node`** (transport of `C17_floor_ceil`).  For a
    sub-expression `A` evaluating to any valid instant that is not on the calendar's last day — month
    ends, leap days and year ends included — `floor(A)` and `ceil(A)` evaluate to midnight of that day and
    of the next day, the comparison trees `floor(A) <= A` and `A < ceil(A)` evaluate to the number 1,
    and `floor(A) + 1` evaluates to `ceil(A)`: exactly one day apart. -/
theorem PIPE_instant_floor_ceil (env : Env) (A : Ast) (I : Instant.Inst) (hI : I.valid)
    (hlast : I.day + 1 < (Instant.maxDay : Int)) (hA : evalE env A = .ok (.inst I)) :
    evalE env (.call "floor" [A] []) = .ok (.inst ⟨I.day, 0⟩) ∧
    evalE env (.call "ceil" [A] []) = .ok (.inst ⟨I.day + 1, 0⟩) ∧
    evalE env (mkCmp1 .leq (.call "floor" [A] []) A) = .ok (.num (.int 1)) ∧
    evalE env (mkCmp1 .lt A (.call "ceil" [A] [])) = .ok (.num (.int 1)) ∧
    evalE env (.bin .add (.call "floor" [A] []) (.num (.int 1))) = .ok (.inst ⟨I.day + 1, 0⟩) := by
  obtain ⟨F, C, hF, hC, rfl, rfl, hle, hlt, _, _, _, hone, _, _⟩ := C17_floor_ceil I hI hlast
  have eF : evalE env (.call "floor" [A] []) = .ok (.inst ⟨I.day, 0⟩) := by
    rw [evalE_call1, hA]; simp only [bind, Except.bind]
    exact (dispatch_floor _ I).trans (by rw [hF]; rfl)
  have eC : evalE env (.call "ceil" [A] []) = .ok (.inst ⟨I.day + 1, 0⟩) := by
    rw [evalE_call1, hA]; simp only [bind, Except.bind]
    exact (dispatch_ceil _ I).trans (by rw [hC]; rfl)
  refine ⟨eF, eC, ?_, ?_, ?_⟩
  · rw [show PCmp.leq = pcmpOfI .le from rfl, evalE_mkCmp1_inst env .le _ A _ I eF hA, Instant.cmpReg, hle]; rfl
  · rw [show PCmp.lt = pcmpOfI .lt from rfl, evalE_mkCmp1_inst env .lt A _ I _ hA eC, Instant.cmpReg, hlt]; rfl
  · rw [evalE_bin, eF]
    simp only [evalE, Num.simplify, liftE, Except.map, bind, Except.bind]
    exact (dispatch_inst_plus_int _ _ 1).trans (by rw [hone]; rfl)

/-- **C17's comparison law, evaluated by `eval_node`** (transport of `C17_cmp_sign`): for
    sub-expressions evaluating to valid instants `I`, `J`, each of the six comparison trees the parser
    builds evaluates — without error — to the number 1 exactly when the elapsed time `I - J` (in
    microseconds) has the corresponding sign, and to 0 otherwise.  (Serves C17 and C09.) -/
theorem PIPE_instant_cmp_sign (env : Env) (A B : Ast) (I J : Instant.Inst) (hI : I.valid) (hJ : J.valid)
    (hA : evalE env A = .ok (.inst I)) (hB : evalE env B = .ok (.inst J)) :
    evalE env (mkCmp1 .lt A B) = .ok (.num (.int (if Instant.diffUs I J < 0 then 1 else 0))) ∧
    evalE env (mkCmp1 .leq A B) = .ok (.num (.int (if Instant.diffUs I J ≤ 0 then 1 else 0))) ∧
    evalE env (mkCmp1 .gt A B) = .ok (.num (.int (if 0 < Instant.diffUs I J then 1 else 0))) ∧
    evalE env (mkCmp1 .geq A B) = .ok (.num (.int (if 0 ≤ Instant.diffUs I J then 1 else 0))) ∧
    evalE env (mkCmp1 .eq A B) = .ok (.num (.int (if Instant.diffUs I J = 0 then 1 else 0))) ∧
    evalE env (mkCmp1 .neq A B) = .ok (.num (.int (if Instant.diffUs I J ≠ 0 then 1 else 0))) := by
  obtain ⟨h1, h2, h3, h4, h5, h6⟩ := C17_cmp_sign I J hI hJ
  have key := fun op => evalE_mkCmp1_inst env op A B I J hA hB
  exact ⟨by rw [← h1]; exact key .lt, by rw [← h2]; exact key .le, by rw [← h3]; exact key .gt,
         by rw [← h4]; exact key .ge, by rw [← h5]; exact key .eq, by rw [← h6]; exact key .ne⟩

/-- C17's "non-time quantities are rejected", for the evaluator: `A + Q` and `A - Q` with `Q` a quantity
    of any dimension other than the second's are the KaRuntimeError diagnostic, whatever the instant and
    the magnitude (transport of `C17_non_time_rejected`). -/
theorem PIPE_instant_non_time (env : Env) (A Q : Ast) (I : Instant.Inst) (mag : Num) (dim : List Int)
    (hA : evalE env A = .ok (.inst I)) (hQ : evalE env Q = .ok (.qty mag dim))
    (hd : Instant.isTimeDim (dimRat dim) = false) :
    evalE env (.bin .add A Q) = .error (.err .runtime) ∧ evalE env (.bin .sub A Q) = .error (.err .runtime) ∧
    evalE env (.bin .add Q A) = .error (.err .runtime) := by
  obtain ⟨hp, hm⟩ := (C17_non_time_rejected I mag (dimRat dim)).2 hd
  refine ⟨?_, ?_, ?_⟩
  · simp only [evalE_bin, hA, hQ, bind, Except.bind]
    exact (dispatch_inst_plus_qty _ I mag dim).trans (by rw [hp]; rfl)
  · simp only [evalE_bin, hA, hQ, bind, Except.bind]
    exact (dispatch_inst_minus_qty _ I mag dim).trans (by rw [hm]; rfl)
  · simp only [evalE_bin, hA, hQ, bind, Except.bind]
    exact (dispatch_qty_plus_inst _ I mag dim).trans (by rw [hp]; rfl)

end KaVerif
