import KaVerif.Lemmas.UserFilesLemmas
/-
  C19 — optional per-user files fail soft.

  All theorems are about the model `KaVerif.UserFiles` instantiated with the tables generated from /repo:
    `genGuard`  = Gen/Caught.lean      (which call site is protected by which `except` classes)
    `genProps`  = Gen/ConfigProps.lean (ConfigProperties)
    `genConsts` = … + Gen/CurrencyData.lean
  The decoder, `float()` and the file-system answers are universally quantified (`py : Py`, `FState`, `SaveOS`).
-/
namespace KaVerif
open KaVerif.UserFiles

/-- what `read_config` makes of a config path in state `st`: the value of key `k` set by the file
    (`none` = not set: `ka.config.get` returns the property's default) -/
def C19.fileSetting (py : Py) (st : FState) (k : Str) : Option CfgVal :=
  match st with
  | .bytes b => lastSet genGuard genConsts.props (readlines (translateNewlines (py.decodeReplace b))) k
  | _ => none

/-- the table the currency file provides, if it can be read and parsed -/
def C19.fileTable (py : Py) (st : FState) : Option Table :=
  match st with
  | .bytes b =>
    match py.decodeStrict b with
    | some s =>
      match parseCurrencyData py.readRate (translateNewlines s) with
      | .ok (some t) => some t
      | _ => none
    | none => none
  | _ => none

/-- **C19, clause "read_config never fails"**: for every state of the config path (missing, directory,
    cannot be opened, opens but cannot be read, any bytes), any decoder and any previous `CONFIG`,
    `read_config` returns — with a `CONFIG` and warnings, never an exception. -/
theorem C19_config_total (py : Py) (props : List CfgProp) (st : FState) (c : Config) :
    ∃ c' ws, readConfigFile genGuard py props st c = .ok (c', ws) := by
  have S := genGuard_soft
  unfold readConfigFile
  cases st with
  | missing => exact ⟨c, [], rfl⟩
  | dir => exact ⟨c, [], rfl⟩
  | unopenable => exact ⟨c, [.couldNotOpen], by simp [FState.pathExists, FState.isFile, S.cfgOpen]⟩
  | unreadable => exact ⟨c, [.couldNotRead], by simp [FState.pathExists, FState.isFile, S.cfgRead]⟩
  | bytes b =>
    obtain ⟨c', ws, h, _⟩ := readConfigLines_spec S.cfgInt props (readlines (translateNewlines (py.decodeReplace b))) c
    exact ⟨c', ws, by simpa [FState.pathExists, FState.isFile, readConfigText] using h⟩

/-- **C19, clause "valid settings in a partly invalid file still take effect"**, general form: after
    `read_config` over ANY list of lines, every key holds the value of the LAST line that is a valid setting of
    that key, and keeps its previous value when no line is — whatever the other lines contain. -/
theorem C19_config_last_valid_line (props : List CfgProp) (lines : List Str) (c : Config) :
    ∃ c' ws, readConfigLines genGuard props lines c = .ok (c', ws) ∧
      ∀ k, c'.get? k = match lastSet genGuard props lines k with
        | some v => some v
        | none => c.get? k :=
  readConfigLines_spec genGuard_soft.cfgInt props lines c

/-- **C19, same clause on the file text**: a file made of arbitrary lines `pre`, then a line `l` that is a valid
    setting `k = v`, then arbitrary lines `post` none of which is a valid setting of `k`, then possibly an
    unterminated last fragment `tail` (also not a setting of `k`): `k` ends up as `v`.
    The lines of `pre`, `post` and `tail` may be any code points (garbage, extra separators, wrong types, other keys). -/
theorem C19_config_partial (props : List CfgProp) (pre post : List Str) (l tail : Str) (k : Str) (v : CfgVal) (c : Config)
    (hpre : ∀ x ∈ pre, cNL ∉ x) (hl : cNL ∉ l) (hpost : ∀ x ∈ post, cNL ∉ x) (htail : cNL ∉ tail)
    (hvalid : processLine genGuard props (l ++ [cNL]) = .set k v)
    (hlater : ∀ x ∈ post, ∀ v', processLine genGuard props (x ++ [cNL]) ≠ .set k v')
    (hlast : ∀ v', processLine genGuard props tail ≠ .set k v') :
    ∃ c' ws, readConfigText genGuard props (joinLines (pre ++ l :: post) ++ tail) c = .ok (c', ws) ∧
      c'.get? k = some v := by
  have hall : ∀ x ∈ pre ++ l :: post, cNL ∉ x := by
    intro x hx
    rcases List.mem_append.mp hx with h | h
    · exact hpre x h
    · rcases List.mem_cons.mp h with h | h
      · exact h ▸ hl
      · exact hpost x h
  obtain ⟨c', ws, h1, h2⟩ := C19_config_last_valid_line props (readlines (joinLines (pre ++ l :: post) ++ tail)) c
  refine ⟨c', ws, h1, ?_⟩
  rw [h2 k, readlines_joinLines _ _ hall htail]
  have hp : lastSet genGuard props (post.map (· ++ [cNL]) ++ (if tail = [] then [] else [tail])) k = none := by
    apply lastSet_none_of_no_line
    intro x hx v'
    rcases List.mem_append.mp hx with h | h
    · obtain ⟨y, hy, rfl⟩ := List.mem_map.mp h
      exact hlater y hy v'
    · split at h
      · cases h
      · rcases List.mem_singleton.mp h with rfl
        exact hlast v'
  have : (pre ++ l :: post).map (· ++ [cNL]) ++ (if tail = [] then [] else [tail])
      = pre.map (· ++ [cNL]) ++ ((l ++ [cNL]) :: (post.map (· ++ [cNL]) ++ (if tail = [] then [] else [tail]))) := by
    simp
  rw [this, lastSet_append]
  simp only [lastSet, hp, lineSets, hvalid, if_true]

/-- **C19, clause "a value may itself contain the separator character"**: a line `key=value` for a string-valued
    property is split at the FIRST `=` only: the setting is the whole (stripped) rest of the line, however many
    `=` it contains. -/
theorem C19_config_separator (props : List CfgProp) (key value : Str) (p : CfgProp)
    (hkey : cEq ∉ key) (hp : lookupProp props (strip key) = some p) (hnum : p.num = false) (hbool : p.boolean = false) :
    processLine genGuard props (key ++ cEq :: value) = .set (strip key) (.str (strip value)) := by
  unfold processLine
  simp [splitFirst_append cEq key value hkey, hp, hnum, hbool]

/-- **C19, start-up reads the config twice (import of `ka.units`, then `cli.main`)**: the second reading, which
    starts from the `CONFIG` the first one left, yields the same value for every key. -/
theorem C19_config_reread (props : List CfgProp) (lines : List Str) (c1 : Config) (ws1 : List Warning)
    (h1 : readConfigLines genGuard props lines [] = .ok (c1, ws1)) :
    ∃ c2 ws2, readConfigLines genGuard props lines c1 = .ok (c2, ws2) ∧ ∀ k, c2.get? k = c1.get? k := by
  obtain ⟨a, wa, ha, sa⟩ := C19_config_last_valid_line props lines []
  obtain ⟨b, wb, hb, sb⟩ := C19_config_last_valid_line props lines c1
  rw [h1] at ha
  cases ha
  refine ⟨b, wb, hb, fun k => ?_⟩
  rw [sb k, sa k]
  cases lastSet genGuard props lines k <;> simp [Config.get?]

/-- **C19, the currency file**: for every state of the configured currency path `load_currency_data` returns a
    table: the file's own table when the file can be read, decoded and parsed to a non-empty table, else the
    built-in one; the only output is the fall-back warning.  (`hdef`: the built-in text parses — `C19_default_table`.) -/
theorem C19_currency_load_total (py : Py) (dtext : Str) (dflt : Table) (st : FState)
    (hdef : parseCurrencyData py.readRate dtext = .ok (some dflt)) :
    ∃ ws, loadCurrencyData genGuard py dtext st =
        .ok (some ((C19.fileTable py st).getD dflt), (C19.fileTable py st).isSome, ws) ∧
      (ws = [] ∨ ws = [.currencyFallback]) := by
  have S := genGuard_soft
  unfold loadCurrencyData C19.fileTable
  cases st with
  | missing => exact ⟨[], by simp [FState.pathExists, hdef], Or.inl rfl⟩
  | dir => exact ⟨[.currencyFallback], by simp [FState.pathExists, hdef, S.curOpen], Or.inr rfl⟩
  | unopenable => exact ⟨[.currencyFallback], by simp [FState.pathExists, hdef, S.curOpen], Or.inr rfl⟩
  | unreadable => exact ⟨[.currencyFallback], by simp [FState.pathExists, hdef, S.curRead], Or.inr rfl⟩
  | bytes b =>
    cases hd : py.decodeStrict b with
    | none => exact ⟨[.currencyFallback], by simp [FState.pathExists, hdef, S.curRead, hd], Or.inr rfl⟩
    | some s =>
      cases hp : parseCurrencyData py.readRate (translateNewlines s) with
      | error e => exact ⟨[.currencyFallback], by simp [FState.pathExists, hdef, S.curParse, hd, hp], Or.inr rfl⟩
      | ok t =>
        cases t with
        | none => exact ⟨[], by simp [FState.pathExists, hdef, hd, hp], Or.inl rfl⟩
        | some t => exact ⟨[], by simp [FState.pathExists, hd, hp], Or.inl rfl⟩

/-- **C19, the registration loop never asserts**: whatever rows the currency table has (clashing names, symbols,
    plurals, special signs, duplicates, non-positive or NaN rates) and whatever units are registered before,
    every `register_unit` call the loop makes passes its three assertions (for any NFKD normaliser). -/
theorem C19_registration_total (nfkd : Str → Str) (specialNames specialSymbols : List (Str × Str)) (t : Table)
    (units0 : Reg) : ∃ r, registerAll nfkd specialNames specialSymbols units0 t = .ok r :=
  registerAll_ok nfkd specialNames specialSymbols t units0

/-- the history lines `readline_load_history` hands to readline -/
def C19.historyOf (py : Py) (enabled : Bool) (st : FState) : List Str :=
  if enabled then
    match st with
    | .bytes b =>
      match py.decodeStrict b with
      | some s => ((((readlines (translateNewlines s)).map strip).filter (fun l => l.length > 0)).map strip).filter
                    (fun l => !l.contains 0)
      | none => []
    | _ => []
  else []

/-- **C19, main clause**: for ALL states of the three files — 5³ shapes (missing / directory / cannot be opened /
    opens but cannot be read / bytes) × all byte contents — any decoder and `float()`, any previously registered
    units, in one-shot and in interpreter mode, start-up reaches `running`:
    * every setting has the value of the last valid line of the config file, or is unset (default) when the file
      could not be read;
    * the currency table is the file's when it parses, else the built-in one;
    * the base currency is the configured one if the table has it, else the default one if present, else none;
    * without a base currency no currency unit is registered; with one, the registration loop ran over that table;
    * the history is what could be read (NUL lines dropped), empty otherwise;
    * everything printed is one of the two warnings (currency fall-back, history could not be loaded). -/
theorem C19_startup (py : Py) (dflt : Table) (units0 : Reg) (cfg cur hist : FState) (mode : Mode)
    (hdef : parseCurrencyData py.readRate genConsts.defaultCurrencyText = .ok (some dflt)) :
    ∃ r, startup genGuard py genConsts units0 cfg cur hist mode = .ok r ∧
      (∀ k, r.config.get? k = C19.fileSetting py cfg k) ∧
      r.table = (C19.fileTable py cur).getD dflt ∧
      r.fileTableUsed = (C19.fileTable py cur).isSome ∧
      r.base = baseCurrency (getStr genConsts.props r.config kBaseCurrency) genConsts.defaultBase r.table ∧
      (match r.base with
        | none => r.reg = units0
        | some _ => registerAll py.nfkd genConsts.specialNames genConsts.specialSymbols units0 r.table = .ok r.reg) ∧
      r.history = (match mode with
        | .oneShot => []
        | .interpreter => C19.historyOf py (getBool r.config kSaveHistory true) hist) ∧
      (∀ w ∈ r.warnings, w = .currencyFallback ∨ ∃ e, w = .historyLoad e) := by
  have S := genGuard_soft
  -- the two readings of the config
  have hcfg : ∃ c1 w1 c2 w2, readConfigFile genGuard py genConsts.props cfg [] = .ok (c1, w1) ∧
      readConfigFile genGuard py genConsts.props cfg c1 = .ok (c2, w2) ∧
      (∀ k, c1.get? k = C19.fileSetting py cfg k) ∧ (∀ k, c2.get? k = C19.fileSetting py cfg k) := by
    cases cfg with
    | missing => exact ⟨[], [], [], [], rfl, rfl, fun k => rfl, fun k => rfl⟩
    | dir => exact ⟨[], [], [], [], rfl, rfl, fun k => rfl, fun k => rfl⟩
    | unopenable =>
      exact ⟨[], [.couldNotOpen], [], [.couldNotOpen], by simp [readConfigFile, FState.pathExists, FState.isFile, S.cfgOpen],
        by simp [readConfigFile, FState.pathExists, FState.isFile, S.cfgOpen], fun k => rfl, fun k => rfl⟩
    | unreadable =>
      exact ⟨[], [.couldNotRead], [], [.couldNotRead], by simp [readConfigFile, FState.pathExists, FState.isFile, S.cfgRead],
        by simp [readConfigFile, FState.pathExists, FState.isFile, S.cfgRead], fun k => rfl, fun k => rfl⟩
    | bytes b =>
      obtain ⟨c1, w1, h1, s1⟩ := C19_config_last_valid_line genConsts.props
        (readlines (translateNewlines (py.decodeReplace b))) []
      obtain ⟨c2, w2, h2, s2⟩ := C19_config_reread genConsts.props _ c1 w1 h1
      refine ⟨c1, w1, c2, w2, by simpa [readConfigFile, FState.pathExists, FState.isFile, readConfigText] using h1,
        by simpa [readConfigFile, FState.pathExists, FState.isFile, readConfigText] using h2, ?_, ?_⟩
      · intro k; rw [s1 k]; simp only [C19.fileSetting]
        cases lastSet genGuard genConsts.props (readlines (translateNewlines (py.decodeReplace b))) k <;> simp [Config.get?]
      · intro k; rw [s2 k, s1 k]; simp only [C19.fileSetting]
        cases lastSet genGuard genConsts.props (readlines (translateNewlines (py.decodeReplace b))) k <;> simp [Config.get?]
  obtain ⟨c1, w1, c2, w2, hc1, hc2, s1, s2⟩ := hcfg
  obtain ⟨wcur, hcur, hwcur⟩ := C19_currency_load_total py genConsts.defaultCurrencyText dflt cur hdef
  -- the same configured base in both readings
  have hbase : getStr genConsts.props c1 kBaseCurrency = getStr genConsts.props c2 kBaseCurrency := by
    simp only [getStr, s1, s2]
  -- registration
  obtain ⟨regAll, hreg⟩ := registerAll_ok py.nfkd genConsts.specialNames genConsts.specialSymbols
    ((C19.fileTable py cur).getD dflt) units0
  -- history
  have hhist : ∀ enabled, ∃ w3, loadHistory genGuard py enabled hist = .ok
      ((if enabled then
          match hist with
          | .bytes b =>
            match py.decodeStrict b with
            | some s => ((readlines (translateNewlines s)).map strip).filter (fun l => l.length > 0)
            | none => []
          | _ => []
        else []), w3) ∧ (∀ w ∈ w3, ∃ e, w = .historyLoad e) := by
    intro enabled
    unfold loadHistory
    cases enabled with
    | false => exact ⟨[], by simp, by simp⟩
    | true =>
      cases hist with
      | missing => exact ⟨[], by simp, by simp⟩
      | dir => exact ⟨[.historyLoad .isADirectory], by simp [S.histOpen], by simp⟩
      | unopenable => exact ⟨[.historyLoad .permission], by simp [S.histOpen], by simp⟩
      | unreadable => exact ⟨[.historyLoad .osOther], by simp [S.histRead], by simp⟩
      | bytes b =>
        cases hd : py.decodeStrict b with
        | none => exact ⟨[.historyLoad .unicodeDecode], by simp [S.histRead, hd], by simp⟩
        | some s => exact ⟨[], by simp [hd], by simp⟩
  unfold startup
  simp only [hc1, hcur]
  cases hb : baseCurrency (getStr genConsts.props c1 kBaseCurrency) genConsts.defaultBase ((C19.fileTable py cur).getD dflt) with
  | none =>
    simp only [hc2]
    cases mode with
    | oneShot =>
      refine ⟨_, rfl, s2, rfl, rfl, ?_, by simp only, rfl, ?_⟩
      · simp only [← hbase, hb]
      · intro w hw; rcases hwcur with h | h <;> simp [h] at hw; exact Or.inl hw
    | interpreter =>
      obtain ⟨w3, hh, hw3⟩ := hhist (getBool c2 kSaveHistory true)
      simp only [hh, readlineLoadHistory_spec genGuard_soft.addHistory]
      refine ⟨_, rfl, s2, rfl, rfl, ?_, by simp only, ?_, ?_⟩
      · simp only [← hbase, hb]
      · simp only [C19.historyOf]
        cases getBool c2 kSaveHistory true <;> simp
        cases hist <;> simp
        split <;> simp
      · intro w hw
        rcases List.mem_append.mp hw with h | h
        · rcases hwcur with h' | h' <;> simp [h'] at h; exact Or.inl h
        · exact Or.inr (hw3 w h)
  | some bsym =>
    simp only [hreg, hc2]
    cases mode with
    | oneShot =>
      refine ⟨_, rfl, s2, rfl, rfl, ?_, ?_, rfl, ?_⟩
      · simp only [← hbase, hb]
      · simp only; exact hreg
      · intro w hw; rcases hwcur with h | h <;> simp [h] at hw; exact Or.inl hw
    | interpreter =>
      obtain ⟨w3, hh, hw3⟩ := hhist (getBool c2 kSaveHistory true)
      simp only [hh, readlineLoadHistory_spec genGuard_soft.addHistory]
      refine ⟨_, rfl, s2, rfl, rfl, ?_, ?_, ?_, ?_⟩
      · simp only [← hbase, hb]
      · simp only; exact hreg
      · simp only [C19.historyOf]
        cases getBool c2 kSaveHistory true <;> simp
        cases hist <;> simp
        split <;> simp
      · intro w hw
        rcases List.mem_append.mp hw with h | h
        · rcases hwcur with h' | h' <;> simp [h'] at h; exact Or.inl h
        · exact Or.inr (hw3 w h)

/-- **C19, clause "saving history never prevents exit"**: whatever the operating system answers to the requests
    `save_history` makes (each of open-for-append, write, makedirs, open-for-write, write may raise ANY
    `Exception`), `save_history` returns; it printed at most one warning. -/
theorem C19_history_never_blocks_exit (enabled : Bool) (os : SaveOS) :
    ∃ outcome ws, saveHistory genGuard enabled os = .ok (outcome, ws) ∧ ws.length ≤ 1 := by
  have S := genGuard_soft
  unfold saveHistory
  cases enabled <;> simp only [Bool.not_true, Bool.not_false, if_true, Bool.false_eq_true, if_false]
  · exact ⟨_, _, rfl, by simp⟩
  · cases os.pathExists <;> simp only [Bool.false_eq_true, if_true, if_false]
    · cases os.parentExists <;> simp only [Bool.false_eq_true, if_true, if_false] <;>
        cases os.makedirs <;> cases os.openNew <;> cases os.writeNew <;>
          (try simp only [S.saveMakedirs, S.saveOpenNew, S.saveWriteNew, if_true]) <;>
          exact ⟨_, _, rfl, by simp⟩
    · cases os.openAppend <;> cases os.writeAppend <;>
        (try simp only [S.saveOpenAppend, S.saveWriteAppend, if_true]) <;>
        exact ⟨_, _, rfl, by simp⟩

/-- **C19, base-currency fall-back**: when the configured base currency is not in the table in use, the base is
    the default one (`eur`) if the table has it and otherwise there is no cash dimension at all; and whenever a
    base is chosen the table does contain it, so `next(c for c in CURRENCY_DATA if c.symbol == BASE_CURRENCY)`
    finds a row. -/
theorem C19_base_currency_fallback (configured : Str) (t : Table) :
    (hasCurrency configured t = false →
      baseCurrency configured genConsts.defaultBase t =
        if hasCurrency genConsts.defaultBase t then some genConsts.defaultBase else none) ∧
    (hasCurrency configured t = true → baseCurrency configured genConsts.defaultBase t = some configured) ∧
    (∀ b, baseCurrency configured genConsts.defaultBase t = some b → ∃ row ∈ t, row.symbol = b) := by
  refine ⟨fun h => by simp [baseCurrency, h], fun h => by simp [baseCurrency, h], fun b h => ?_⟩
  have := baseCurrency_mem _ _ _ _ h
  simp only [hasCurrency, List.any_eq_true, beq_iff_eq] at this
  exact this

/-- the built-in table, evaluated: parses, has 185 rows, contains the default base currency -/
def C19.defaultTableOk : Bool :=
  match parseCurrencyData readRateCPython genConsts.defaultCurrencyText with
  | .ok (some t) => hasCurrency genConsts.defaultBase t && t.length == 185 && t.all (fun c => c.rate.pos)
  | _ => false

set_option maxRecDepth 100000 in
/-- **C19, the fall-back itself is sound** (complete kernel evaluation of the generated `DEFAULT_CURRENCY_DATA`
    with the CPython-faithful `float()` model): the built-in table parses to a table that contains the default
    base currency and only positive rates — the hypothesis `hdef` of `C19_startup` holds for the running code. -/
theorem C19_default_table :
    ∃ t, parseCurrencyData Py.cpython.readRate genConsts.defaultCurrencyText = .ok (some t) ∧
      hasCurrency genConsts.defaultBase t = true ∧ t.length = 185 := by
  have h : C19.defaultTableOk = true := by decide +kernel
  unfold C19.defaultTableOk at h
  change (match parseCurrencyData readRateCPython genConsts.defaultCurrencyText with
    | .ok (some t) => _ | _ => false) = true at h
  show ∃ t, parseCurrencyData readRateCPython genConsts.defaultCurrencyText = .ok (some t) ∧ _
  split at h
  · rename_i t ht
    simp only [Bool.and_eq_true, beq_iff_eq] at h
    exact ⟨t, ht, h.1.1, h.1.2⟩
  · cases h

/-- the two CPython character tables the model hard-codes are the running interpreter's (regenerated each run),
    `read_config` scans 15 properties, `precision` is numeric and `prompt` is a plain string -/
theorem C19_tables_current :
    pySpace = Gen.ConfigProps.pySpace ∧ pyDecimalZeros = Gen.ConfigProps.pyDecimalZeros ∧
      genProps.length = Gen.ConfigProps.props.length := by
  refine ⟨by decide, by decide, by simp [genProps]⟩

/-! ## Non-vacuity: the hypotheses above are satisfiable on the generated tables -/

/-- `precision=3` is a valid setting (hypothesis `hvalid` of `C19_config_partial`) -/
example : processLine genGuard genProps [112, 114, 101, 99, 105, 115, 105, 111, 110, 61, 51, 10]
    = .set [112, 114, 101, 99, 105, 115, 105, 111, 110] (.int 3) := by decide

/-- `precision=abc` and a garbage line are not (hypotheses `hlater`, `hlast`) -/
example : processLine genGuard genProps [112, 114, 101, 99, 105, 115, 105, 111, 110, 61, 97, 98, 99, 10]
    = .warn (.expectInt [112, 114, 101, 99, 105, 115, 105, 111, 110]) := by decide

/-- `prompt=a=b`: the hypotheses of `C19_config_separator` hold for the real `prompt` property, and the value is `a=b` -/
example : processLine genGuard genProps ([112, 114, 111, 109, 112, 116] ++ cEq :: [97, 61, 98])
    = .set [112, 114, 111, 109, 112, 116] (.str [97, 61, 98]) := by decide

example : lookupProp genProps (strip [112, 114, 111, 109, 112, 116]) =
    some ⟨[112, 114, 111, 109, 112, 116], [62, 62, 62], false, false⟩ := by decide

/-- a whole partly invalid file: `junk`, `precision=3`, `===`, `precision=x` → precision is 3, two warnings -/
example : readConfigText genGuard genProps
      ([106, 117, 110, 107, 10] ++ [112, 114, 101, 99, 105, 115, 105, 111, 110, 61, 51, 10] ++ [61, 61, 61, 10] ++
        [112, 114, 101, 99, 105, 115, 105, 111, 110, 61, 120]) [] =
    .ok ([([112, 114, 101, 99, 105, 115, 105, 111, 110], .int 3)],
         [.unknownVar [], .expectInt [112, 114, 101, 99, 105, 115, 105, 111, 110]]) := by rfl

/-- the start-up hypothesis `hdef` holds for the CPython instance (`C19_default_table`), and a start-up with a
    directory in place of every file runs with the built-in table, base `eur`, nothing set, no history -/
example : ∃ r, startup genGuard Py.cpython genConsts ⟨[], [], []⟩ .dir .dir .dir .interpreter = .ok r ∧
    r.fileTableUsed = false ∧ r.base = some genConsts.defaultBase ∧ r.history = [] := by
  obtain ⟨t, ht, he, _⟩ := C19_default_table
  obtain ⟨r, hr, h1, h2, h3, h4, _, h6, _⟩ :=
    C19_startup Py.cpython t ⟨[], [], []⟩ .dir .dir .dir .interpreter ht
  refine ⟨r, hr, ?_, ?_, ?_⟩
  · simpa [C19.fileTable] using h3
  · have hc : getStr genConsts.props r.config kBaseCurrency = genConsts.defaultBase := by
      have : r.config.get? kBaseCurrency = none := by simpa [C19.fileSetting] using h1 kBaseCurrency
      simp only [getStr, this]
      decide
    have ht' : r.table = t := by simpa [C19.fileTable] using h2
    rw [h4, hc, ht']
    simp [baseCurrency, he]
  · simpa [C19.historyOf] using h6

end KaVerif
