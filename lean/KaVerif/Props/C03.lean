import KaVerif.Model.Quantity
import Mathlib.Data.List.Basic
/-
  C03 — quantity algebra is dimensionally sound.
  All theorems hold for EVERY unit table (in particular the generated Gen/Units table of the
  current tree) and every expression tree.
-/
namespace KaVerif
open Qty Units Num

/-- one unit of a signature contributes ±k·dim(u) — its dimension vector only -/
theorem stepSpec_dim (t : UnitTable) (n : Nat) (acc acc' : Composed) (spec : List Nat × Int × Bool)
    (h : stepSpec t n acc spec = .ok acc') :
    ∃ r, lookupUnit t spec.1 = .ok (some r) ∧
      acc'.dim = Dim.add acc.dim (Dim.smul (if spec.2.2 then -spec.2.1 else spec.2.1) r.unit.dim) := by
  unfold stepSpec at h
  cases hl : lookupUnit t spec.1 with
  | error e => simp [hl] at h
  | ok o =>
    cases o with
    | none => simp [hl] at h
    | some r =>
      simp only [hl] at h
      refine ⟨r, rfl, ?_⟩
      cases hm : resolvedMultiple t r spec.1 with
      | error e => simp [hm] at h
      | ok um =>
        simp only [hm] at h
        cases hs : stepMultiple acc.multiple um (if spec.2.2 then -spec.2.1 else spec.2.1) with
        | error e => simp [hs] at h
        | ok m =>
          simp only [hs] at h
          by_cases hb : offsetBad (numOf r.unit.offNum r.unit.offDen r.unit.offKind) n
              (if spec.2.2 then -spec.2.1 else spec.2.1) = true
          · simp [hb] at h
          · simp only [hb, Bool.false_eq_true, if_false, Except.ok.injEq] at h; rw [← h]

/-- the signature walk of `compose_units` computes exactly Σ ±k·dim(u): it depends on the units'
    dimension vectors only — not on multiples, offsets, prefixes or spellings -/
theorem foldl_stepSpec_dim (t : UnitTable) (n : Nat) (specs : List (List Nat × Int × Bool)) (acc c : Composed)
    (h : specs.foldlM (stepSpec t n) acc = .ok c) :
    (specs.map (fun s => (s.1, if s.2.2 then -s.2.1 else s.2.1))).foldlM (fun a p =>
      match lookupUnit t p.1 with
      | .ok (some r) => some (Dim.add a (Dim.smul p.2 r.unit.dim))
      | _ => none) acc.dim = some c.dim := by
  induction specs generalizing acc with
  | nil =>
    have : acc = c := by simpa [pure, Except.pure] using h
    subst this; rfl
  | cons s rest ih =>
    simp only [List.foldlM_cons, bind, Except.bind] at h
    cases hs : stepSpec t n acc s with
    | error e => simp [hs] at h
    | ok acc' =>
      simp only [hs] at h
      obtain ⟨r, hr, hd⟩ := stepSpec_dim t n acc acc' s hs
      simp only [List.map_cons, List.foldlM_cons, hr, Option.bind_eq_bind, Option.bind_some]
      rw [← hd]; exact ih acc' h

theorem composeUnits_dim (t : UnitTable) (sig : Sig) (c : Composed) (h : composeUnits t sig = .ok c) :
    sigDim t sig = some c.dim := by
  unfold composeUnits at h
  have := foldl_stepSpec_dim t _ _ _ c h
  unfold sigDim
  rw [List.map_append, List.map_map, List.map_map] at this
  have e1 : (List.map ((fun s : List Nat × Int × Bool => (s.1, if s.2.2 = true then -s.2.1 else s.2.1)) ∘
      fun p : List Nat × Int => (p.1, p.2, false)) sig.units) = sig.units := by
    induction sig.units with
    | nil => rfl
    | cons a t ih => simp only [List.map_cons, Function.comp, ih]; simp
  have e2 : (List.map ((fun s : List Nat × Int × Bool => (s.1, if s.2.2 = true then -s.2.1 else s.2.1)) ∘
      fun p : List Nat × Int => (p.1, p.2, true)) sig.inverted) = sig.inverted.map (fun p => (p.1, -p.2)) := by
    induction sig.inverted with
    | nil => rfl
    | cons a t ih => simp only [List.map_cons, Function.comp, ih]; simp
  rw [e1, e2] at this
  exact this

theorem makeQuantity_dim (t : UnitTable) (v v' : QVal) (sig : Sig) (h : makeQuantity t v sig = .ok v') :
    (∃ n, v = .num n) ∧ ∃ d, sigDim t sig = some d ∧ v'.dim? = some d := by
  cases v with
  | qty m d => simp [makeQuantity] at h
  | num x =>
    refine ⟨⟨x, rfl⟩, ?_⟩
    simp only [makeQuantity, bind, Except.bind] at h
    cases hc : composeUnits t sig with
    | error e => simp [hc] at h
    | ok c =>
      simp only [hc] at h
      refine ⟨c.dim, composeUnits_dim t sig c hc, ?_⟩
      cases h1 : pyLin .mul c.multiple x with
      | error e => simp [h1] at h
      | ok m1 =>
        simp only [h1] at h
        cases h2 : pyLin .add m1 c.offset with
        | error e => simp [h2] at h
        | ok m2 =>
          simp only [h2] at h
          cases h3 : simplify m2 with
          | error e => simp [h3] at h
          | ok m3 => simp only [h3, Except.ok.injEq] at h; rw [← h]; rfl

theorem convertQuantity_dim (t : UnitTable) (v v' : QVal) (sig : Sig) (h : convertQuantity t v sig = .ok v') :
    ∃ d, v.dim? = some d ∧ sigDim t sig = some d ∧ v'.dim? = none := by
  simp only [convertQuantity, bind, Except.bind] at h
  cases hc : composeUnits t sig with
  | error e => simp [hc] at h
  | ok c =>
    simp only [hc] at h
    cases v with
    | num n => simp at h
    | qty mag dim =>
      simp only at h
      by_cases hd : dim = c.dim
      · subst hd
        refine ⟨c.dim, rfl, composeUnits_dim t sig c hc, ?_⟩
        simp only [bne_self_eq_false, Bool.false_eq_true, if_false] at h
        cases h1 : binop .sub mag c.offset with
        | error e => simp [h1] at h
        | ok d1 =>
          simp only [h1] at h
          cases h2 : binop .div d1 c.multiple with
          | error e => simp [h2] at h
          | ok r => simp only [h2, Except.ok.injEq] at h; rw [← h]; rfl
      · have : (dim != c.dim) = true := by simpa using hd
        simp [this] at h

theorem numOp_bind {α : Type} (op : QOp) (x y : Num) (f : Num → QVal) (v : QVal)
    (h : (match numOp op x y with | .error e => Except.error e | .ok m => Except.ok (f m)) = .ok v) :
    ∃ m, v = f m := by
  cases hn : numOp op x y with
  | error e => simp [hn] at h
  | ok m => simp only [hn, Except.ok.injEq] at h; exact ⟨m, h.symm⟩

theorem qtyOp_dim (op : QOp) (x y : Num) (dx dy : Dim) (v : QVal) (h : qtyOp op x dx y dy = .ok v) :
    (match op with
      | .mul => v.dim? = some (Dim.add dx dy)
      | .div => v.dim? = some (Dim.sub dx dy)
      | .add | .sub => dx = dy ∧ v.dim? = some dx
      | _ => dx = dy ∧ v.dim? = none) := by
  have key : ∀ (f : Num → QVal),
      (do let m ← numOp op x y; Except.ok (f m)) = Except.ok v → ∃ m, v = f m := by
    intro f hh
    simp only [bind, Except.bind] at hh
    cases hn : numOp op x y with
    | error e => simp [hn] at hh
    | ok m => simp only [hn, Except.ok.injEq] at hh; exact ⟨m, hh.symm⟩
  have hne : dx ≠ dy → (dx != dy) = true := fun hd => by simpa using hd
  cases op
  case mul => obtain ⟨m, rfl⟩ := key (fun m => .qty m (Dim.add dx dy)) h; rfl
  case div => obtain ⟨m, rfl⟩ := key (fun m => .qty m (Dim.sub dx dy)) h; rfl
  case add =>
    by_cases hd : dx = dy
    · subst hd; simp only [qtyOp, bne_self_eq_false, Bool.false_eq_true, if_false] at h
      obtain ⟨m, rfl⟩ := key (fun m => .qty m dx) h; exact ⟨rfl, rfl⟩
    · simp [qtyOp, hne hd] at h
  case sub =>
    by_cases hd : dx = dy
    · subst hd; simp only [qtyOp, bne_self_eq_false, Bool.false_eq_true, if_false] at h
      obtain ⟨m, rfl⟩ := key (fun m => .qty m dx) h; exact ⟨rfl, rfl⟩
    · simp [qtyOp, hne hd] at h
  all_goals
    by_cases hd : dx = dy
    · subst hd; simp only [qtyOp, bne_self_eq_false, Bool.false_eq_true, if_false] at h
      obtain ⟨m, rfl⟩ := key (fun m => .num m) h; exact ⟨rfl, rfl⟩
    · simp [qtyOp, hne hd] at h

/-- **C03 (dimension calculus).** Whenever a quantity expression evaluates, the result's dimension
    is what the dimension calculus says: a product adds exponents, a quotient subtracts them, a plain
    number counts as dimensionless on either side, + − keep the common dimension, comparisons and
    `to` give plain numbers — computed from the units' dimension vectors alone, so it does not
    depend on magnitudes, multiples, prefixes or spellings. -/
theorem C03_dim (t : UnitTable) (e : QExp) (v : QVal) (h : evalQ t e = .ok v) :
    dimOf t e = some v.dim? := by
  induction e generalizing v with
  | lit n => simp only [evalQ, Except.ok.injEq] at h; rw [← h]; rfl
  | tag e sig ih =>
    simp only [evalQ, bind, Except.bind] at h
    cases he : evalQ t e with
    | error err => simp [he] at h
    | ok w =>
      simp only [he] at h
      obtain ⟨⟨n, hn⟩, d, hs, hv⟩ := makeQuantity_dim t w v sig h
      have := ih w he
      subst hn
      rw [dimOf, this, hv]
      simp only [QVal.dim?, hs, Option.map_some]
  | bin op a b iha ihb =>
    simp only [evalQ, bind, Except.bind] at h
    cases ha : evalQ t a with
    | error err => simp [ha] at h
    | ok x =>
      cases hb : evalQ t b with
      | error err => simp [ha, hb] at h
      | ok y =>
        simp only [ha, hb] at h
        have h1 := iha x ha
        have h2 := ihb y hb
        simp only [dimOf, h1, h2]
        cases x with
        | num p =>
          cases y with
          | num q =>
            simp only [applyOp, bind, Except.bind] at h
            cases hn : numOp op p q with
            | error err => simp [hn] at h
            | ok m => simp only [hn, Except.ok.injEq] at h; rw [← h]; rfl
          | qty q dq =>
            simp only [applyOp] at h
            have := qtyOp_dim op p q _ dq v h
            cases op <;> simp only [QVal.dim?, Option.getD] at this ⊢ <;> simp_all
        | qty p dp =>
          cases y with
          | num q =>
            simp only [applyOp] at h
            have := qtyOp_dim op p q dp _ v h
            cases op <;> simp only [QVal.dim?, Option.getD] at this ⊢ <;> simp_all
          | qty q dq =>
            simp only [applyOp] at h
            have := qtyOp_dim op p q dp dq v h
            cases op <;> simp only [QVal.dim?, Option.getD] at this ⊢ <;> simp_all
  | conv e sig ih =>
    simp only [evalQ, bind, Except.bind] at h
    cases he : evalQ t e with
    | error err => simp [he] at h
    | ok w =>
      simp only [he] at h
      obtain ⟨d, hw, hs, hv⟩ := convertQuantity_dim t w v sig h
      have := ih w he
      rw [dimOf, this, hw, hs, hv]; simp

/-- **C03 (rejection).** Adding, subtracting or comparing operands of different dimension, converting
    with `to` into a unit of another dimension (or a plain number), tagging a quantity with units
    again, or using an unknown unit, never yields a value. -/
theorem C03_reject (t : UnitTable) (e : QExp) (h : dimOf t e = none) : ∃ err, evalQ t e = .error err := by
  cases hv : evalQ t e with
  | error err => exact ⟨err, rfl⟩
  | ok v => rw [C03_dim t e v hv] at h; cases h

/-- the error for mismatched operands of + − and the comparisons is the incompatible-quantities error -/
theorem C03_incompatible (op : QOp) (hop : op ≠ .mul ∧ op ≠ .div) (x y : Num) (dx dy : Dim) (hd : dx ≠ dy) :
    qtyOp op x dx y dy = .error .incompatible := by
  have : (dx != dy) = true := by simpa using hd
  cases op <;> simp_all [qtyOp]

/-- **a plain number behaves as a dimensionless quantity** on either side of every operator -/
theorem C03_number_is_dimensionless (nbase : Nat) (op : QOp) (n : Num) (q : Num) (dq : Dim) :
    applyOp nbase op (.num n) (.qty q dq) = applyOp nbase op (.qty n (Dim.zero nbase)) (.qty q dq) ∧
    applyOp nbase op (.qty q dq) (.num n) = applyOp nbase op (.qty q dq) (.qty n (Dim.zero nbase)) := by
  constructor <;> rfl

/-- **independent of prefix and spelling**: whatever spelling or prefix resolves to a unit, the
    dimension that enters the calculus is that of the registered unit -/
theorem C03_spelling_independent (t : UnitTable) (name : List Nat) (r : Resolved)
    (h : lookupUnit t name = .ok (some r)) : r.unit = t.unit r.idx := by
  unfold lookupUnit at h
  cases hh : lookupHit t name with
  | none => simp [hh] at h
  | some hit =>
    obtain ⟨i, pre⟩ := hit
    cases pre with
    | none => simp only [hh, Except.ok.injEq, Option.some.injEq] at h; rw [← h]
    | some p =>
      simp only [hh, applyPrefix] at h
      split at h
      · simp [Except.map] at h
      · simp only [Except.map, Except.ok.injEq, Option.some.injEq] at h; rw [← h]

end KaVerif
