import KaVerif.Gen.UnitsReachAll
import KaVerif.Lemmas.UnitsChecks
/-
  C13 — the table facts: Boolean checks decided by the kernel over the COMPLETE generated unit table
  (`Gen/Units.lean`, regenerated from /repo's `ka.units` on every run) against the hand-written reference
  (`Lemmas/UnitRef.lean`).  No Mathlib here; `Props/C13.lean` turns them into statements about
  `lookupUnit` and rational numbers.  (Reachability is decided chunk-wise in `Gen/UnitsReach*.lean`.)
-/
namespace KaVerif.Units.Table
open KaVerif.Units KaVerif.Gen.Units

set_option maxRecDepth 100000

/-- every key of the two maps points at a unit of the table (a key may be an alias of the unit it points at) -/
theorem namesWF : namesWellFormed table = true := by decide +kernel
theorem symbolsWF : symbolsWellFormed table = true := by decide +kernel

/-- the first seven base units are the SI base units in the reference order -/
theorem siBase : (table.baseUnits.take 7 == refBase) = true := by decide +kernel

/-- every non-currency unit with a reference entry has the reference dimension, size within 1 %, offset within 1e-9 -/
theorem physical : table.units.all (physOk refUnits) = true := by decide +kernel

/-- every reference entry is a registered non-currency unit symbol -/
theorem refCover : refUnits.all (refCovered table) = true := by decide +kernel

-- (that EVERY non-currency unit has a reference entry, and that the maps hold no alias, are facts of the reviewed tree kept in
-- Props/C13Complete.lean: a tree that adds a unit or an alias loses those two, not the theorems about the units it had)

/-- every currency has the dimension of the last base unit (the base currency) only, no offset, positive multiple -/
theorem cashDims : table.units.all (fun u => !u.cash ||
    ((u.dim.take 7).all (· == 0) && u.dim.drop 7 == [1] && u.offNum == 0 && decide (0 < u.mulNum))) = true := by decide +kernel

theorem ratios : refRatios.all (ratioOk table 1000000000000) = true := by decide +kernel
theorem looseRatios : refLooseRatios.all (ratioOk table 100) = true := by decide +kernel

theorem prefixMult : table.prefixes.all prefixMultOk = true := by decide +kernel
/-- the prefix table is exactly the reference prefix table (SI + binary, with both kilo symbols) -/
theorem prefixRef : prefixesMatchRef table.prefixes refPrefixes = true := by decide +kernel
theorem prefixDistinct : prefixesDistinct table.prefixes = true := by decide +kernel

/-- spellings that differ only in case resolve differently (unit symbol, multiple) -/
def CaseExamples : Prop :=
    resolvesTo table [77, 109] [109] 1000000 1 = true ∧  -- Mm = 1000000/1 m
    resolvesTo table [109, 109] [109] 1 1000 = true ∧  -- mm = 1/1000 m
    resolvesTo table [75, 109] [109] 1000 1 = true ∧  -- Km = 1000/1 m
    resolvesTo table [107, 109] [109] 1000 1 = true ∧  -- km = 1000/1 m
    resolvesTo table [83] [83] 1 1 = true ∧  -- S = 1/1 S
    resolvesTo table [115] [115] 1 1 = true ∧  -- s = 1/1 s
    resolvesTo table [66] [66] 8 1 = true ∧  -- B = 8/1 B
    resolvesTo table [98] [98] 1 1 = true ∧  -- b = 1/1 b
    resolvesTo table [107, 66] [66] 8000 1 = true ∧  -- kB = 8000/1 B
    resolvesTo table [107, 98] [98] 1000 1 = true ∧  -- kb = 1000/1 b
    resolvesTo table [80, 97] [80, 97] 1 1 = true ∧  -- Pa = 1/1 Pa
    resolvesTo table [80, 65] [65] 1000000000000000 1 = true ∧  -- PA = 1000000000000000/1 A
    resolvesTo table [112, 65] [65] 1 1000000000000 = true ∧  -- pA = 1/1000000000000 A
    resolvesTo table [84] [84] 1 1 = true ∧  -- T = 1/1 T
    resolvesTo table [116] [116] 1000 1 = true ∧  -- t = 1000/1 t
    resolvesTo table [104] [104] 3600 1 = true ∧  -- h = 3600/1 h
    resolvesTo table [72] [72] 1 1 = true ∧  -- H = 1/1 H
    resolvesTo table [109, 105, 110] [109, 105, 110] 60 1 = true ∧  -- min = 60/1 min
    resolvesTo table [109, 101, 116, 114, 101] [109] 1 1 = true ∧  -- metre = 1/1 m
    resolvesTo table [77, 103] [103] 1000 1 = true ∧  -- Mg = 1000/1 g
    resolvesTo table [109, 103] [103] 1 1000000 = true ∧  -- mg = 1/1000000 g
    resolvesTo table [75, 103] [103] 1 1 = true ∧  -- Kg = 1/1 g
    resolvesSym table [77, 105, 110] [105, 110] true = true ∧  -- Min is in, prefixed: true
    resolvesSym table [109, 105, 110] [109, 105, 110] false = true ∧  -- min is min, prefixed: false
    resolvesNone table [77, 77] = true ∧  -- MM is no unit
    resolvesNone table [75, 77] = true ∧  -- KM is no unit
    resolvesNone table [77, 101, 116, 114, 101] = true ∧  -- Metre is no unit
    resolvesNone table [77, 69, 84, 82, 69] = true ∧  -- METRE is no unit
    resolvesNone table [112, 97] = true ∧  -- pa is no unit
    resolvesNone table [104, 90] = true ∧  -- hZ is no unit
    resolvesNone table [104, 122] = true ∧  -- hz is no unit
    resolvesNone table [72, 90] = true ∧  -- HZ is no unit
    resolvesNone table [68, 101, 103, 99] = true ∧  -- Degc is no unit
    resolvesNone table [68, 101, 103, 67] = true ∧  -- DegC is no unit
    resolvesNone table [83, 101, 99, 111, 110, 100] = true ∧  -- Second is no unit
    resolvesNone table [71, 97, 108] = true ∧  -- Gal is no unit
    resolvesNone table [70, 84] = true ∧  -- FT is no unit
    refusesPrefix table [109, 100, 101, 103, 67] = true ∧  -- mdegC
    refusesPrefix table [107, 100, 101, 103, 70] = true ∧  -- kdegF
    refusesPrefix table [109, 105, 108, 108, 105, 100, 101, 103, 67] = true ∧  -- millidegC
    refusesPrefix table [107, 105, 108, 111, 100, 101, 103, 70, 115] = true  -- kilodegFs

theorem caseExamples : CaseExamples := by
  unfold CaseExamples
  decide +kernel

end KaVerif.Units.Table
