import KaVerif.Lemmas.PipelineArrLemmas
import KaVerif.Props.Pipeline2
/-
  PIPE (arrays) — the refinement gaps of the unified pipeline model that `Props/Pipeline2.lean` left
  open (DESIGN 12.7 "Still open"): comprehensions, `median`, `range(lo, hi, step)` beyond exact
  operands, and the aggregates on arrays of same-dimension quantities.

  As in Pipeline / Pipeline2 every theorem is a *refinement* statement: the unified evaluator
  (`Model/Eval.lean`, the function that is fuzzed against `ka.interpret.execute`) restricted to a
  sub-language IS the fragment model (`Model/Array.lean`, `Model/Session.lean`, `Model/Quantity.lean`)
  that the property theorems C12 / C14 are proved about.
-/
namespace KaVerif
open KaVerif.Eval KaVerif.Parser KaVerif.Pipe2 KaVerif.PipeArr

/-! ## C12: comprehensions -/

/-- **C12 (comprehension clause) inside the unified evaluator.**  `{body : x₁ in G₁, …, xₖ in Gₖ, c₁, …, cₘ}`
    evaluated by `eval_node` IS the array fragment's `Arr.comprehension` — lock-step over the generator
    arrays up to the shortest, every condition evaluated and required to be 0 or 1, the position kept when
    all are 1, body values in order (`C12_comprehension`, `C12_comprehension_lockstep`, `C12_conditions`,
    `C12_condition_not_bool`, `C12_comprehension_error` are about that function) — for ANY body and
    condition sub-trees and any fragment value type `V` with an embedding `emb` into the evaluator's values:

    * the two models keep bindings differently (the evaluator one binding per name, newest first; the
      fragment pushes on an association list): `EnvSim emb env e` — every name reads the same — is the
      simulation relation, and the proof shows it is preserved by both binding loops at every index;
    * each generator expression evaluates to (the embedding of) a fragment array;
    * the conditions and the body AGREE with the fragment's under related environments — required only
      at the environments the two binding loops actually produce from `env` / `e` (a hypothesis of the form
      "for related environments, `evalE env' t` = the fragment's function at `e'`", so the theorem composes
      with any refinement lemma for the sub-trees: `PIPE_comprehension_session`, `PIPE_comprehension_arith`).

    Failures correspond class by class (`liftArr`: the fragment's `Err` is the evaluator's `.err`). -/
theorem PIPE_comprehension {V : Type} (emb : V → Val) (env : Env) (e : Arr.Env V) (hsim : EnvSim emb env e)
    (body : Ast) (gens : List (String × Ast)) (conds : List Ast) (arrays : List (List V))
    (hgens : List.Forall₂ (fun g a => evalE env g.2 = .ok (.arr (a.map emb))) gens arrays)
    (fbody : Arr.Env V → Except Err V) (fconds : List (Arr.Env V → Except Err Arr.Cond))
    (hagree : ∀ env' e', EnvSim emb env' e' →
      List.Forall₂ (fun c fc => (evalE env' c >>= boolLike) = liftE ((fc e').map condOpt)) conds fconds ∧
      (evalE env' body >>= resolveLazy) = liftE ((fbody e').map emb)) :
    evalE env (.compr body gens conds) =
      liftArr emb (Arr.comprehension (gens.map (·.1)) arrays fconds fbody e) := by
  obtain ⟨gl, h1, h2, h3⟩ := evalKs_gens emb env gens arrays hgens
  rw [evalE_compr]
  by_cases hg : gens = []
  · subst hg; rfl
  · have hgl : gl ≠ [] := by
      intro h; subst h
      cases gens with
      | nil => exact hg rfl
      | cons g r => simp at h1
    have hemp : gens.isEmpty = false := by cases gens <;> simp_all
    simp only [hemp, Bool.false_eq_true, if_false, h3, bind, Except.bind]
    rw [← h1, ← h2]
    apply comprehension_sim emb gl hgl _ fconds _ fbody env e hsim
    intro i env' e' hb1 hb2
    have hs : EnvSim emb env' e' := by
      have := bind_sim emb i gl env e hsim
      rw [hb1, hb2] at this
      exact this
    obtain ⟨hc, hb⟩ := hagree env' e' hs
    refine ⟨?_, hb⟩
    rw [List.forall₂_map_left_iff]
    exact hc

/-- … and the two error clauses that do not depend on the loop: a clause list without a generator, and
    a generator whose value is not an array, are EvalErrors (whatever body and conditions are). -/
theorem PIPE_comprehension_rejects (env : Env) (body : Ast) (conds : List Ast) :
    evalE env (.compr body [] conds) = raise .eval ∧
    (∀ (gens : List (String × Ast)) (subs : List (String × Val)), gens ≠ [] → evalKs env gens = .ok subs →
      (∃ p ∈ subs, ∀ xs, p.2 ≠ .arr xs) → evalE env (.compr body gens conds) = raise .eval) := by
  refine ⟨by rw [evalE_compr]; rfl, ?_⟩
  intro gens subs hne hk hbad
  have hemp : gens.isEmpty = false := by cases gens <;> simp_all
  rw [evalE_compr]
  simp only [hemp, Bool.false_eq_true, if_false, hk, bind, Except.bind, Eval.comprehension]
  have : arrays? subs = none := arrays_none_of_bad subs hbad
  rw [this]

/-- **The closed form** (composition of `PIPE_comprehension` with `C12_comprehension`): when the fragment's
    step at every index `i` below the shortest generator length `m` yields `r i` (`some v` = kept body value,
    `none` = filtered out), the evaluator returns exactly the kept body values in index order. -/
theorem PIPE_comprehension_closed_form {V : Type} (emb : V → Val) (env : Env) (e : Arr.Env V) (hsim : EnvSim emb env e)
    (body : Ast) (gens : List (String × Ast)) (conds : List Ast) (arrays : List (List V))
    (hgens : List.Forall₂ (fun g a => evalE env g.2 = .ok (.arr (a.map emb))) gens arrays)
    (fbody : Arr.Env V → Except Err V) (fconds : List (Arr.Env V → Except Err Arr.Cond))
    (hagree : ∀ env' e', EnvSim emb env' e' →
      List.Forall₂ (fun c fc => (evalE env' c >>= boolLike) = liftE ((fc e').map condOpt)) conds fconds ∧
      (evalE env' body >>= resolveLazy) = liftE ((fbody e').map emb))
    (hne : gens ≠ []) (m : Nat) (r : Nat → Option V)
    (hm : m = (arrays.map List.length).foldl min (arrays.headD []).length)
    (hsteps : ∀ i, i < m → Arr.comprStep (gens.map (·.1)) arrays fconds fbody e i = .ok (some (r i)))
    (hend : Arr.comprStep (gens.map (·.1)) arrays fconds fbody e m = .ok none) :
    evalE env (.compr body gens conds) = .ok (.arr (((List.range m).filterMap r).map emb)) := by
  rw [PIPE_comprehension emb env e hsim body gens conds arrays hgens fbody fconds hagree,
    (C12_comprehension (gens.map (·.1)) arrays fconds fbody e m r (by simpa using hne) hm hsteps hend).1]
  rfl

/-! ## C14: the scope of generator variables -/

/-- **C14 (bindings) for comprehensions.**  About the evaluator's environment handling:

    1. a comprehension statement leaves the session's bindings exactly as they were — whether it
       succeeds or fails, whatever names its generators use (also names the session has bound: they are
       shadowed inside and read as before afterwards; names it has not bound stay unbound) —, and
       assigning a comprehension to `y` changes `y` only;
    2. inside, at index `i`, a generator variable reads the `i`-th element of its array (of the LAST
       generator of that name) and every other name reads its outer binding;
    3. that pure treatment (the loop runs on a local copy) is what the code's discipline
       `saved = env.save_variables(names); try: run_comprehension(…) finally: env.restore_variables(saved)`
       with in-place `set_variable` computes (`comprehensionMut`, written after eval.py): same value or
       failure, and afterwards every name reads as before — because every expression tree reads the bindings
       through `get` only (`evalE_congr`). -/
theorem PIPE_comprehension_scope (env : Env) (body : Ast) (gens : List (String × Ast)) (conds : List Ast) :
    runProgram env (.compr body gens conds) = (env, evalE env (.compr body gens conds)) ∧
    (∀ y z, z ≠ y → (runProgram env (.assign y (.compr body gens conds))).1.get z = env.get z) ∧
    (∀ i (gs : List (String × List Val)) env', bindGens i gs env = some env' →
      (∀ z, z ∉ gs.map (·.1) → env'.get z = env.get z) ∧
      (∀ pre n a post, gs = pre ++ (n, a) :: post → n ∉ post.map (·.1) → env'.get n = a[i]?)) ∧
    (∀ subs,
      (comprehensionMut subs (evalConds conds) (fun env' => evalE env' body) env).2
        = Eval.comprehension subs (evalConds conds) (fun env' => evalE env' body) env ∧
      ∀ z, (comprehensionMut subs (evalConds conds) (fun env' => evalE env' body) env).1.get z = env.get z) := by
  refine ⟨rfl, ?_, ?_, ?_⟩
  · intro y z hz
    simp only [runProgram, evalStmt]
    cases evalE env (.compr body gens conds) with
    | error er => rfl
    | ok v => exact get_set_other env y z v hz
  · intro i gs
    induction gs generalizing env with
    | nil =>
      intro env' h
      simp only [bindGens, Option.some.injEq] at h
      subst h
      refine ⟨fun _ _ => rfl, ?_⟩
      intro pre n a post h; simp at h
    | cons g rest ih =>
      obtain ⟨n0, a0⟩ := g
      intro env' h
      simp only [bindGens] at h
      cases hv : a0[i]? with
      | none => rw [hv] at h; cases h
      | some v =>
        rw [hv] at h
        obtain ⟨h1, h2⟩ := ih (env.set n0 v) env' h
        refine ⟨?_, ?_⟩
        · intro z hz
          simp only [List.map_cons, List.mem_cons, not_or] at hz
          rw [h1 z hz.2, get_set_other env n0 z v hz.1]
        · intro pre n a post hsplit hn
          cases pre with
          | nil =>
            simp only [List.nil_append, List.cons.injEq, Prod.mk.injEq] at hsplit
            obtain ⟨⟨rfl, rfl⟩, rfl⟩ := hsplit
            rw [h1 n0 hn, get_set_same, hv]
          | cons p pre' =>
            simp only [List.cons_append, List.cons.injEq] at hsplit
            exact h2 pre' n a post hsplit.2 hn
  · intro subs
    have h := comprehensionMut_spec subs (evalConds conds) (fun env' => evalE env' body)
      (evalConds_respects conds) (fun a b hab => evalE_congr body a b hab) env
    exact ⟨h.1, h.2⟩

/-! ### instances of `PIPE_comprehension` -/

/-- **The integer sub-language with variables** (the C14 session fragment's expressions inside the C12
    comprehension fragment): generators that are literal integer arrays or `lo..hi` ranges, a body that
    is a session expression over literals, variables, `+`, `*` (it may read generator variables AND outer
    session variables), conditions `a op b` with any of the six comparisons between such expressions
    (written as the parser builds them: `>` / `>=` flipped).  Evaluated in a session `senv` of the C14
    model, the comprehension IS `Arr.comprehension` over `Session.evalE` — generator variables pushed on
    the session's association list. -/
theorem PIPE_comprehension_session (w : Session.World) (senv : Session.Env)
    (body : Session.Exp) (hb : coreExp body = true)
    (gens : List (String × IntGen)) (hg : ∀ g ∈ gens, g.2.modelled = true)
    (conds : List (Compare.CmpOp × Session.Exp × Session.Exp))
    (hc : ∀ c ∈ conds, coreExp c.2.1 = true ∧ coreExp c.2.2 = true) :
    evalE (envOf senv) (.compr (embedS body) (gens.map (fun g => (g.1, g.2.toAst)))
        (conds.map (fun c => mkCmp1 (pcmpOf c.1) (embedS c.2.1) (embedS c.2.2)))) =
      liftArr valOf (Arr.comprehension (gens.map (·.1)) (gens.map (·.2.values))
        (conds.map (fun c => sessCond w c.1 c.2.1 c.2.2)) (sessBody w body) senv) := by
  have h := PIPE_comprehension valOf (envOf senv) senv (envSim_envOf senv) (embedS body)
    (gens.map (fun g => (g.1, g.2.toAst))) (conds.map (fun c => mkCmp1 (pcmpOf c.1) (embedS c.2.1) (embedS c.2.2)))
    (gens.map (·.2.values)) ?_ (sessBody w body) (conds.map (fun c => sessCond w c.1 c.2.1 c.2.2)) ?_
  · simpa [List.map_map, Function.comp_def] using h
  · rw [List.forall₂_map_left_iff, List.forall₂_map_right_iff, List.forall₂_same]
    intro g hgm
    exact evalE_intGen _ g.2 (hg g hgm)
  · intro env' e' hs
    refine ⟨?_, sessBody_agree w env' e' hs body hb⟩
    rw [List.forall₂_map_left_iff, List.forall₂_map_right_iff, List.forall₂_same]
    intro c hcm
    exact sessCond_agree w env' e' hs c.1 c.2.1 c.2.2 (hc c hcm).1 (hc c hcm).2

/-- **The arithmetic sub-language** (through `PIPE_arith`'s lemma): body and conditions that are C01
    expression trees (no variables), over ANY generators that evaluate to arrays: the comprehension is
    `Arr.comprehension` with the C01 model `evalA` as body and `evalA`'s value read by `bool_like` as
    conditions — so the C01 exactness theorem speaks about every element, and a condition tree whose value
    is neither 0 nor 1 is an EvalError (`C12_condition_not_bool`). -/
theorem PIPE_comprehension_arith (env : Env) (t : AExp) (ht : powersModelled t = true)
    (cs : List AExp) (hcs : ∀ c ∈ cs, powersModelled c = true)
    (gens : List (String × Ast)) (arrays : List (List Val))
    (hgens : List.Forall₂ (fun g a => evalE env g.2 = .ok (.arr a)) gens arrays) :
    evalE env (.compr (embed t) gens (cs.map embed)) =
      liftArr (fun v => v) (Arr.comprehension (gens.map (·.1)) arrays
        (cs.map (fun c _ => (evalA c).map numCond)) (fun _ => (evalA t).map Val.num) env) := by
  apply PIPE_comprehension (fun v : Val => v) env env (envSim_id env) (embed t) gens (cs.map embed) arrays
  · simpa using hgens
  · intro env' e' _
    constructor
    · rw [List.forall₂_map_left_iff, List.forall₂_map_right_iff, List.forall₂_same]
      intro c hc
      rw [evalE_embed c env' (hcs c hc)]
      cases evalA c with
      | error er => rfl
      | ok v => simp only [liftN, bind, Except.bind, boolLike_num, Except.map, liftE]
    · rw [evalE_embed t env' ht]
      cases evalA t <;> rfl

/-! ### non-vacuity -/

/-- `{x*10 : x in 1..3, y in {7, 8}, x != 2}` in a session where `y = 5`: the hypotheses of
    `PIPE_comprehension_session` hold and both sides are `{10}` -/
example : evalE (envOf [("y", 5)]) (.compr (embedS (.mul (.var "x") (.lit 10)))
      [("x", (IntGen.range 1 3).toAst), ("y", (IntGen.lit [7, 8]).toAst)]
      [mkCmp1 (pcmpOf .ne) (embedS (.var "x")) (embedS (.lit 2))]) = .ok (.arr [valOf 10]) := by
  have h := PIPE_comprehension_session ⟨[], []⟩ [("y", 5)] (.mul (.var "x") (.lit 10)) rfl
    [("x", .range 1 3), ("y", .lit [7, 8])] (by decide) [(.ne, .var "x", .lit 2)] (by decide)
  have hv : Arr.comprehension ["x", "y"] [Arr.range 1 3, [7, 8]]
      [sessCond ⟨[], []⟩ .ne (.var "x") (.lit 2)] (sessBody ⟨[], []⟩ (.mul (.var "x") (.lit 10))) [("y", 5)] = .ok [10] := by
    decide
  simp only [List.map_cons, List.map_nil, IntGen.values] at h
  rw [h, hv]
  rfl

/-- the hypotheses of `PIPE_comprehension_arith` are satisfiable: `{(1+2)*3 : x in 1..3, y in {4, 5}, 2-1}` -/
example (env : Env) :
    powersModelled (.bin .mul (.bin .add (.lit 1) (.lit 2)) (.lit 3)) = true ∧
    (∀ c ∈ [AExp.bin .sub (.lit 2) (.lit 1)], powersModelled c = true) ∧
    List.Forall₂ (fun (g : String × Ast) (a : List Val) => evalE env g.2 = .ok (.arr a))
      [("x", (IntGen.range 1 3).toAst), ("y", (IntGen.lit [4, 5]).toAst)]
      [(Arr.range 1 3).map valOf, [valOf 4, valOf 5]] := by
  refine ⟨by decide, by decide, ?_⟩
  refine .cons (evalE_intGen env (.range 1 3) (by decide)) (.cons (evalE_intGen env (.lit [4, 5]) rfl) .nil)

/-- the simulation relation is inhabited by every session of the C14 model and by the identity -/
example : EnvSim valOf (envOf [("x", 1), ("true", 1)]) [("x", 1), ("true", 1)] ∧ EnvSim (fun v => v) initialEnv initialEnv :=
  ⟨envSim_envOf _, envSim_id _⟩

/-- scoping through the whole pipeline: the outer `y` is shadowed inside and reads as before afterwards;
    a generator variable the session never had is unbound afterwards; a failing comprehension restores too -/
example : (runText "y = 2; {y : y in 1..3}; y").render = "ok 2\n" ∧
    (runText "{x : x in 1..3}; x").render = "err eval" ∧
    ((runSession initialEnv false ["y = 2; {1/(y-2) : y in 1..3}", "y"]).map (·.render)) = ["err divzero", "ok 2\n"] := by
  decide +kernel

/-- the error clauses through the whole pipeline -/
example : (runText "{x : x in 1..3, x}").render = "err eval" ∧ (runText "{x : x in 5}").render = "err eval" := by
  decide +kernel

/-! ## C12: median -/

/-- **C12 (median) inside the unified evaluator.**  `median` dispatched over the generated registry —
    `array_median`: elements keyed by magnitude, inserted by key, middle element or the mean of the middle
    pair through `dispatch("+")`, `dispatch("/")` — is the array fragment's `Arr.arrayMedian` (`C12_median`
    is about that function):

    1. on an array of stored numbers of ANY kind, floats included (`Canon`: what the evaluator keeps in
       arrays), literally — same value AND same kind, same error class (empty array: FunctionArgError);
    2. on an array of quantities of one dimension `d`: the fragment's median of the base-unit magnitudes,
       carrying `d` (the even case adds two quantities of dimension `d` and divides by the plain 2).

    Both models sort by stable insertion, which is why 1–2 hold up to kind.  What that sort must satisfy to
    stand for Python's `sorted(…, key=cmp_to_key(ka_cmp))`:

    3. it is a sorted permutation under the exact-value order (for every kind);
    4. ANY sorted permutation `s` of the array has, position by position, the same VALUES — so the middle
       element(s), and with them what C12 claims (the median "agrees with exact arithmetic": a statement
       about values), do not depend on the sorting algorithm;
    5. on arrays of exact numbers (ints, Fractions) the stored number is determined by its value, so every
       sorted permutation IS the fragment's sorted list and the median is algorithm-independent outright.
       Only between elements of EQUAL value and DIFFERENT kind (1/2 next to 0.5) can the order — hence the
       kind of an odd median, or whether an even median is computed in floating point — depend on the sort
       being stable; Python's is, the insertion is, and that residue is covered by correspondence (stream
       `arr`), not by this theorem. -/
theorem PIPE_median (xs : List Num) (hc : ∀ x ∈ xs, Canon x) (d : List Int) (hd : d.length = nBase) :
    dispatchTop "median" [.arr (xs.map .num)] [] = liftN (Arr.arrayMedian xs) ∧
    dispatchTop "median" [.arr (xs.map (fun m => Val.qty m d))] [] = liftW (fun m => Val.qty m d) (Arr.arrayMedian xs) ∧
    ((Arr.sortNums xs).Perm xs ∧ (Arr.sortNums xs).Pairwise leNum) ∧
    (∀ s : List Num, s.Perm xs → s.Pairwise leNum → s.map Num.toRat = (Arr.sortNums xs).map Num.toRat) ∧
    ((∀ x ∈ xs, x.isExact = true) → ∀ s : List Num, s.Perm xs → s.Pairwise leNum → s = Arr.sortNums xs) := by
  obtain ⟨hp, hs⟩ := sortNums_perm_sorted xs
  refine ⟨dispatch_median _ xs hc, dispatch_median_qty _ xs hc d hd, ⟨hp, hs⟩, ?_, ?_⟩
  · intro s hsp hss
    exact sorted_perm_values s _ (hsp.trans hp.symm) hss hs
  · intro hex s hsp hss
    apply sorted_perm_unique_exact s _ (hsp.trans hp.symm) hss hs
    intro x hx
    have hx' := hp.mem_iff.mp hx
    exact canon_of_exact x (hc x hx') (hex x hx')

/-- **C12's median clause at the pipeline**: on exact numbers `qs` (delivered canonically, as the evaluator
    stores them) `median` returns exactly the middle of the sorted values — the mean of the two middle ones
    for an even size — for `Arr.sortRat qs`, which is a sorted permutation of `qs` (and by `PIPE_median` 4–5
    any sorted permutation gives the same); the empty array is a FunctionArgError. -/
theorem PIPE_median_exact (qs : List Rat) (hne : qs ≠ []) :
    dispatchTop "median" [.arr ((qs.map Num.canon).map .num)] [] = .ok (.num (Num.canon (
      if qs.length % 2 = 0 then ((Arr.sortRat qs).getD (qs.length / 2 - 1) 0 + (Arr.sortRat qs).getD (qs.length / 2) 0) / 2
      else (Arr.sortRat qs).getD (qs.length / 2) 0))) ∧
    (Arr.sortRat qs).Perm qs ∧ (Arr.sortRat qs).Pairwise (· ≤ ·) ∧
    dispatchTop "median" [.arr []] [] = raise .funArg := by
  obtain ⟨hp, hs, hm, _⟩ := C12_median qs hne
  have hc : ∀ x ∈ qs.map Num.canon, Canon x := by
    intro x hx
    obtain ⟨q, _, rfl⟩ := List.mem_map.mp hx
    exact canon_isCanon q
  refine ⟨?_, hp, hs, ?_⟩
  · rw [(PIPE_median (qs.map Num.canon) hc (List.replicate nBase 0) (by simp)).1, hm]; rfl
  · exact (PIPE_median [] (by simp) (List.replicate nBase 0) (by simp)).1

/-- non-vacuity: stored numbers of all three kinds; a dimension vector of the right length -/
example : (∀ x ∈ [Num.int 3, .frac (1/2), .int (-4)], Canon x) ∧ (List.replicate nBase (0 : Int)).length = nBase := by
  refine ⟨?_, by simp⟩
  intro x hx
  have h : ∀ y ∈ [Num.int 3, .frac (1/2), .int (-4)], storedNum y = true := by decide +kernel
  exact simplify_stored x (h x hx)

/-- `median` through the whole pipeline: odd, even (exact mean of the middle pair), quantities in mixed
    units of one dimension, mixed dimensions, empty -/
example : (runText "median({3, 1/2, -4})").render = "ok 1/2     (0.5)\n" ∧
    (runText "median({3, 1, 4, 2})").render = "ok 2 1/2     (2.5)\n" ∧
    (runText "median({1 m, 30 cm, 2 m}) == 1 m").render = "ok 1\n" ∧
    (runText "median({1 m, 30 cm}) == 65 cm").render = "ok 1\n" ∧
    (runText "median({1 m, 2 s})").render = "err incompatible" ∧
    (runText "median({})").render = "err funarg" := by
  decide +kernel

/-! ## C12: `range(lo, hi, step)` with a float among the operands -/

/-- **`range(lo, hi, step)` on operands of ANY kind** (ints, Fractions, floats, mixed).  `PIPE_range_step`
    covers exact operands delivered canonically; with a float the loop's `curr + step` is a floating-point
    addition (then `simplify_type`: an integral float becomes an int), so the elements are no longer
    `lo + k·step`, and a step too small to change `curr` is rejected by the no-progress guard of fix efcc27a
    (`range(1e16, 1e16+4, 0.5)`: FunctionArgError, where the loop used to run forever).  What is PROVED here,
    for every kind:

    1. through `dispatch` over the generated registry, `ka_range` is the dispatch-free loop `numKaRange` —
       the guards compare exactly (a float is compared by its exact value), the next element is Ka's `+` on the
       kinds at hand (`Num.binop .add`: the registered `operator.add`, then `simplify_type`), each round checks
       `curr < next` exactly, the failure classes are the same.  No side condition any more: the model's two size
       refusals are part of `numKaRange` (clause 5 says when they cannot occur);
    2. when it returns a list, that list is THE list described by `RangeTail`: it starts with `lo` itself, each
       element does not exceed `hi` (exactly), each next element is the previous one `+ step` as Ka adds them and
       is STRICTLY larger (new with the guard), and the element after the last exceeds `hi`; `0 < step` and
       `lo ≤ hi` held;
    3. if every addition along the way happens to be exact in value — always the case for exact operands,
       canonical or not (`binop_add_exact`); for floats e.g. binary fractions of moderate size — the VALUES are
       the exact fragment's `Arr.kaRange` on the operands' values, i.e. `lo + k·step` for `k ≤ ⌊(hi−lo)/step⌋`
       (`C12_range_step`);
    4. `step ≤ 0` or `lo > hi` is rejected, for every kind, whatever the size;
    5. (NEW clause — the model changed: it follows the code after efcc27a) every failure is one of:
       OverflowError out of a `+`; FunctionArgError — and then a guard failed or the loop reached, after rounds
       that all advanced, an element `c ≤ hi` with `c + step` not larger than `c` (`RangeStuck`), which needs a
       float (`lo` and `step` exact: impossible); or the model's refusal `unmodelled "huge range"`.  The model
       never answers `diverges` for `range` (it did before, where the code looped or returned a longer list).
       With `lo` and `step` exact (any `hi`) and the nominal length within `Eval.maxRange`, `range` RETURNS a
       list: neither refusal occurs.

    What is only CORRESPONDED (stream `arr`, and the whole-program streams): the bits of each floating-point
    sum (`Float` addition is opaque to the kernel, so whether a given float addition is exact, or makes
    progress, cannot be decided inside Lean).  With a float among the operands the number of rounds is not a
    function of `(hi−lo)/step` (`range(2251799813685248.5, 2251799813685268.5, 0.7)` has 41 elements, the
    nominal 29 + 3 rounds were not enough for the model before this change); the model allows `maxRange`
    elements there and declines beyond — it no longer claims `diverges`. -/
theorem PIPE_range_step_float (lo hi step : Num) :
    (dispatchTop "range" [.num lo, .num hi, .num step] [] =
        (numKaRange lo hi step).map (fun xs => .arr (xs.map Val.num))) ∧
    (∀ xs, numKaRange lo hi step = .ok xs →
      Num.cmpLt (.int 0) step = true ∧ Num.cmpLe lo hi = true ∧ RangeTail hi step lo xs ∧
      (∀ ys, RangeTail hi step lo ys → ys = xs) ∧
      ((∀ a ∈ xs, ∀ r, Num.binop .add a step = .ok r → r.toRat = a.toRat + step.toRat) →
        Arr.kaRange lo.toRat hi.toRat step.toRat = .ok (xs.map Num.toRat)) ∧
      (lo.isExact = true → step.isExact = true →
        Arr.kaRange lo.toRat hi.toRat step.toRat = .ok (xs.map Num.toRat))) ∧
    ((Num.cmpLt (.int 0) step = false ∨ Num.cmpLe lo hi = false) → numKaRange lo hi step = .error (.err .funArg)) ∧
    ((∀ e, numKaRange lo hi step = .error e →
        e = .err .overflow ∨ e = .unmodelled "huge range" ∨
        (e = .err .funArg ∧ (Num.cmpLt (.int 0) step = false ∨ Num.cmpLe lo hi = false ∨ RangeStuck hi step lo))) ∧
      (lo.isExact = true → step.isExact = true → Num.cmpLt (.int 0) step = true → ¬ RangeStuck hi step lo) ∧
      (lo.isExact = true → step.isExact = true → Num.cmpLt (.int 0) step = true → Num.cmpLe lo hi = true →
        ((hi.toRat - lo.toRat) / step.toRat).floor.toNat + 3 ≤ maxRange → ∃ xs, numKaRange lo hi step = .ok xs)) := by
  refine ⟨dispatch_kaRange_num _ lo hi step, ?_, ?_, ?_, ?_, ?_⟩
  · intro xs h
    unfold numKaRange at h
    cases h0 : Num.cmpLt (.int 0) step with
    | false => simp [h0, raise] at h
    | true =>
      cases h1 : Num.cmpLe lo hi with
      | false => simp [h0, h1, raise] at h
      | true =>
        simp only [h0, h1, Bool.not_true, Bool.false_eq_true, if_false] at h
        split at h
        · cases h
        obtain ⟨tail, hx, ht⟩ := numRangeLoop_spec hi step _ lo [] xs h
        simp only [List.reverse_nil, List.nil_append] at hx
        have hx' : tail = xs := hx.symm
        subst hx'
        have hexact : (∀ a ∈ tail, ∀ r, Num.binop .add a step = .ok r → r.toRat = a.toRat + step.toRat) →
            Arr.kaRange lo.toRat hi.toRat step.toRat = .ok (tail.map Num.toRat) := by
          intro hex
          have hs : (0 : Rat) < step.toRat := by simpa [Num.cmpLt, Num.toRat] using h0
          have hl : lo.toRat ≤ hi.toRat := by simpa [Num.cmpLe] using h1
          have hk := C12_range_step lo.toRat hi.toRat step.toRat hs hl
          have hloop := ht.rangeLoop hex []
          simp only [List.reverse_nil, List.nil_append] at hloop
          rw [hk]
          unfold Arr.kaRange at hk
          simp only [hs, hl, not_true_eq_false, if_false] at hk
          cases hr : Arr.rangeLoop hi.toRat step.toRat (((hi.toRat - lo.toRat) / step.toRat).floor.toNat + 2) lo.toRat [] with
          | none => rw [hr] at hk; cases hk
          | some L =>
            rw [hr] at hk
            simp only [Except.ok.injEq] at hk
            have m1 := rangeLoop_mono_le _ _ _ (max (tail.length + 1) (((hi.toRat - lo.toRat) / step.toRat).floor.toNat + 2))
              (Nat.le_max_left _ _) _ _ _ hloop
            have m2 := rangeLoop_mono_le _ _ _ (max (tail.length + 1) (((hi.toRat - lo.toRat) / step.toRat).floor.toNat + 2))
              (Nat.le_max_right _ _) _ _ _ hr
            rw [m1] at m2
            simp only [Option.some.injEq] at m2
            rw [← hk, m2]
        refine ⟨rfl, rfl, ht, fun ys hy => hy.unique ht, hexact, ?_⟩
        intro hlo hst
        apply hexact
        intro a ha r hr
        exact binop_add_exact a step r (ht.all_exact hlo hst a ha) hst hr
  · intro h
    unfold numKaRange
    rcases h with h | h
    · simp [h, raise]
    · cases h0 : Num.cmpLt (.int 0) step <;> simp [h, raise]
  · intro e h
    unfold numKaRange at h
    cases h0 : Num.cmpLt (.int 0) step with
    | false =>
      simp only [h0, Bool.not_false, if_true, raise, Except.error.injEq] at h
      exact Or.inr (Or.inr ⟨h.symm, Or.inl rfl⟩)
    | true =>
      cases h1 : Num.cmpLe lo hi with
      | false =>
        simp only [h0, h1, Bool.not_true, Bool.not_false, Bool.false_eq_true, if_false, if_true, raise, Except.error.injEq] at h
        exact Or.inr (Or.inr ⟨h.symm, Or.inr (Or.inl rfl)⟩)
      | true =>
        simp only [h0, h1, Bool.not_true, Bool.false_eq_true, if_false] at h
        split at h
        · simp only [Except.error.injEq] at h
          exact Or.inr (Or.inl h.symm)
        · rcases numRangeLoop_error hi step _ lo [] e h with h2 | ⟨h2, h3⟩ | h2
          · exact Or.inl h2
          · exact Or.inr (Or.inr ⟨h2, Or.inr (Or.inr h3)⟩)
          · exact Or.inr (Or.inl h2)
  · intro hl hs hp hst
    exact hst.not_exact hl hs hp
  · intro hl hs hp hle hsz
    exact numKaRange_exact_ok lo hi step hl hs hp hle hsz

/-- non-vacuity: exact but non-canonical operands (`4/2` as a Fraction) satisfy every hypothesis of clauses 3 and 5,
    and the size condition is decidable on concrete operands -/
example : (Num.frac (4/2)).isExact = true ∧ (Num.frac (1/2)).isExact = true ∧
    Num.cmpLt (.int 0) (Num.frac (1/2)) = true ∧ Num.cmpLe (Num.frac (4/2)) (Num.int 10) = true ∧
    (((Num.int 10).toRat - (Num.frac (4/2)).toRat) / (Num.frac (1/2)).toRat).floor.toNat + 3 ≤ maxRange := by
  refine ⟨rfl, rfl, ?_, ?_, ?_⟩ <;> decide +kernel

/-- the dispatch-free loop on exact operands, evaluated by the kernel -/
example : (numKaRange (.int 1) (.int 3) (.frac (1/2))).toOption.map (·.map Num.render)
      = some ["i:1", "q:3/2", "i:2", "q:5/2", "i:3"] ∧
    (match numKaRange (.int 1) (.int 3) (.int 0) with | .error (.err .funArg) => true | _ => false) = true := by
  constructor <;> decide +kernel

/-- the no-progress failure exists as a shape (a `+` that returns its left operand); with floats it is
    `1e16 + 0.5 == 1e16`, which only the correspondence can show (opaque `Float`) -/
example (hi step c : Num) (h1 : Num.cmpLe c hi = true) (h2 : Num.binop .add c step = .ok c) : RangeStuck hi step c :=
  .here c c h1 h2 (by simp [Num.cmpLt])

/-! ## C12: aggregates on arrays of same-dimension quantities -/

/-- **C12 (aggregates on quantities) inside the unified evaluator.**  `PIPE_array_aggregates` is about
    arrays of plain numbers.  For an array of quantities of ONE dimension `d` — base-unit magnitudes `xs`
    (stored numbers), whatever units they were written in — `sum`, `mean`, `min`, `max`, `median`, `in` and
    `prod` dispatched over the generated registry are the array fragment's functions on the magnitudes
    (`Arr.arraySum`, `arrayMean`, `arrayMin`, `arrayMax`, `arrayMedian`, `inArray`, `arrayProd`: the functions
    `C12_sum_prod_size_in`, `C12_mean`, `C12_min_max`, `C12_median` are about), with the dimension the
    property demands:

    * `sum`, `mean`, `min`, `max`, `median` of lengths are a length (dimension `d`; `mean` divides the sum
      by the PLAIN number of elements, `median` halves the sum of the middle pair);
    * `x in xs` is the plain 0 / 1;
    * `prod` carries the dimension added once per element (`prodDim`);
    * the empty array: `sum` is the plain 0, `prod` the plain 1, `mean`/`min`/`max`/`median` FunctionArgError;
    * failures (an overflowing float magnitude) have the same class. -/
theorem PIPE_qty_aggregates (xs : List Num) (hc : ∀ x ∈ xs, Canon x) (d : List Int) (hd : d.length = nBase) (x : Num) :
    dispatchTop "sum" [.arr (xs.map (fun m => Val.qty m d))] [] =
      (if xs = [] then .ok (.num (.int 0)) else liftW (fun m => Val.qty m d) (Arr.arraySum xs)) ∧
    dispatchTop "mean" [.arr (xs.map (fun m => Val.qty m d))] [] = liftW (fun m => Val.qty m d) (Arr.arrayMean xs) ∧
    dispatchTop "min" [.arr (xs.map (fun m => Val.qty m d))] [] = liftW (fun m => Val.qty m d) (Arr.arrayMin xs) ∧
    dispatchTop "max" [.arr (xs.map (fun m => Val.qty m d))] [] = liftW (fun m => Val.qty m d) (Arr.arrayMax xs) ∧
    dispatchTop "median" [.arr (xs.map (fun m => Val.qty m d))] [] = liftW (fun m => Val.qty m d) (Arr.arrayMedian xs) ∧
    dispatchTop "in" [.qty x d, .arr (xs.map (fun m => Val.qty m d))] [] = .ok (.num (Arr.inArray x xs)) ∧
    dispatchTop "prod" [.arr (xs.map (fun m => Val.qty m d))] [] =
      (liftE (Arr.arrayProd xs)).map (fun r => match xs.length with
        | 0 => Val.num r
        | k + 1 => Val.qty r (prodDim d (k + 1))) := by
  have W := wraps_qty d hd
  refine ⟨dispatch_sum_wrap W _ xs hc, dispatch_mean_wrap W _ xs hc, dispatch_min_wrap W _ xs hc,
    dispatch_max_wrap W _ xs hc, dispatch_median_qty _ xs hc d hd, dispatch_in_wrap W _ x xs, ?_⟩
  rw [dispatchTop, dispatchFuel, dispatch_prod_qty 7 d xs]
  cases xs.length <;> rfl

/-- the same generic lemmas at `wrap = Val.num` give `PIPE_array_aggregates` / `PIPE_array_sum` back:
    the element kind enters only through `Wraps` -/
example (xs : List Num) (hc : ∀ x ∈ xs, Canon x) :
    dispatchTop "mean" [.arr (xs.map .num)] [] = liftW Val.num (Arr.arrayMean xs) :=
  dispatch_mean_wrap wraps_num _ xs hc

/-- aggregates of quantities in mixed units of one dimension, through the whole pipeline -/
example : (runText "sum({1 m, 25 cm}) == 125 cm").render = "ok 1\n" ∧
    (runText "mean({1 m, 2 m, 30 cm}) == 110 cm").render = "ok 1\n" ∧
    (runText "min({1 m, 25 cm}) == 25 cm").render = "ok 1\n" ∧
    (runText "max({1 m, 25 cm, 2 km}) == 2 km").render = "ok 1\n" ∧
    (runText "(500 mm) in {1 m, 50 cm}").render = "ok 1\n" ∧
    (runText "prod({2 m, 3 m}) == 6 m^2").render = "ok 1\n" ∧
    (runText "mean({})").render = "err funarg" ∧
    (runText "sum({1 m, 2 s})").render = "err incompatible" := by
  decide +kernel

end KaVerif
