import KaVerif.Lemmas.Pipeline2Lemmas
import KaVerif.Props.Pipeline
import KaVerif.Props.C03
import KaVerif.Props.C05
import KaVerif.Props.C09
import KaVerif.Props.C11
import KaVerif.Props.C12
import KaVerif.Props.C15
import KaVerif.Props.C16
/-
  PIPE, second batch — further refinement theorems between the unified pipeline model
  (`Model/Eval.lean`: text → tokens → parse tree → `eval_node` over the generated registry →
  `reduce_result` → `display_result`) and the per-topic fragment models.  Each theorem shows that
  a fragment the property theorems C03/C04/C05/C09/C11/C12/C13/C15/C16 speak about is what the
  one whole-program evaluator computes on that fragment; the whole-program evaluator is what the
  differential fuzzing (harness/pipeline.py) ties to `ka.interpret.execute`.

  Helper lemmas: Lemmas/Pipeline2Lemmas.lean (namespace `KaVerif.Pipe2`).
-/
namespace KaVerif
open KaVerif.Eval KaVerif.Parser KaVerif.Pipe2

/-! ## generic: from a parse tree to its tokens and its text -/

/-- **Any grammar-produced program tree, written with the required parentheses plus any redundant
    ones, is what `execute` evaluates.**  (C02's round trip inside the pipeline: `parse_tokens` of the
    rendered tokens is the tree, so everything a PIPE theorem says about `runTree` on a tree is a
    statement about `execute` from the token list on.) -/
theorem PIPE_tokens_of_tree (t : Ast) (h : t.WF) (extra : Ast → Bool) (env : Env) :
    runTokens env (renderWith extra t) = runTree env t := by
  simp only [runTokens, C02_redundant_parens t h extra]

/-- **… and from the text**: any input over the lexer model's alphabet that lexes (C11's
    `Lexer.tokenise`) to tokens with the tags and values of a rendering of the tree — whatever its
    whitespace — is evaluated as that tree. -/
theorem PIPE_text_of_tree (t : Ast) (h : t.WF) (extra : Ast → Bool) (env : Env) (s : List Char) (toks : List Token)
    (hs : s.all Lexer.inAlphabet = true) (hx : hugeExponent s = false) (hlex : Lexer.tokenise s = .ok toks)
    (hview : toks.map PTok.ofToken = rNat extra t) :
    runIn env s = runTree env t := by
  have hp : parse toks = parse (renderWith extra t) :=
    parse_view_congr (by rw [hview, renderWith, toTokens, map_ofToken_toToken])
  simp only [runIn, hs, hx, hlex, runTokens, hp, Bool.not_true, Bool.false_eq_true, if_false,
    C02_redundant_parens t h extra]

/-! ## C11 / C02 / C06: the stages of `execute` -/

/-- **The pipeline's first two stages are the C11 lexer and the C02 parser, and their errors are
    status-1 diagnostics with the marker at the fragment's index.**  For every input over the model
    alphabet (without a five-digit literal exponent):
    * a lexical error of `Lexer.tokenise` is reported with its class and ITS character index — and
      `tokenise` never runs out of fuel (C11_total), so a failing lex is always one of the four classes;
    * a parse error of `Parser.parse` at token `i` is reported with the marker at the start of token
      `i`, or at the end of the last token when `i` is past the end (`parseErrIndex`) — provided the
      instant literals the parser has read before it (`instant_from_iso` runs at parse time) are
      well-formed instants (`checkInstants … = none`; in particular when there is none);
    * otherwise the parse tree is evaluated, reduced and displayed (`runTree`, which starts with the
      same check of the tree's instant literals).
    In the first two cases the session's bindings are untouched.  (What a malformed literal gives:
    `PIPE_instant_parse_stage` in Props/Pipeline3.lean.) -/
theorem PIPE_stages (env : Env) (s : List Char) (hs : s.all Lexer.inAlphabet = true) (hx : hugeExponent s = false) :
    (∀ e, Lexer.tokenise s = .error e →
        runIn env s = (env, lexOutcome e) ∧
        ((∃ i, e = .unknownToken i ∧ lexOutcome e = .lexErr "UnknownTokenError" i) ∨
         (∃ i, e = .badNumber i ∧ lexOutcome e = .lexErr "BadNumberError" i) ∨
         (∃ i, e = .unclosedString i ∧ lexOutcome e = .lexErr "UnclosedStringError" i) ∨
         (∃ i, e = .unclosedInstant i ∧ lexOutcome e = .lexErr "UnclosedInstantError" i))) ∧
    (∀ toks i, Lexer.tokenise s = .ok toks → parse toks = .error (.parsing i) →
        checkInstants (tokInstTexts (toks.take i)) = none →
        runIn env s = (env, .parseErr (parseErrIndex toks i))) ∧
    (∀ toks t, Lexer.tokenise s = .ok toks → parse toks = .ok t → runIn env s = runTree env t) := by
  refine ⟨fun e he => ⟨?_, ?_⟩, fun toks i hl hp hi => ?_, fun toks t hl hp => ?_⟩
  · simp only [runIn, hs, hx, he, Bool.not_true, Bool.false_eq_true, if_false]
  · cases e with
    | unknownToken i => exact Or.inl ⟨i, rfl, rfl⟩
    | badNumber i => exact Or.inr (Or.inl ⟨i, rfl, rfl⟩)
    | unclosedString i => exact Or.inr (Or.inr (Or.inl ⟨i, rfl, rfl⟩))
    | unclosedInstant i => exact Or.inr (Or.inr (Or.inr ⟨i, rfl, rfl⟩))
    | outOfFuel => exact absurd he (C11_total s)
  · simp only [runIn, hs, hx, hl, runTokens, hp, hi, Bool.not_true, Bool.false_eq_true, if_false]
  · simp only [runIn, hs, hx, hl, runTokens, hp, Bool.not_true, Bool.false_eq_true, if_false]

/-- the parse-error marker lies inside the input: every token ends inside the text (C11_spans) -/
theorem PIPE_parse_marker_inside (s : List Char) (toks : List Token) (i : Nat) (hl : Lexer.tokenise s = .ok toks) :
    parseErrIndex toks i ≤ s.length := by
  have hcov := C11_spans s toks hl
  have key : ∀ (p : Nat) (ts : List Token), Lexer.Covers s p ts → ∀ t ∈ ts, t.b ≤ s.length ∧ t.e ≤ s.length := by
    intro p ts
    induction ts generalizing p with
    | nil => intro _ t ht; cases ht
    | cons a r ih =>
      intro hc t ht
      obtain ⟨_, h2, h3, _, h5⟩ := hc
      rcases List.mem_cons.1 ht with rfl | hr
      · exact ⟨by omega, h3⟩
      · exact ih _ h5 t hr
  unfold parseErrIndex
  cases hlast : toks.getLast? with
  | none => simp
  | some lt =>
    have hlm : lt ∈ toks := List.mem_of_getLast? hlast
    simp only
    cases hti : toks[i]? with
    | none => exact (key 0 toks hcov lt hlm).2
    | some t => exact (key 0 toks hcov t (List.mem_of_getElem? hti)).1

/-! ## C09: comparisons -/

/-- **C09 inside the unified evaluator (dispatch level).**  For the six comparison names and any two
    operands of the C09 fragment that exist in the unified model — numbers of any kind, quantities —
    `dispatch` over the generated registry returns exactly what the comparison model `Compare.dispatchCmp`
    returns: the same 0/1 number, or the same error class (incompatible dimensions). -/
theorem PIPE_compare (op : Compare.CmpOp) (a b : Compare.CVal) (ha : cmpOperand a = true) (hb : cmpOperand b = true) :
    dispatchTop (cmpOpName op) [cvVal a, cvVal b] [] = liftN (Compare.dispatchCmp op a b) :=
  dispatch_cmpVal _ op a b ha hb

/-- **C09 inside the unified evaluator (parse-tree level).**  A comparison as the parser builds it
    (`make_comparison_node`: `a > b` becomes `b < a`, `a >= b` becomes `b <= a`) between two
    sub-expressions whose values are `a` and `b` evaluates to `Compare.evalCmp op a b` — the function
    the C09 theorems (trichotomy, duality, negation, physical equality) are stated about. -/
theorem PIPE_compare_node (env : Env) (op : Compare.CmpOp) (A B : Ast) (a b : Compare.CVal)
    (hA : evalE env A = .ok (cvVal a)) (hB : evalE env B = .ok (cvVal b))
    (ha : cmpOperand a = true) (hb : cmpOperand b = true) :
    evalE env (mkCmp1 (pcmpOf op) A B) = liftN (Compare.evalCmp op a b) :=
  evalE_mkCmp1 env op A B a b hA hB ha hb

/-- C09's semantics theorem, for the unified evaluator: on comparable operands the comparison node
    evaluates — without error — to the number 1 when the relation holds between the ordering keys
    and to 0 otherwise (never a host-language boolean, never an error). -/
theorem PIPE_compare_semantics (env : Env) (op : Compare.CmpOp) (A B : Ast) (a b : Compare.CVal)
    (hA : evalE env A = .ok (cvVal a)) (hB : evalE env B = .ok (cvVal b))
    (ha : cmpOperand a = true) (hb : cmpOperand b = true) (hc : Compare.comparable a b = true) :
    evalE env (mkCmp1 (pcmpOf op) A B) =
      .ok (.num (.int (if op.rel (Compare.key a) (Compare.key b) then 1 else 0))) := by
  rw [PIPE_compare_node env op A B a b hA hB ha hb, C09_semantics op a b hc]; rfl

/-- **A chained comparison of three plain numbers is NOT the conjunction: it is rejected.**
    `a < b < c` is parsed to one FUNCALL `<_<` with three children; the registry has such overloads for
    `Number op RandomVariable op Number` only, so on three numbers (of any kinds, any two of the six
    operators) `dispatch` raises NoMatchingFunctionSignatureError or UnknownFunctionError.
    (Checked against the real code: `1 < 2 < 3` → "Function '<_<' does not accept (Integral, Integral, Integral)".) -/
theorem PIPE_compare_chain_rejected (env : Env) (o1 o2 : PCmp) (h1 : o1 ∈ cmp6) (h2 : o2 ∈ cmp6)
    (A B C : Ast) (x y z : Num)
    (hA : evalE env A = .ok (.num x)) (hB : evalE env B = .ok (.num y)) (hC : evalE env C = .ok (.num z)) :
    evalE env (.cmp2 o1 o2 A B C) = .error (.err .noMatch) ∨ evalE env (.cmp2 o1 o2 A B C) = .error (.err .unknownFn) := by
  simp only [evalE, hA, hB, hC, bind, Except.bind, dispatchTop, dispatchFuel]
  rcases chain_table o1 h1 o2 h2 _ (numClass_mem x) _ (numClass_mem y) _ (numClass_mem z) with h | h
  · exact Or.inl (dispatchV_err (args := [.num x, .num y, .num z]) h)
  · exact Or.inr (dispatchV_err (args := [.num x, .num y, .num z]) h)

/-! ## C05: lazy combinatorics -/

/-- **C05 inside the unified evaluator.**  For every C05 expression tree (`n!`, `C(n,k)`, integer and
    `m e±k` literals, `*`, `/`, any nesting) the parse tree of its text evaluates, in the unified
    evaluator, to exactly the (possibly lazy) value the C05 model `Comb.evalC` computes — the same
    Combinatoric with the same numerator / denominator ranges, the same plain number, or the same error
    class — and the session is untouched. -/
theorem PIPE_comb (e : Comb.CExp) (env : Env) (hm : combModelled e = true) :
    evalAst env (embedC e) =
      match Comb.evalC e with
      | .ok v => .ok (ofCVal v, env)
      | .error er => .error (.err er) := by
  unfold evalAst
  rw [runProgram_expr env _ (embedC_not_assign e) (embedC_not_stmts e), evalE_embedC e env hm]
  cases Comb.evalC e <;> rfl

/-- **… through `reduce_result` and `display_result`.**  A one-statement program over the C05 fragment,
    written with the required parentheses plus any redundant ones: `execute` from the token list on
    prints the display text of `Comb.evalTop`'s number (the lazy value resolved), or diagnoses its error. -/
theorem PIPE_comb_program (e : Comb.CExp) (env : Env) (extra : Ast → Bool) (hm : combModelled e = true) :
    runTokens env (renderWith extra (.stmts [embedC e])) = (env, numOutcome (Comb.evalTop e)) := by
  rw [PIPE_tokens_of_tree _ (wf_program_embedC e) extra env]
  exact runTree_embedC e env hm

/-- **C05's main theorem, for what `execute` prints**: the output for an expression built from
    factorials, binomial coefficients and exact literals with `*` and `/` is the display of the
    canonical form of the eager big-integer value; when the eager reading divides by zero anywhere the
    outcome is the division-by-zero diagnostic and never a value. -/
theorem PIPE_comb_exact (e : Comb.CExp) (env : Env) (extra : Ast → Bool) (hm : combModelled e = true) :
    runTokens env (renderWith extra (.stmts [embedC e])) =
      (env, numOutcome (match Comb.eager e with
        | some q => .ok (Num.canon q)
        | none => .error .divZero)) := by
  rw [PIPE_comb_program e env extra hm, C05_expr]
  rfl

/-! ## C03 / C04 / C13: quantity expressions over the generated unit table -/

/-- **C03/C04 inside the unified evaluator.**  For every quantity expression (numbers, `e U`,
    `e to U`, `+ - * /`, `< <= == !=`, any nesting; unit signatures with names as text) the parse tree
    evaluates, in the unified evaluator, to what the quantity model `Qty.evalQ` computes over the
    GENERATED unit table — unit names resolved by `Units.lookupUnit` / `apply_prefix` (C13),
    `make_quantity`, `convert_quantity`, the operator wrapper with a plain number as the zero vector on
    either side — the same magnitude, the same dimension vector, or the same error class. -/
theorem PIPE_qty_expr (e : PQ) (env : Env) (hm : e.modelled = true) :
    evalE env e.toAst = liftQ (Qty.evalQ Gen.Units.table e.toQExp) :=
  evalE_PQ e env hm

/-- C03's dimension theorem, for the unified evaluator: whenever the parse tree of a quantity
    expression evaluates, the value's dimension is the one the dimension calculus `Qty.dimOf` predicts
    from the units' dimension vectors alone (`none` = a plain number). -/
theorem PIPE_qty_dim (e : PQ) (env : Env) (hm : e.modelled = true) (v : Val) (h : evalE env e.toAst = .ok v) :
    ∃ q : Qty.QVal, v = ofQVal q ∧ Qty.dimOf Gen.Units.table e.toQExp = some q.dim? := by
  rw [PIPE_qty_expr e env hm] at h
  cases hq : Qty.evalQ Gen.Units.table e.toQExp with
  | error er => rw [hq] at h; cases h
  | ok q =>
    rw [hq] at h
    refine ⟨q, ?_, C03_dim _ _ _ hq⟩
    simp only [liftQ, liftE, Except.map, Except.ok.injEq] at h
    exact h.symm

/-- **C13 inside the unified evaluator: the unit name on a QUANTITY node is resolved by
    `Units.lookupUnit` over the generated table.**  A name the lookup does not know (no exact name /
    symbol / plural, no prefix + unit split) or refuses (prefix on a unit that takes none) makes the
    node an EvalError whatever the magnitude; and a name it resolves gives the quantity
    `Qty.makeQuantity` builds from the resolved unit. -/
theorem PIPE_unit_lookup (env : Env) (A : Ast) (x : Num) (u : String) (k : Int)
    (hA : evalE env A = .ok (.num x)) (hk : k.natAbs ≤ 10000) :
    evalE env (.quantity A ⟨[(u, k)], []⟩) =
        liftQ (Qty.makeQuantity Gen.Units.table (.num x) ⟨[(cps u, k)], []⟩) ∧
    ((Units.lookupUnit Gen.Units.table (cps u) = .ok none ∨ ∃ er, Units.lookupUnit Gen.Units.table (cps u) = .error er) →
      evalE env (.quantity A ⟨[(u, k)], []⟩) = .error (.err .eval)) := by
  have hh : hugeSig ⟨[(u, k)], []⟩ = false := by
    simp only [hugeSig, List.append_nil, List.any_cons, List.any_nil, Bool.or_false, decide_eq_false_iff_not]
    omega
  have h1 : evalE env (.quantity A ⟨[(u, k)], []⟩) =
      liftQ (Qty.makeQuantity Gen.Units.table (.num x) ⟨[(cps u, k)], []⟩) := by
    simp only [evalE, hA, bind, Except.bind]
    exact makeQuantity_ofQVal (.num x) ⟨[(u, k)], []⟩ hh
  refine ⟨h1, fun hl => ?_⟩
  rw [h1]
  have hc : Qty.composeUnits Gen.Units.table ⟨[(cps u, k)], []⟩ = .error .eval := by
    simp only [Qty.composeUnits, List.map_cons, List.map_nil, List.append_nil, List.foldlM_cons, List.foldlM_nil,
      bind, Except.bind, Qty.stepSpec]
    rcases hl with hl | ⟨er, hl⟩ <;> simp only [hl]
  simp only [Qty.makeQuantity, hc, bind, Except.bind, liftQ, liftE, Except.map]

/-! ## C16: elementary functions -/

/-- **C16 inside the unified evaluator.**  Every one-argument numeric function (`sin cos tan sqrt ln
    log2 log10 abs floor ceil round int float`, unary `+ -`) dispatched on a number of any kind is
    `Elementary.applyNum`; dispatched on a quantity it is `Elementary.applyQty` (acts on the base-unit
    magnitude, keeps the dimension); `log(x, base)` is `Elementary.applyLog`. -/
theorem PIPE_elementary (f : Elementary.Fn) (x b m : Num) (d : List Int) :
    dispatchTop (fnName f) [.num x] [] = liftN (Elementary.applyNum f x) ∧
    dispatchTop (fnName f) [.qty m d] [] = liftQP (Elementary.applyQty f m d) ∧
    dispatchTop "log" [.num x, .num b] [] = liftN (Elementary.applyLog x b) :=
  ⟨dispatch_elem _ f x, dispatch_elem_qty _ f m d, dispatch_log _ x b⟩

/-- … at parse-tree level: a call `f(A)` whose argument evaluates to the number `x` -/
theorem PIPE_elementary_call (env : Env) (f : Elementary.Fn) (A : Ast) (x : Num) (hA : evalE env A = .ok (.num x)) :
    evalE env (.call (fnName f) [A] []) = liftN (Elementary.applyNum f x) := by
  rw [evalE_call1, hA]
  exact dispatch_elem _ f x

/-- **C16's domain guards, for the unified evaluator**: `sqrt` of a negative number, a logarithm of a
    non-positive number, a logarithm to a base that is not positive or is 1 — of any numeric kind — are
    the KaRuntimeError diagnostic (status 1), never a value, never NaN. -/
theorem PIPE_elementary_domain (x b : Num) :
    (x.toRat < 0 → dispatchTop "sqrt" [.num x] [] = .error (.err .runtime)) ∧
    (x.toRat ≤ 0 → dispatchTop "ln" [.num x] [] = .error (.err .runtime) ∧
                    dispatchTop "log2" [.num x] [] = .error (.err .runtime) ∧
                    dispatchTop "log10" [.num x] [] = .error (.err .runtime) ∧
                    dispatchTop "log" [.num x, .num b] [] = .error (.err .runtime)) ∧
    ((b.toRat ≤ 0 ∨ b.toRat = 1) → dispatchTop "log" [.num x, .num b] [] = .error (.err .runtime)) := by
  refine ⟨fun h => ?_, fun h => ⟨?_, ?_, ?_, ?_⟩, fun h => ?_⟩
  · have := dispatch_elem (dispatchFuel - 1) .sqrt x
    rw [C16_sqrt_guard x h] at this; exact this
  · have := dispatch_elem (dispatchFuel - 1) .ln x
    rw [(C16_log_guard_arg x b h).2.1] at this; exact this
  · have := dispatch_elem (dispatchFuel - 1) .log2 x
    rw [(C16_log_guard_arg x b h).2.2.1] at this; exact this
  · have := dispatch_elem (dispatchFuel - 1) .log10 x
    rw [(C16_log_guard_arg x b h).2.2.2] at this; exact this
  · have := dispatch_log (dispatchFuel - 1) x b
    rw [(C16_log_guard_arg x b h).1] at this; exact this
  · have := dispatch_log (dispatchFuel - 1) x b
    rw [C16_log_guard_base x b h] at this; exact this

/-- **never NaN or an infinity** out of the unified evaluator: whatever `sin cos tan sqrt ln log2 log10`
    deliver on a number is an integer or a finite double (C16_finite). -/
theorem PIPE_elementary_finite (f : Elementary.Fn)
    (hf : f = .sin ∨ f = .cos ∨ f = .tan ∨ f = .sqrt ∨ f = .ln ∨ f = .log2 ∨ f = .log10)
    (x : Num) (v : Val) (h : dispatchTop (fnName f) [.num x] [] = .ok v) :
    ∃ r : Num, v = .num r ∧ r.finite = true := by
  have h' : dispatchV (9 + 1) (fnName f) [.num x] [] = .ok v := h
  rw [dispatch_elem 9 f x] at h'
  replace h := h'
  cases hr : Elementary.applyNum f x with
  | error e => rw [hr] at h; cases h
  | ok r =>
    rw [hr] at h
    simp only [liftN, Except.ok.injEq] at h
    exact ⟨r, h.symm, C16_finite f hf x r hr⟩

/-! ## C12: array aggregates, membership, integer ranges -/

/-- **C12 inside the unified evaluator.**  On an array of stored numbers (`Canon`: what the evaluator
    keeps in arrays), `prod`, `mean`, `min`, `max`, `size` and `x in xs` dispatched over the generated
    registry are the folds of the array model (`Arr.arrayProd` — `e * result` from 1 —, `Arr.arrayMean`
    — `sum / size`, empty array rejected —, `Arr.arrayMin` / `Arr.arrayMax` — first extremal element,
    empty array rejected —, the length, `Arr.inArray` — some element `==`), and `lo..hi` on two
    integers is `Arr.range lo hi`.  (`sum` is `PIPE_array_sum`.) -/
theorem PIPE_array_aggregates (xs : List Num) (hc : ∀ x ∈ xs, Canon x) (x : Num) (vs : List Val) :
    dispatchTop "prod" [.arr (xs.map .num)] [] = liftN (Arr.arrayProd xs) ∧
    dispatchTop "mean" [.arr (xs.map .num)] [] = liftN (Arr.arrayMean xs) ∧
    dispatchTop "min" [.arr (xs.map .num)] [] = liftN (Arr.arrayMin xs) ∧
    dispatchTop "max" [.arr (xs.map .num)] [] = liftN (Arr.arrayMax xs) ∧
    dispatchTop "size" [.arr vs] [] = .ok (.num (.int vs.length)) ∧
    dispatchTop "size" [.arr (xs.map .num)] [] = .ok (.num (Arr.arraySize xs)) ∧
    dispatchTop "in" [.num x, .arr (xs.map .num)] [] = .ok (.num (Arr.inArray x xs)) :=
  ⟨dispatch_prod _ xs, dispatch_mean _ xs hc, dispatch_min _ xs hc, dispatch_max _ xs hc, dispatch_size _ vs,
   by rw [dispatchTop, dispatchFuel, dispatch_size]; simp [Arr.arraySize], dispatch_inArray _ x xs⟩

/-- **`lo..hi`** (the RANGE node) on two integer-valued sub-expressions is the array of `Arr.range lo hi`
    — the integers `lo … hi` ascending, each once (C12_range_mem, C12_range_sorted) — unless it would have
    more than `Eval.maxRange` = 2 000 000 elements (then the model declines: `unmodelled`). -/
theorem PIPE_range (env : Env) (A B : Ast) (lo hi : Int)
    (hA : evalE env A = .ok (.num (.int lo))) (hB : evalE env B = .ok (.num (.int hi)))
    (hsz : (hi + 1 - lo).toNat ≤ maxRange) :
    evalE env (.range A B) = .ok (.arr ((Arr.range lo hi).map (fun k => .num (.int k)))) := by
  simp only [evalE, hA, hB, bind, Except.bind]
  exact dispatch_range _ lo hi hsz

section RangeStep
open Num

/-! ## C12: `range(lo, hi, step)` -/

/-- **Table fact.** `range` with three exact numbers reaches `ka_range`. -/
theorem kaRange_table : ∀ a ∈ cExact, ∀ b ∈ cExact, ∀ c ∈ cExact,
    (resolveDesc "range" [a, b, c] []).toOption =
      some (chP [tNum, tNum, tNum] "range|(Number, Number, Number)|ka.functions.ka_range" .kaRange) := by
  decide +kernel

theorem numClass_canon (q : Rat) : numClass (canon q) ∈ cExact := by
  unfold canon; split <;> simp [numClass, cExact]

theorem rnum_le_canon (n : Nat) (a b : Rat) :
    rnum (fun nm as => dispatchV (n + 1) nm as []) "<=" [canon a, canon b] = .ok (.int (if a ≤ b then 1 else 0)) := by
  rw [rnum_le]
  simp [cmpLe, toRat_canon]

theorem rnum_lt_zero_canon (n : Nat) (b : Rat) :
    rnum (fun nm as => dispatchV (n + 1) nm as []) "<" [.int 0, canon b] = .ok (.int (if 0 < b then 1 else 0)) := by
  have h := rnum_cmp n .lt (.int 0) (canon b)
  simp only [cmpOpName, Compare.cmpNum, Compare.b2n] at h
  rw [h]
  have h0 : (Num.int 0).toRat = 0 := by simp [toRat]
  simp only [cmpLt, toRat_canon, h0]
  simp

theorem rnum_add_canon (n : Nat) (a b : Rat) :
    rnum (fun nm as => dispatchV (n + 1) nm as []) "+" [canon a, canon b] = .ok (canon (a + b)) := by
  simp only [rnum, List.map, dispatch_add, Arr.binop_add_canon, liftN, bind, Except.bind]

theorem coerceArgs_num3 (t1 t2 t3 : Nat) (x y z : Num) :
    coerceArgs [t1, t2, t3] none [.num x, .num y, .num z] = .ok [.num x, .num y, .num z] :=
  coerceArgs_3 t1 t2 t3 (.num x) (.num y) (.num z) rfl rfl rfl

theorem truthy_int_ite (p : Prop) [Decidable p] : truthy (.int (if p then 1 else 0)) = decide p := by
  by_cases h : p <;> simp [h] <;> decide

theorem isExact_canon (q : Rat) : (canon q).isExact = true := by unfold canon; split <;> rfl

/-- the no-progress guard of `ka_range` on exact operands: `curr < curr + step` -/
theorem rnum_lt_canon (n : Nat) (a b : Rat) :
    rnum (fun nm as => dispatchV (n + 1) nm as []) "<" [canon a, canon b] = .ok (.int (if a < b then 1 else 0)) := by
  rw [rnum_lt]
  simp [cmpLt, toRat_canon]

/-- the `while` loop of `ka_range` through `dispatch` is the array model's loop on exact rationals: with a
    positive step the no-progress guard `curr < curr + step` (fix efcc27a) always passes — every `+` on exact
    operands is exact —, which is why `Arr.rangeLoop` has no such guard.  When the round bound is reached the
    evaluator declines (`unmodelled "huge range"`); it never answers `diverges`. -/
theorem kaRangeLoop_eq (n : Nat) (hi step : Rat) (hs : 0 < step) (f : Nat) (c : Rat) (racc : List Rat) :
    kaRangeLoop (fun nm as => dispatchV (n + 1) nm as []) (canon hi) (canon step) f (canon c)
        (racc.map (fun q => Val.num (canon q))) =
      match Arr.rangeLoop hi step f c racc with
      | some xs => .ok (.arr (xs.map (fun q => Val.num (canon q))))
      | none => .error (.unmodelled "huge range") := by
  induction f generalizing c racc with
  | zero => rfl
  | succ f ih =>
    simp only [kaRangeLoop, Arr.rangeLoop, rnum_le_canon, bind, Except.bind, truthy_int_ite]
    by_cases h : c ≤ hi
    · have hlt : c < c + step := by linarith
      have ht : truthy (.int 1) = true := by decide
      simp only [h, decide_true, if_true, rnum_add_canon, rnum_lt_canon, hlt, ht, Bool.not_true,
        Bool.false_eq_true, if_false]
      exact ih (c + step) (c :: racc)
    · simp only [h, decide_false, Bool.false_eq_true, if_false, List.map_reverse]

theorem rangeLoop_mono (hi step : Rat) (f : Nat) (c : Rat) (acc xs : List Rat)
    (h : Arr.rangeLoop hi step f c acc = some xs) : Arr.rangeLoop hi step (f + 1) c acc = some xs := by
  induction f generalizing c acc with
  | zero => simp [Arr.rangeLoop] at h
  | succ f ih =>
    rw [Arr.rangeLoop] at h ⊢
    by_cases hc : c ≤ hi
    · simp only [hc, if_true] at h ⊢; exact ih _ _ h
    · simp only [hc, if_false] at h ⊢; exact h

/-- **`range(lo, hi, step)` inside the unified evaluator is `Arr.kaRange`** on exact operands: the
    positive-step and `lo ≤ hi` guards (FunctionArgError otherwise — never a hang, C12_range_step_reject),
    then the `while curr <= hi` loop through `dispatch` — INCLUDING the no-progress guard
    `if not dispatch("<", (curr, nxt)): raise FunctionArgError` of fix efcc27a, which on exact operands never
    fires (`kaRangeLoop_eq`) —, which yields exactly the array model's list `lo, lo+step, …` not exceeding `hi`
    (C12_range_step), each element delivered canonically.  The array fragment `Arr.kaRange` therefore needs no
    guard of its own.  Side condition: the element count stays below `Eval.maxRange` (2 000 000), beyond which
    the model declines.  (Statement unchanged by the model change; the round bound the evaluator uses for exact
    operands, `⌊(hi−lo)/step⌋ + 3`, is shown here never to be reached.) -/
theorem PIPE_range_step (lo hi step : Rat)
    (hsz : 0 < step → lo ≤ hi → ((hi - lo) / step).floor.toNat + 3 ≤ maxRange) :
    dispatchTop "range" [.num (canon lo), .num (canon hi), .num (canon step)] [] =
      match Arr.kaRange lo hi step with
      | .ok xs => .ok (.arr (xs.map (fun q => Val.num (canon q))))
      | .error e => .error (.err e) := by
  have t := kaRange_table _ (numClass_canon lo) _ (numClass_canon hi) _ (numClass_canon step)
  rw [dispatchTop, dispatchFuel,
    dispatchV_step (c := chP [tNum, tNum, tNum] _ .kaRange) (code := .kaRange) (by simpa [classOf] using t) rfl]
  simp only [chP, coerceArgs_num3, BodyCode.run, bKaRange, kaRangeFuel, isExact_canon, Bool.and_self, if_true, bind, Except.bind,
    rnum_lt_zero_canon, rnum_le_canon, truthy_int_ite, toRat_canon]
  by_cases hs : 0 < step
  · by_cases hl : lo ≤ hi
    · have hn := hsz hs hl
      have hk := C12_range_step lo hi step hs hl
      have hng : ¬ ((hi - lo) / step).floor.toNat + 3 > maxRange := Nat.not_lt.mpr hn
      simp only [hs, hl, decide_true, Bool.not_true, Bool.false_eq_true, if_false, hng]
      have hloop := kaRangeLoop_eq 8 hi step hs (((hi - lo) / step).floor.toNat + 3) lo []
      simp only [List.map_nil] at hloop
      rw [hloop]
      rw [hk]
      unfold Arr.kaRange at hk
      simp only [hs, hl, not_true_eq_false, if_false] at hk
      cases hr : Arr.rangeLoop hi step (((hi - lo) / step).floor.toNat + 2) lo [] with
      | none => rw [hr] at hk; cases hk
      | some xs =>
        rw [hr] at hk
        simp only [Except.ok.injEq] at hk
        rw [rangeLoop_mono hi step _ lo [] xs hr, hk]
        rfl
    · simp only [hs, hl, decide_true, decide_false, Bool.not_true, Bool.not_false, Bool.false_eq_true, if_false, if_true,
        Arr.kaRange, not_true_eq_false, not_false_eq_true]
      rfl
  · simp only [hs, decide_false, Bool.not_false, if_true, Arr.kaRange, not_false_eq_true]
    rfl

end RangeStep

/-! ## C15: what the pipeline prints is the display model's text -/

/-- the `execute` outcome for a displayable value -/
def dispOutcome (d : Display.DVal) : Outcome :=
  match Display.displayResult unitNames Display.defaultPrecision false d with
  | .ok t => .ok (String.ofList t)
  | .error e => .evalErr e

/-- **C15 inside the pipeline.**  Whatever program tree is run (its instant literals, if any, being
    well-formed: `checkInstants … = none`): when its value `v` is a number, quantity, array, interval,
    string or instant (`toDVal v = some d` — everything except a lazy combinatoric, a random variable /
    event and `None`), the text `execute` writes to the output stream is exactly
    `Display.displayResult` of `d` with the base-unit names of the generated unit table, default
    precision, no fraction brackets — the function C15's theorems (integers in full, mixed fractions,
    `%g` floats, quantities, arrays, intervals) are stated about.  A lazy combinatoric is resolved first
    (`reduce_result`) and its number displayed. -/
theorem PIPE_display (env env' : Env) (t : Ast) (hi : checkInstants (instTexts t) = none) (v : Val)
    (hv : runProgram env t = (env', .ok v)) :
    (∀ d, toDVal v = some d → runTree env t = (env', dispOutcome d)) ∧
    (∀ c, v = .comb c → runTree env t = (env', numOutcome c.resolve)) := by
  constructor
  · intro d hd
    have hr : reduceResult v = .ok v := by cases v <;> first | rfl | simp [toDVal] at hd
    have hn : displayText v = (match Display.displayResult unitNames Display.defaultPrecision false d with
        | .ok t => .ok (String.ofList t) | .error e => .error (.err e)) := by
      cases v <;> simp only [toDVal, reduceCtorEq] at hd <;> simp only [displayText, hd, toDVal] <;>
        cases Display.displayResult unitNames Display.defaultPrecision false d <;> rfl
    simp only [runTree, hi, hv, hr, bind, Except.bind, hn, dispOutcome]
    cases Display.displayResult unitNames Display.defaultPrecision false d <;> rfl
  · intro c hc
    subst hc
    simp only [runTree, hi, hv, reduceResult, resolveLazy]
    cases c.resolve with
    | error e => rfl
    | ok x =>
      simp only [liftE, Except.map, bind, Except.bind, displayText, toDVal, numOutcome]
      cases Display.displayResult unitNames Display.defaultPrecision false (.num x) <;> rfl

/-- C15's "integers print in full", for what the pipeline prints: a program whose value is the integer
    `n` (of any size) prints exactly its decimal expansion and a newline. -/
theorem PIPE_display_int (env env' : Env) (t : Ast) (hi : checkInstants (instTexts t) = none) (n : Int)
    (hv : runProgram env t = (env', .ok (.num (.int n)))) :
    runTree env t = (env', .ok (String.ofList (Display.intText n ++ ['\n']))) := by
  rw [(PIPE_display env env' t hi _ hv).1 (.num (.int n)) rfl, dispOutcome,
    (C15_int_full unitNames Display.defaultPrecision false n).1]

/-! ## C06: the unified model has the shape the handler model demands -/

theorem stringifyNum_total (N : Int) (b : Bool) (n : Num) : ∃ t, Display.stringifyNum N b n = .ok t := by
  cases n with
  | int k => exact ⟨_, rfl⟩
  | frac q => exact ⟨_, rfl⟩
  | flt x => exact C15_precision_total N x

/-- the second rendering of an interval bound (all 17 digits for a float, fix d33389f) cannot fail either -/
theorem stringifyNumFull_total (N : Int) (n : Num) : ∃ t, Display.stringifyNumFull N n = .ok t := by
  cases n with
  | int k => exact ⟨_, rfl⟩
  | frac q => exact ⟨_, rfl⟩
  | flt x => exact ⟨_, rfl⟩

mutual
theorem stringify_total (names : List Display.Text) (N : Int) (b : Bool) :
    (d : Display.DVal) → ∃ t, Display.stringify names N b d = .ok t
  | .num n => stringifyNum_total N b n
  | .qty m dim => by
    obtain ⟨t, h⟩ := stringifyNum_total N b m
    (simp only [Display.stringify, h, bind, Except.bind]; exact ⟨_, rfl⟩)
  | .arr xs => by
    obtain ⟨ts, h⟩ := stringifyList_total names N b xs
    (simp only [Display.stringify, h, bind, Except.bind]; exact ⟨_, rfl⟩)
  | .str s => ⟨_, rfl⟩
  | .intv x y => by
    obtain ⟨t1, h1⟩ := stringifyNum_total N false x
    obtain ⟨t2, h2⟩ := stringifyNum_total N false y
    obtain ⟨u1, g1⟩ := stringifyNumFull_total N x
    obtain ⟨u2, g2⟩ := stringifyNumFull_total N y
    (simp only [Display.stringify, h1, h2, g1, g2, bind, Except.bind]; split <;> exact ⟨_, rfl⟩)
  | .inst iso => ⟨_, rfl⟩
theorem stringifyList_total (names : List Display.Text) (N : Int) (b : Bool) :
    (xs : List Display.DVal) → ∃ ts, Display.stringifyList names N b xs = .ok ts
  | [] => ⟨[], rfl⟩
  | x :: xs => by
    obtain ⟨t, h⟩ := stringify_total names N b x
    obtain ⟨ts, hs⟩ := stringifyList_total names N b xs
    (simp only [Display.stringifyList, h, hs, bind, Except.bind]; exact ⟨_, rfl⟩)
end

theorem displayNum_total (N : Int) (n : Num) : ∃ t, Display.displayNum N n = .ok t := by
  cases n with
  | int k => exact ⟨_, rfl⟩
  | frac q =>
    obtain ⟨ap, h⟩ := C15_approx_total N q
    (simp only [Display.displayNum, h, bind, Except.bind]; exact ⟨_, rfl⟩)
  | flt x => exact C15_precision_total N x

/-- **`display_result` never fails** (C15's totality theorems, extended over arrays, intervals and
    quantities): for every displayable value the display model produces a text. -/
theorem PIPE_display_total (names : List Display.Text) (N : Int) (b : Bool) (d : Display.DVal) :
    ∃ t, Display.displayResult names N b d = .ok t := by
  cases d with
  | num n =>
    obtain ⟨t, h⟩ := displayNum_total N n
    (simp only [Display.displayResult, h, bind, Except.bind]; exact ⟨_, rfl⟩)
  | qty m dim =>
    cases m with
    | frac q =>
      obtain ⟨ap, h⟩ := C15_approx_total N q
      (simp only [Display.displayResult, h, bind, Except.bind]; exact ⟨_, rfl⟩)
    | int k => (simp only [Display.displayResult, Display.displayNum, bind, Except.bind]; exact ⟨_, rfl⟩)
    | flt x =>
      obtain ⟨t, h⟩ := C15_precision_total N x
      (simp only [Display.displayResult, Display.displayNum, h, bind, Except.bind]; exact ⟨_, rfl⟩)
  | arr xs =>
    obtain ⟨ts, h⟩ := stringifyList_total names N false xs
    (simp only [Display.displayResult, h, bind, Except.bind]; exact ⟨_, rfl⟩)
  | intv x y =>
    obtain ⟨t, h⟩ := stringify_total names N false (.intv x y)
    (simp only [Display.displayResult, h, bind, Except.bind]; exact ⟨_, rfl⟩)
  | str s => (simp only [Display.displayResult]; exact ⟨_, rfl⟩)
  | inst iso => (simp only [Display.displayResult]; exact ⟨_, rfl⟩)

/-- consequently the display stage of the unified model raises nothing: the only failure after a
    successful evaluation is `reduce_result` on a lazy combinatoric whose resolution fails -/
theorem PIPE_display_stage (env : Env) (t : Ast) (c : String) (h : (treeStages env t).display = some c) :
    ∃ env' comb e, runProgram env t = (env', .ok (.comb comb)) ∧ comb.resolve = .error e := by
  unfold treeStages at h
  rcases checkInstants_cases (instTexts t) with hc | hc | hc
  rotate_left
  · rw [hc] at h; simp at h
  · rw [hc] at h; simp at h
  rw [hc] at h
  simp only at h
  rcases hp : runProgram env t with ⟨env', r⟩
  rw [hp] at h
  cases r with
  | error er => cases er <;> simp at h
  | ok v =>
    have hdt : ∀ w e, displayText w ≠ .error (.err e) := by
      intro w e
      have key : ∀ v, (match toDVal v with
          | Option.none => (.error (.unmodelled "display") : R String)
          | some d => liftE (Display.displayResult unitNames Display.defaultPrecision false d) |>.map String.ofList)
          ≠ .error (.err e) := by
        intro v
        cases toDVal v with
        | none => simp
        | some d =>
          obtain ⟨txt, ht⟩ := PIPE_display_total unitNames Display.defaultPrecision false d
          simp [ht, liftE, Except.map]
      cases w with
      | none => simp [displayText]
      | num n => exact key (.num n)
      | comb c => exact key (.comb c)
      | qty m d => exact key (.qty m d)
      | arr xs => exact key (.arr xs)
      | intv a b => exact key (.intv a b)
      | str s => exact key (.str s)
      | inst i => exact key (.inst i)
      | rv x => simp [displayText]
      | event ops pos x args => simp [displayText]
    cases v with
    | comb cb =>
      cases hr : cb.resolve with
      | error e => exact ⟨env', cb, e, rfl, hr⟩
      | ok x =>
        simp only [reduceResult, resolveLazy, hr, liftE, Except.map, bind, Except.bind] at h
        split at h
        · rename_i e heq; exact absurd heq (hdt _ e)
        · simp at h
    | _ =>
      simp only [reduceResult, resolveLazy, bind, Except.bind] at h
      split at h
      · rename_i e heq; exact absurd heq (hdt _ e)
      · simp at h

open Gen.Exec in
/-- **C06's handler model and the unified pipeline agree on every modelled input.**  Take the four
    stages of one `execute` call as the unified model runs them (`stagesOf`: C11 lexer, C02 parser,
    `eval_node`, `reduce_result` + `display_result`, each either completing or raising a class) and feed
    them to C06's `Exec.execute` with the handler tables generated from the `ast` of interpret.py.  Its
    verdict — status 0 with text on the output stream only / status 1 with the diagnostic on the error
    stream only / an escaping exception — is what the unified model's outcome shows (`observe`).
    The lexical and parse stages need no hypothesis: the model only raises the four caught lexical classes,
    ParsingError (caught), the KaRuntimeError of a malformed instant literal (`instant_from_iso` runs inside
    `parse_tokens`; caught there), or OverflowError out of `parse_number` (not caught: escapes in both).  For the
    evaluation stage the hypotheses are those of `C06_no_escape_current`: the class raised is one of Ka's
    own (or ZeroDivisionError / OverflowError, which `eval_parse_tree` converts), and the display stage
    raises nothing (`PIPE_display_stage`: it cannot, except for a lazy value whose resolution fails). -/
theorem PIPE_execute (env : Env) (s : List Char) (hs : s.all Lexer.inAlphabet = true) (hx : hugeExponent s = false)
    (x : Exec.Outcome) (hobs : observe (runIn env s).2 = some x)
    (hown : ∀ c, (stagesOf env s).evalTree = some c → c ∈ ownClasses)
    (hdisp : (stagesOf env s).display = none) :
    Exec.execute lexCaught parseCaught evalCaught evalConverted (stagesOf env s) = x := by
  obtain ⟨hL, hP, hK, hO, hE⟩ := handler_table
  simp only [runIn, hs, hx, Bool.not_true, Bool.false_eq_true, if_false] at hobs
  unfold stagesOf at hown hdisp ⊢
  cases hl : Lexer.tokenise s with
  | error e =>
    simp only [hl] at hobs ⊢
    cases e <;> simp only [lexOutcome, observe, Option.some.injEq, reduceCtorEq] at hobs <;> subst hobs <;>
      simp only [Exec.execute, lexClass] <;> exact hL _ (by simp)
  | ok toks =>
    simp only [hl, runTokens] at hobs hown hdisp ⊢
    cases hp : parse toks with
    | error pe =>
      simp only [hp] at hobs hown hdisp ⊢
      cases pe with
      | parsing i =>
        simp only at hobs ⊢
        rcases checkInstants_cases (tokInstTexts (toks.take i)) with hc | hc | hc <;> simp only [hc] at hobs ⊢
        · simp only [observe, Option.some.injEq] at hobs; subst hobs; exact hP
        · simp [observe] at hobs
        · simp only [observe, Option.some.injEq] at hobs; subst hobs; exact hK
      | overflow =>
        simp only at hobs ⊢
        split at hobs
        · simp [observe] at hobs
        · simp only [observe, Option.some.injEq] at hobs; subst hobs; exact hO
      | fuel => simp [observe] at hobs
    | ok t =>
      simp only [hp] at hobs hown hdisp ⊢
      unfold runTree at hobs
      unfold treeStages at hown hdisp ⊢
      rcases checkInstants_cases (instTexts t) with hc | hc | hc <;> simp only [hc] at hobs hown hdisp ⊢
      · rcases hr : runProgram env t with ⟨env', r⟩
        simp only [hr] at hobs hown hdisp ⊢
        cases r with
        | error er =>
          cases er with
          | err e =>
            simp only [ofEvalErr, observe, Option.some.injEq] at hobs; subst hobs
            simp only [Exec.execute]
            exact hE _ (hown _ rfl)
          | unmodelled w => simp [ofEvalErr, observe] at hobs
          | fuel => simp [ofEvalErr, observe] at hobs
        | ok v =>
          simp only at hobs hown hdisp ⊢
          cases hd : reduceResult v >>= displayText with
          | ok txt =>
            simp only [hd, observe, Option.some.injEq] at hobs; subst hobs
            rfl
          | error er =>
            cases er with
            | err e => simp [hd] at hdisp
            | unmodelled w => simp [hd, ofEvalErr, observe] at hobs
            | fuel => simp [hd, ofEvalErr, observe] at hobs
      · simp [observe] at hobs
      · simp only [observe, Option.some.injEq] at hobs; subst hobs; exact hK

/-- **The shape C06 demands, for every input**: the unified model's outcome is exactly one of — status 0
    with an output text, status 1 with a lexical / parse / evaluation diagnostic, an escaping
    OverflowError (out of `parse_number` only), or `unmodelled`; never an output text together with an
    error, and no other class ever escapes. -/
theorem PIPE_outcome_shape (env : Env) (s : List Char) :
    (∃ out, (runIn env s).2 = .ok out) ∨ (∃ c i, (runIn env s).2 = .lexErr c i) ∨ (∃ i, (runIn env s).2 = .parseErr i) ∨
    (∃ e, (runIn env s).2 = .evalErr e) ∨ (runIn env s).2 = .escaped "OverflowError" ∨ (∃ w, (runIn env s).2 = .unmodelled w) := by
  cases h : (runIn env s).2 with
  | ok out => exact Or.inl ⟨out, rfl⟩
  | lexErr c i => exact Or.inr (Or.inl ⟨c, i, rfl⟩)
  | parseErr i => exact Or.inr (Or.inr (Or.inl ⟨i, rfl⟩))
  | evalErr e => exact Or.inr (Or.inr (Or.inr (Or.inl ⟨e, rfl⟩)))
  | unmodelled w => exact Or.inr (Or.inr (Or.inr (Or.inr (Or.inr ⟨w, rfl⟩))))
  | escaped c =>
    refine Or.inr (Or.inr (Or.inr (Or.inr (Or.inl ?_))))
    have hci : ∀ texts, checkInstants texts ≠ some (.escaped c) := by
      intro texts hc
      rcases checkInstants_cases texts with h' | h' | h' <;> rw [h'] at hc <;> cases hc
    unfold runIn at h
    split at h
    · cases h
    · split at h
      · cases h
      · split at h
        · rename_i e _; cases e <;> cases h
        · rename_i toks _
          unfold runTokens at h
          split at h
          · split at h
            · rename_i o hc; simp only at h; subst h; exact absurd hc (hci _)
            · cases h
          · split at h
            · cases h
            · exact h.symm
          · cases h
          · rename_i t _
            unfold runTree at h
            split at h
            · rename_i o hc; simp only at h; subst h; exact absurd hc (hci _)
            · split at h
              · rename_i e _; cases e <;> cases h
              · split at h
                · cases h
                · rename_i e _; cases e <;> cases h

/-! ## non-vacuity: the hypotheses are satisfiable; concrete programs through the whole pipeline -/

/-- `3!/2` and the tokens of the text `3! /2` -/
private def sampleC : Comb.CExp := .div (.fact 3) (.int 2)
private def toksC : List Token := [⟨.num, 0, 1, .num (.int 3)⟩, ⟨.const "!", 1, 2, .none⟩, ⟨.const "/", 3, 4, .none⟩,
  ⟨.num, 4, 5, .num (.int 2)⟩]
set_option maxRecDepth 100000 in
/-- hypotheses of `PIPE_text_of_tree` / `PIPE_stages` (third clause): a text with irregular whitespace -/
example : Lexer.tokenise "3! /2".toList = .ok toksC ∧ toksC.map PTok.ofToken = rNat noExtra (.stmts [embedC sampleC])
    ∧ "3! /2".toList.all Lexer.inAlphabet = true ∧ hugeExponent "3! /2".toList = false
    ∧ (Ast.stmts [embedC sampleC]).WF ∧ combModelled sampleC = true :=
  ⟨by rfl, by rfl, by decide +kernel, by decide +kernel, wf_program_embedC sampleC, by decide +kernel⟩
/-- `combModelled` fails only beyond 200000 -/
example : combModelled (.mul (.fact 200000) (.choose 52 5)) = true ∧ combModelled (.fact 200001) = false := by decide +kernel
set_option maxRecDepth 100000 in
/-- first and second clause of `PIPE_stages` -/
example : (match Lexer.tokenise "1 ? 2".toList with | .error (.unknownToken 2) => true | _ => false) = true := by decide +kernel

/-- operands of `PIPE_compare`: a number, a length (dimension vector over the 8 base units) -/
example : cmpOperand (.num (.frac (1/2))) = true ∧ cmpOperand (.qty (.int 2) [0, 1, 0, 0, 0, 0, 0, 0]) = true
    ∧ Compare.comparable (.qty (.int 2) [0, 1, 0, 0, 0, 0, 0, 0]) (.qty (.int 3) [0, 1, 0, 0, 0, 0, 0, 0]) = true := by decide
/-- hypotheses of `PIPE_compare_node` / `_semantics` / `_chain_rejected`: literal operands -/
example (env : Env) : evalE env (.num (.int 3)) = .ok (cvVal (.num (.int 3))) ∧ PCmp.lt ∈ cmp6 ∧ PCmp.geq ∈ cmp6 :=
  ⟨rfl, by decide, by decide⟩
/-- `3 > 2` through `PIPE_compare_semantics` -/
example (env : Env) : evalE env (mkCmp1 .gt (.num (.int 3)) (.num (.int 2))) = .ok (.num (.int 1)) := by
  have := PIPE_compare_semantics env .gt (.num (.int 3)) (.num (.int 2)) (.num (.int 3)) (.num (.int 2)) rfl rfl rfl rfl rfl
  rw [show pcmpOf .gt = PCmp.gt from rfl] at this
  rw [this]
  have : Compare.CmpOp.gt.rel (Compare.key (.num (.int 3))) (Compare.key (.num (.int 2))) := by
    show ((2 : Int) : Rat) < ((3 : Int) : Rat)
    decide +kernel
  rw [if_pos this]

/-- a quantity expression satisfying `PQ.modelled`: `(3 km + 2 m) to cm < 1/2` -/
example : (PQ.bin .lt (.conv (.bin .add (.tag (.lit (.int 3)) ⟨[("km", 1)], []⟩) (.tag (.lit (.int 2)) ⟨[("m", 1)], []⟩))
    ⟨[("cm", 1)], []⟩) (.lit (.frac (1/2)))).modelled = true := by decide +kernel
/-- an unknown unit name (premise of the second clause of `PIPE_unit_lookup`) -/
example : (match Units.lookupUnit Gen.Units.table (cps "zorkmid") with | .ok none => true | _ => false) = true := by
  decide +kernel

/-- hypotheses of `PIPE_array_aggregates`, `PIPE_range`, `PIPE_display` -/
example : ∀ x ∈ [Num.int 3, .int (-4), .frac (1/2)], Canon x := by
  intro x hx
  have h : ∀ y ∈ [Num.int 3, .int (-4), .frac (1/2)], storedNum y = true := by decide +kernel
  exact simplify_stored x (h x hx)
example : ((5 : Int) + 1 - 2).toNat ≤ maxRange := by decide
example : runProgram initialEnv (.num (.int 5)) = (initialEnv, .ok (.num (.int 5)))
    ∧ checkInstants (instTexts (.num (.int 5))) = none
    ∧ checkInstants (instTexts (.bin .add (.inst "2020-02") (.num (.int 5)))) = none
    ∧ (toDVal (.num (.int 5))).isSome = true := ⟨rfl, rfl, by decide +kernel, rfl⟩

set_option maxRecDepth 100000 in
example : (runText "10!/4!/7!").render = "ok 30\n" := by decide +kernel
set_option maxRecDepth 100000 in
example : (runText "5!/(0*4!)").render = "err divzero" := by decide +kernel
set_option maxRecDepth 100000 in
example : (runText "1 < 2 < 3").render = "err nomatch" := by decide +kernel
set_option maxRecDepth 100000 in
example : (runText "2 m < 300 cm").render = "ok 1\n" := by decide +kernel
set_option maxRecDepth 100000 in
example : (runText "2 m > 3").render = "err incompatible" := by decide +kernel
set_option maxRecDepth 100000 in
example : (runText "1 zorkmid").render = "err eval" := by decide +kernel
set_option maxRecDepth 100000 in
example : (runText "sqrt(-4)").render = "err runtime" := by decide +kernel
set_option maxRecDepth 100000 in
example : (runText "prod(2..5) + size({1, 2}) + (3 in {1, 2, 3})").render = "ok 123\n" := by decide +kernel

set_option maxRecDepth 100000 in
/-- hypotheses of `PIPE_execute` on `1/0` (status 1, ZeroDivisionError converted and caught) and on `2 + 3` -/
example : observe (runIn initialEnv "1/0".toList).2 = some (.done 1 false true)
    ∧ (stagesOf initialEnv "1/0".toList).evalTree = some "ZeroDivisionError" ∧ "ZeroDivisionError" ∈ ownClasses
    ∧ (stagesOf initialEnv "1/0".toList).display = none
    ∧ observe (runIn initialEnv "2 + 3".toList).2 = some (.done 0 true false)
    ∧ (stagesOf initialEnv "2 + 3".toList).evalTree = none ∧ (stagesOf initialEnv "2 + 3".toList).display = none := by
  decide +kernel

/-- the side condition of `PIPE_range_step` on `range(1, 10, 3/2)` (7 elements) -/
example : (((10 : Rat) - 1) / (3/2)).floor.toNat + 3 ≤ maxRange := by decide +kernel
set_option maxRecDepth 100000 in
example : (runText "range(1, 10, 3/2)").render = "ok {1, 5/2, 4, 11/2, 7, 17/2, 10}\n" := by decide +kernel
set_option maxRecDepth 100000 in
example : (runText "range(1, 10, 0)").render = "err funarg" := by decide +kernel

end KaVerif
