import KaVerif.Lemmas.DispatchLemmas
import KaVerif.Gen.RegistryTables
/-
  C10 — overload resolution: unique most specific signature, order-independent.
  The registry and the type lattice are regenerated from /repo on every run
  (Gen/Registry*.lean); the table facts below are re-checked by the kernel then.
-/
namespace KaVerif
open Dispatch Gen.Registry

/-- **C10 (generic).** Whatever the list of applicable signatures and the subtype order:
    if it has a unique least element, the scan returns it — for every permutation. -/
theorem C10_scan_any_order (sub : Nat → Nat → Bool) (l l' : List Sig) (hp : l.Perm l') (m : Sig)
    (h : uniqueLeast sub l m = true) : closest sub l = some m ∧ closest sub l' = some m :=
  ⟨closest_perm sub l l (List.Perm.refl l) m h, closest_perm sub l l' hp m h⟩

/-- **C10 (the registry of the current source tree, arities up to the largest the name registers).**
    For every registered name, every tuple of value classes and every permutation of the
    name's signature list: either no signature applies (in every order), or one and the
    same signature — the unique most specific applicable one — is chosen in every order. -/
theorem C10_order_independent (e : String × List Sig) (he : e ∈ registry)
    (args : List Nat) (hargs : ∀ a ∈ args, a < numClasses) (hlen : args.length ≤ maxPos e.2)
    (l' : List Sig) (hp : e.2.Perm l') :
    (applicable inst e.2 args = [] ∧ applicable inst l' args = []) ∨
    (∃ m, uniqueLeast sub (applicable inst e.2 args) m = true ∧
          closest sub (applicable inst e.2 args) = some m ∧
          closest sub (applicable inst l' args) = some m) := by
  have ht := tables e he
  rw [List.all_eq_true] at ht
  have h1 := ht args.length (List.mem_range.mpr (by omega))
  rw [List.all_eq_true] at h1
  have h2 := h1 args (mem_tuples numClasses args hargs)
  unfold hasUniqueLeast at h2
  rw [Bool.or_eq_true] at h2
  have hperm := applicable_perm inst e.2 l' hp args
  rcases h2 with h | h
  · left
    have : applicable inst e.2 args = [] := List.isEmpty_iff.mp h
    refine ⟨this, ?_⟩
    rw [this] at hperm; exact List.Perm.nil_eq hperm |>.symm
  · right
    rw [List.any_eq_true] at h
    obtain ⟨m, _, hm⟩ := h
    exact ⟨m, hm, (C10_scan_any_order sub _ _ hperm m hm).1, (C10_scan_any_order sub _ _ hperm m hm).2⟩

/-- table fact: every name registers at most one vararg signature, and it is reflexively below itself -/
theorem C10_vararg_table : registry.all (fun e =>
    decide ((e.2.filter (fun s => s.vararg.isSome)).length ≤ 1) &&
    (e.2.filter (fun s => s.vararg.isSome)).all (fun s => typesBelow sub s s)) = true := by
  decide +kernel

/-- **C10 (argument lists longer than every registered arity).** Only the name's single
    vararg signature can apply, so the choice is again unique and order-independent. -/
theorem C10_long_arglists (e : String × List Sig) (he : e ∈ registry) (args : List Nat)
    (hlen : ∀ s ∈ e.2, s.pos.length < args.length) :
    hasUniqueLeast sub (applicable inst e.2 args) = true := by
  have hv := C10_vararg_table
  rw [List.all_eq_true] at hv
  have h := hv e he
  rw [Bool.and_eq_true, decide_eq_true_eq, List.all_eq_true] at h
  obtain ⟨hlen1, hrefl⟩ := h
  have hsub : applicable inst e.2 args =
      (e.2.filter (fun s => s.vararg.isSome)).filter (fun s => sigMatches inst s args) := by
    unfold applicable
    rw [List.filter_filter]
    apply List.filter_congr
    intro s hs
    by_cases hm : sigMatches inst s args = true
    · simp [hm, long_args_need_vararg inst s args (hlen s hs) hm]
    · simp [hm]
  rw [hsub]
  match hf : e.2.filter (fun s => s.vararg.isSome) with
  | [] => rw [hf]; simp [hasUniqueLeast]
  | [m] =>
    have hmm : typesBelow sub m m = true := hrefl m (by rw [hf]; exact List.mem_singleton.mpr rfl)
    rw [hf]
    by_cases hm : sigMatches inst m args = true
    · simp [List.filter, hm, hasUniqueLeast, uniqueLeast, hmm]
    · simp [List.filter, hm, hasUniqueLeast]
  | _ :: _ :: _ => rw [hf] at hlen1; simp at hlen1

/-- class / type ids by name (the generated tables are positional) -/
def cls (n : String) : Nat := classNames.idxOf n
def typ (n : String) : Nat := typeNames.idxOf n

/-- **C10 (never silently narrowed).** A Fraction, float or lazy combinatoric is not accepted
    where an `Integral` is declared; a float or lazy combinatoric is not accepted where a
    `Rational` is declared; while an int is accepted as Integral, Rational and Number and a
    Fraction as Rational and Number (widening). -/
theorem C10_no_narrowing :
    inst (cls "Fraction") (typ "Integral") = false ∧ inst (cls "float") (typ "Integral") = false ∧
    inst (cls "Combinatoric") (typ "Integral") = false ∧
    inst (cls "float") (typ "Rational") = false ∧ inst (cls "Combinatoric") (typ "Rational") = false ∧
    inst (cls "int") (typ "Integral") = true ∧ inst (cls "int") (typ "Rational") = true ∧
    inst (cls "int") (typ "Number") = true ∧ inst (cls "Fraction") (typ "Rational") = true ∧
    inst (cls "Fraction") (typ "Number") = true ∧ inst (cls "float") (typ "Number") = true ∧
    inst (cls "Combinatoric") (typ "Number") = true := by
  decide +kernel

/-- **C10 (errors before any body runs).** Unknown name, no matching signature, unknown
    keyword and wrongly typed keyword value are decided by `resolve` alone: the outcome is
    the same for every choice of function bodies. -/
theorem C10_errors_before_body {α : Type} (inst sub : Nat → Nat → Bool) (reg : List (String × List Sig))
    (body body' : Nat → α) (name : String) (args : List Nat) (kw : List (Nat × Nat)) (e : DErr)
    (h : resolve inst sub reg name args kw = .error e) :
    dispatch inst sub reg body name args kw = .error e ∧ dispatch inst sub reg body' name args kw = .error e := by
  simp [dispatch, h]

theorem C10_unknown_name (inst sub : Nat → Nat → Bool) (reg : List (String × List Sig))
    (name : String) (args : List Nat) (kw : List (Nat × Nat)) (h : reg.lookup name = none) :
    resolve inst sub reg name args kw = .error .unknownFunction := by
  simp [resolve, h]

theorem C10_no_match (inst sub : Nat → Nat → Bool) (reg : List (String × List Sig))
    (name : String) (sigs : List Sig) (args : List Nat) (kw : List (Nat × Nat))
    (h : reg.lookup name = some sigs) (hn : applicable inst sigs args = []) :
    resolve inst sub reg name args kw = .error .noMatch := by
  simp [resolve, h, hn, closest]

/-- the keyword loop: the first offending keyword decides -/
theorem C10_keywords (inst sub : Nat → Nat → Bool) (reg : List (String × List Sig))
    (name : String) (sigs : List Sig) (args : List Nat) (m : Sig) (k c : Nat) (rest : List (Nat × Nat))
    (h : reg.lookup name = some sigs) (hm : closest sub (applicable inst sigs args) = some m) :
    (m.kw.lookup k = none → resolve inst sub reg name args ((k, c) :: rest) = .error .unknownKeyword) ∧
    (∀ t, m.kw.lookup k = some t → inst c t = false →
        resolve inst sub reg name args ((k, c) :: rest) = .error .badKeyword) := by
  constructor
  · intro hk; simp [resolve, h, hm, resolve.kwloop, hk]
  · intro t hk hc; simp [resolve, h, hm, resolve.kwloop, hk, hc]

/-- non-vacuity: "/" on (int, int) has two applicable signatures and a unique least one -/
example : (applicable inst ((registry.lookup "/").getD []) [cls "int", cls "int"]).length = 2 ∧
    hasUniqueLeast sub (applicable inst ((registry.lookup "/").getD []) [cls "int", cls "int"]) = true := by
  decide +kernel

end KaVerif
