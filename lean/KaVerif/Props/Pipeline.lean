import KaVerif.Lemmas.EvalLemmas
import KaVerif.Props.C01
import KaVerif.Props.C02
/-
  PIPE — the unified pipeline model (`Model/Eval.lean`: text → tokens → parse tree → `eval_node`
  over the generated registry → `reduce_result` → `display_result`) refines the per-topic fragment
  models on their fragments.  The fragments' theorems (C01 exactness, C02 grouping, C14 sessions,
  C03/C04 quantity operators, C12 aggregates) therefore speak about the one evaluator that the
  whole-program differential fuzzing (harness/pipeline.py) ties to `ka.interpret.execute`.
-/
namespace KaVerif
open KaVerif.Eval KaVerif.Parser

/-- **The registry tie.**  Kernel-checked over the generated registry (`Gen/Registry.lean`,
    regenerated from the source on every run): for every pair of numeric kinds, every numeric
    kind, and two quantities, which registered implementation `dispatch` selects, and that the
    hand-written table `Eval.implTable` holds the corresponding model body under exactly that
    descriptor.  Re-pointing an operator, removing the (Integral, Integral) override of "/",
    or changing a closure cell of `register_quantities_op` breaks this at build time. -/
theorem PIPE_dispatch_table :
    (∀ a ∈ kinds3, ∀ b ∈ kinds3,
      (resolveDesc "+" [a, b] []).toOption = some (ch2 "+|(Number, Number)|_operator.add" (.lin .add)) ∧
      (resolveDesc "-" [a, b] []).toOption = some (ch2 "-|(Number, Number)|_operator.sub" (.lin .sub)) ∧
      (resolveDesc "*" [a, b] []).toOption = some (ch2 "*|(Number, Number)|_operator.mul" (.lin .mul)) ∧
      (resolveDesc "%" [a, b] []).toOption = some (ch2 "%|(Number, Number)|_operator.mod" .mod) ∧
      (resolveDesc "^" [a, b] []).toOption = some (ch2 "^|(Number, Number)|ka.functions.strict_pow" .pow) ∧
      (resolveDesc "/" [a, b] []).toOption = some
        (if a = cInt ∧ b = cInt then ⟨[tIntegral, tIntegral], none, "/|(Integral, Integral)|ka.types.fraction_divide", some .fracDiv⟩
         else ch2 "/|(Number, Number)|_operator.truediv" .trueDiv)) ∧
    (∀ a ∈ kinds3,
      (resolveDesc "-" [a] []).toOption = some (ch1 "-|(Number)|_operator.neg" (.fn1 .neg)) ∧
      (resolveDesc "abs" [a] []).toOption = some (ch1 "abs|(Number)|builtins.abs" (.fn1 .abs)) ∧
      (resolveDesc "floor" [a] []).toOption = some (ch1 "floor|(Number)|math.floor" (.fn1 .floor)) ∧
      (resolveDesc "ceil" [a] []).toOption = some (ch1 "ceil|(Number)|math.ceil" (.fn1 .ceil)) ∧
      (resolveDesc "round" [a] []).toOption = some (ch1 "round|(Number)|builtins.round" (.fn1 .round)) ∧
      (resolveDesc "int" [a] []).toOption = some (ch1 "int|(Number)|builtins.int" (.fn1 .toInt))) := by
  refine ⟨fun a ha b hb => ?_, fun a ha => ?_⟩
  · obtain ⟨h1, h2, h3, h4, h5, h6, _⟩ := num_table2 a ha b hb
    exact ⟨h1, h2, h3, h4, h5, h6⟩
  · obtain ⟨_, h2, h3, h4, h5, h6, h7, _⟩ := num_table1 a ha
    exact ⟨h2, h3, h4, h5, h6, h7⟩

/-- **C01 inside the unified evaluator.**  For every C01 expression tree, `eval_node` of the
    parse tree of its text (operators as FUNCALL nodes through the generated registry, unary sign
    nodes, `abs( )`…`float( )` calls) returns exactly what the C01 model `evalA` returns — the same
    number of the same kind, or the same error class — and leaves the session untouched. -/
theorem PIPE_arith (t : AExp) (env : Env) (hpm : powersModelled t = true) :
    evalAst env (embed t) =
      match evalA t with
      | .ok v => .ok (.num v, env)
      | .error e => .error (.err e) := by
  have h := evalStmt_embed t env hpm
  have hp : runProgram env (embed t) = (env, liftN (evalA t)) := by
    cases t with
    | lit n => exact h
    | sci m e => exact h
    | bin op a b => exact h
    | un op a => cases op <;> exact h
  unfold evalAst
  rw [hp]
  cases evalA t <;> rfl

/-- … and without the hypothesis on the powers the unified evaluator still never gives a *different*
    answer: it agrees with `evalA` or declares the huge power outside the model. -/
theorem PIPE_arith_or_refuses (t : AExp) (env : Env) :
    evalE env (embed t) = liftN (evalA t) ∨ evalE env (embed t) = .error (.unmodelled "huge power") :=
  evalE_embed_or t env

/-- C01's exactness theorem, for the unified evaluator: whenever the mathematical reading of the
    expression is the rational `q`, evaluating its parse tree delivers `q` in canonical form
    (an int when integral, otherwise the reduced Fraction) — never a float. -/
theorem PIPE_arith_exact (t : AExp) (q : Rat) (h : den t = .val q) (env : Env) (hpm : powersModelled t = true) :
    evalAst env (embed t) = .ok (.num (Num.canon q), env) := by
  rw [PIPE_arith t env hpm, C01_exact t q h]

/-- **From the text's tokens to the printed line.**  Write a C01 expression with only the
    required parentheses, with every sub-expression parenthesised, or with redundant parentheses
    around any chosen sub-expressions: `execute` from the token list on (parse, evaluate, reduce,
    display) prints the display text of `evalA`'s value, or diagnoses `evalA`'s error class; the
    session is unchanged.  (Composition of `C02_redundant_parens` with `PIPE_arith`.) -/
theorem PIPE_text_arith (t : AExp) (env : Env) (extra : Ast → Bool) (hpm : powersModelled t = true) :
    runTokens env (renderWith extra (.stmts [embed t])) = (env, numOutcome (evalA t)) := by
  simp only [runTokens, C02_redundant_parens _ (wf_program_embed t) extra]
  exact runTree_embed t env hpm

/-- the two standard renderings -/
theorem PIPE_text_arith_min_full (t : AExp) (env : Env) (hpm : powersModelled t = true) :
    runTokens env (renderMin (.stmts [embed t])) = (env, numOutcome (evalA t)) ∧
    runTokens env (renderFull (.stmts [embed t])) = (env, numOutcome (evalA t)) :=
  ⟨PIPE_text_arith t env noExtra hpm, PIPE_text_arith t env allExtra hpm⟩

/-- `parse_tokens` looks at tags and metadata only (positions matter to the error marker alone) -/
theorem parse_view_congr {toks toks' : List Token} (h : toks.map PTok.ofToken = toks'.map PTok.ofToken) :
    parse toks = parse toks' := by
  have hl : toks.length = toks'.length := by simpa using congrArg List.length h
  unfold parse
  rw [h, hl]

/-- **From the text.**  Any input text (over the lexer model's alphabet) that lexes to the tokens of
    a rendering of the C01 expression — whatever its whitespace; C11's whitespace-insertion theorem
    produces all of them from one — makes `execute` print `evalA`'s value / diagnose `evalA`'s error. -/
theorem PIPE_text_arith_lexed (t : AExp) (env : Env) (extra : Ast → Bool) (s : List Char) (toks : List Token)
    (hs : s.all Lexer.inAlphabet = true) (hx : hugeExponent s = false) (hlex : Lexer.tokenise s = .ok toks)
    (hview : toks.map PTok.ofToken = rNat extra (.stmts [embed t])) (hpm : powersModelled t = true) :
    runIn env s = (env, numOutcome (evalA t)) := by
  have hp : parse toks = parse (renderWith extra (.stmts [embed t])) :=
    parse_view_congr (by rw [hview, renderWith, toTokens, map_ofToken_toToken])
  have h := PIPE_text_arith t env extra hpm
  simp only [runTokens] at h
  simp only [runIn, hs, hx, hlex, runTokens, hp, Bool.not_true, Bool.false_eq_true, if_false]
  rw [C02_redundant_parens _ (wf_program_embed t) extra] at h ⊢
  exact h

/-- **Sessions.**  On the fragment of the C14 session model that does not use its abstract
    function / unit namespaces (literals, variables, `+`, `*`, assignments, `;`), evaluating the
    STATEMENTS node threads the bindings exactly like `Session.runInput`: same bindings afterwards
    (also when a statement fails: the earlier assignments stay), same value of the last statement
    (`None` for the empty input), and a failure exactly when the session model fails. -/
theorem PIPE_statements (w : Session.World) (env : Session.Env) (ss : List Session.Stmt)
    (h : ∀ s ∈ ss, coreStmt s = true) :
    runProgram (envOf env) (.stmts (ss.map embedStmt)) =
      (envOf (Session.runInput w env none ss).env, outOf (Session.runInput w env none ss).result) :=
  runStmts_session w ss h env none

/-- … and successive inputs against one session are `Session.runSession` -/
theorem PIPE_session (w : Session.World) (inputs : List (List Session.Stmt))
    (h : ∀ inp ∈ inputs, ∀ s ∈ inp, coreStmt s = true) (env : Session.Env) :
    (inputs.foldl (fun (acc : Env × List (R Val)) inp =>
        let r := runProgram acc.1 (.stmts (inp.map embedStmt)); (r.1, acc.2 ++ [r.2])) (envOf env, [])) =
      (envOf (Session.runSession w env inputs).1, (Session.runSession w env inputs).2.map outOf) := by
  suffices H : ∀ (inputs : List (List Session.Stmt)), (∀ inp ∈ inputs, ∀ s ∈ inp, coreStmt s = true) →
      ∀ (env : Session.Env) (pre : List (R Val)),
      (inputs.foldl (fun (acc : Env × List (R Val)) inp =>
        let r := runProgram acc.1 (.stmts (inp.map embedStmt)); (r.1, acc.2 ++ [r.2])) (envOf env, pre)) =
      (envOf (Session.runSession w env inputs).1, pre ++ (Session.runSession w env inputs).2.map outOf) by
    simpa using H inputs h env []
  intro inputs
  induction inputs with
  | nil => intro _ env pre; simp [Session.runSession]
  | cons inp rest ih =>
    intro h env pre
    have h1 := PIPE_statements w env inp (h inp (by simp))
    simp only [List.foldl_cons, h1, Session.runSession]
    rw [ih (fun i hi => h i (by simp [hi]))]
    simp

/-- **Quantity operators** (C03/C04's `Qty.qtyOp`): `dispatch` of `+ - * / < <= == !=` on two
    quantities, inside the unified evaluator, is the quantity fragment's operator — the dimension
    check, the magnitudes combined by the numeric operator, the result wrapped or plain. -/
theorem PIPE_qty_ops (op : Qty.QOp) (x : Num) (dx : List Int) (y : Num) (dy : List Int) :
    dispatchTop (qopName op) [.qty x dx, .qty y dy] [] = (liftE (Qty.qtyOp op x dx y dy)).map ofQVal :=
  dispatch_qtyOp _ op x dx y dy

/-- **Array sum** (C12's `Arr.arraySum`): `sum` of an array of stored numbers is the fold the
    aggregate model describes. -/
theorem PIPE_array_sum (xs : List Num) (hc : ∀ x ∈ xs, Canon x) :
    dispatchTop "sum" [.arr (xs.map .num)] [] = liftN (Arr.arraySum xs) :=
  dispatch_sum _ xs hc

/-- **Interval literal and membership** (C07's `Intv.make`, `Intv.inI`, `Intv.contains` at `Rat`): on
    every numeric kind (comparisons are exact), `[a, b]` builds the interval the interval model
    describes — `a > b` collapses to `[0, 0]` — and `x in I`, `contains(I, x)` are its membership test. -/
theorem PIPE_interval (a b x : Num) :
    (∃ lo hi, dispatchTop "interval" [.num a, .num b] [] = .ok (.intv lo hi)
        ∧ toIntv lo hi = Interval.Intv.make a.toRat b.toRat) ∧
    dispatchTop "in" [.num x, .intv a b] [] = .ok (.num (.int (Interval.Intv.inI x.toRat (toIntv a b)))) ∧
    dispatchTop "contains" [.intv a b, .num x] [] = .ok (.num (.int (Interval.Intv.contains (toIntv a b) x.toRat))) :=
  ⟨dispatch_interval _ a b, (dispatch_in_interval _ x a b).1, (dispatch_in_interval _ x a b).2⟩

/-! ### non-vacuity: concrete programs through the whole pipeline, evaluated by the kernel -/

/-- `(1 + 2) * 3 / 4 - abs(-5)` as a C01 tree -/
private def sampleA : AExp :=
  .bin .sub (.bin .div (.bin .mul (.bin .add (.lit 1) (.lit 2)) (.lit 3)) (.lit 4)) (.un .abs (.un .neg (.lit 5)))

example : (evalA sampleA).toOption.map Num.render = some "q:-11/4" := by decide +kernel
example : (renderMin (.stmts [embed sampleA])).map (·.tag.render) =
    ["(", "number", "+", "number", ")", "*", "number", "/", "number", "-", "identifier", "(", "-", "number", ")"] := by decide
example : (numOutcome (evalA sampleA)).render = "ok -2 3/4     (-2.75)\n" := by decide +kernel
/-- `powersModelled` holds for ordinary powers and fails only for astronomically large ones -/
example : powersModelled (.bin .pow (.lit 7) (.lit 1000)) = true ∧ powersModelled sampleA = true
    ∧ powersModelled (.bin .pow (.lit 7) (.sci 1 30)) = false := by decide +kernel

/-- `(1 + 2) * 3`, and the tokens of the text `( 1+2 ) *3` -/
private def sampleB : AExp := .bin .mul (.bin .add (.lit 1) (.lit 2)) (.lit 3)
private def toksB : List Token := [⟨.const "(", 0, 1, .none⟩, ⟨.num, 2, 3, .num (.int 1)⟩, ⟨.const "+", 3, 4, .none⟩,
  ⟨.num, 4, 5, .num (.int 2)⟩, ⟨.const ")", 6, 7, .none⟩, ⟨.const "*", 8, 9, .none⟩, ⟨.num, 9, 10, .num (.int 3)⟩]
set_option maxRecDepth 100000 in
/-- hypotheses of `PIPE_text_arith_lexed` are satisfiable: a text with irregular whitespace -/
example : Lexer.tokenise "( 1+2 ) *3".toList = .ok toksB ∧ toksB.map PTok.ofToken = rNat noExtra (.stmts [embed sampleB])
    ∧ "( 1+2 ) *3".toList.all Lexer.inAlphabet = true ∧ hugeExponent "( 1+2 ) *3".toList = false
    ∧ powersModelled sampleB = true := ⟨by rfl, by rfl, by decide +kernel, by decide +kernel, by decide +kernel⟩

/-- hypotheses of `PIPE_statements` are satisfiable: `x = 2; y = x * 3; x + y` -/
example : ∀ s ∈ [Session.Stmt.assign "x" (.lit 2), .assign "y" (.mul (.var "x") (.lit 3)), .expr (.add (.var "x") (.var "y"))],
    coreStmt s = true := by decide
example : ∀ x ∈ [Num.int 3, .int (-4)], Canon x := by intro x hx; simp at hx; rcases hx with rfl | rfl <;> rfl

set_option maxRecDepth 100000 in
example : (runText "x = 3!/2; {x*y : y in 1..3, y != 2}").render = "ok {3, 9}\n" := by decide +kernel
set_option maxRecDepth 100000 in
example : (runText "3 km + 2 m to cm").render = "ok 300200\n" := by decide +kernel
set_option maxRecDepth 100000 in
example : (runText "y = 2; {y : y in 1..3}; y").render = "ok 2\n" := by decide +kernel
set_option maxRecDepth 100000 in
example : (runText "sum({1 m, 25 cm}) < 2 m").render = "ok 1\n" := by decide +kernel
set_option maxRecDepth 100000 in
example : (runText "[1, 2] * 3 + 1/2").render = "ok [7/2, 13/2]\n" := by decide +kernel
set_option maxRecDepth 100000 in
example : (runText "C(5, 2) / 4").render = "ok 2 1/2     (2.5)\n" := by decide +kernel
set_option maxRecDepth 100000 in
example : (runText "1 m + 2 s").render = "err incompatible" := by decide +kernel
set_option maxRecDepth 100000 in
example : (runText "2 +").render = "err parse:3" := by decide +kernel
set_option maxRecDepth 100000 in
example : (runText "{1, 2} ? 3").render = "err lex:UnknownTokenError:7" := by decide +kernel
set_option maxRecDepth 100000 in
example : (runText "#2020-01-31# + 1").render = "ok 2020-02-01T00:00:00\n" := by decide +kernel
set_option maxRecDepth 100000 in
example : (match runText "now()" with | .unmodelled _ => true | _ => false) = true := by decide +kernel
set_option maxRecDepth 100000 in
example : ((runSession initialEnv false ["x = 1; 1/0", "x + 1"]).map (·.render)) = ["err divzero", "ok 2\n"] := by decide +kernel

end KaVerif
