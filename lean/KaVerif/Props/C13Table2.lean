import KaVerif.Gen.Units
import KaVerif.Lemmas.UnitsChecks
/-
  C13 — table fact, in its own file so that lake checks it in parallel with `C13Table.lean`
  (150 failing-then-prefixed lookups ≈ 35 s of kernel time).
-/
namespace KaVerif.Units.Table
open KaVerif.Units KaVerif.Gen.Units

set_option maxRecDepth 100000

/-- every prefix, by symbol on the symbol and by name on both names, is refused on every unit with an offset -/
theorem offsetRefuse : table.units.all (fun u => u.offNum == 0 || table.prefixes.all (fun p =>
    refusesPrefix table (p.sym ++ u.symbol) && refusesPrefix table (p.name ++ u.singular) &&
    (!u.hasPlural || refusesPrefix table (p.name ++ u.plural)))) = true := by decide +kernel

end KaVerif.Units.Table
