import KaVerif.Lemmas.DisplayLemmas
/-
  C15 — displayed text denotes the value; the re-entry text round-trips.
  Property theorems only; helper lemmas live in Lemmas/DisplayLemmas.lean,
  the model in Model/Display.lean.

  Text is `List Char`.  `names` are the base-unit names, `N` the configured precision (any int),
  `b` = brackets_for_frac.
-/
namespace KaVerif
open Display

/-- **C15 (integers print in full).**  For every integer, of any size, the displayed line and the
    re-entry text are its complete decimal expansion — the same characters as Lean's own
    `toString n` (`Nat.toDigits 10`) — and reading that text back digit by digit gives `n`. -/
theorem C15_int_full (names : List Text) (N : Int) (b : Bool) (n : Int) :
    displayResult names N b (.num (.int n)) = .ok (intText n ++ ['\n']) ∧
    stringify names N b (.num (.int n)) = .ok (intText n) ∧
    String.ofList (intText n) = toString n ∧
    readInt (intText n) = some n :=
  ⟨rfl, rfl, intText_eq_toString n, readInt_intText n⟩

/-- `precisionify_float` never fails, whatever the configured precision (out-of-range settings
    fall back to the default). -/
theorem C15_precision_total (N : Int) (x : Float) : ∃ t, precisionifyFloat N x = .ok t := by
  unfold precisionifyFloat fmtG
  have : ¬ usedPrecision N < 0 := by
    unfold usedPrecision defaultPrecision; split <;> omega
  simp only [this, if_false]
  split
  · exact ⟨_, rfl⟩
  · split
    · exact ⟨_, rfl⟩
    · split <;> exact ⟨_, rfl⟩

/-- `approximate_frac` never fails. -/
theorem C15_approx_total (N : Int) (q : Rat) : ∃ ap, approximateFrac N q = .ok ap := by
  unfold approximateFrac
  by_cases h : (Num.ratToFloat q).isFinite = true
  · simp only [h, if_true]; exact C15_precision_total N _
  · simp only [h]; exact ⟨_, rfl⟩

/-- **C15 (fractions).**  For every rational `q` (negative, whole part 0 or ≥ 1, any size) the
    displayed line is the mixed-or-plain text `t`, five spaces, and the decimal approximation in
    parentheses; and `t`, read as a person reads a mixed number (`-2 1/3` ↦ −(2 + 1/3)), is
    exactly `q`.  The line is always produced. -/
theorem C15_frac (names : List Text) (N : Int) (b : Bool) (q : Rat) :
    (∀ ap, approximateFrac N q = .ok ap →
      displayResult names N b (.num (.frac q)) =
        .ok (prettifyFrac q false ++ ' ' :: ("    (".toList ++ ap ++ [')']) ++ ['\n'])) ∧
    (∃ ap, approximateFrac N q = .ok ap) ∧
    readMixed (prettifyFrac q false) = some q := by
  refine ⟨?_, C15_approx_total N q, readMixed_prettifyFrac q⟩
  intro ap h
  simp [displayResult, displayNum, h, bind, Except.bind]

/-- **C15 (floats — rounding core).**  For a positive value `a` and precision `P ≥ 1` the
    mantissa/exponent pair `(m, e)` chosen by the `%g` model satisfies `10^(P-1) ≤ m < 10^P`
    (exactly `P` digits), and `m·10^(e-P+1)` is within half a unit of the `P`-th significant digit
    of `a` (`e₀ = ⌊log10 a⌋`, characterised by `10^e₀ ≤ a < 10^(e₀+1)`); `e` is `e₀`, or `e₀+1` when
    rounding carried into a new digit (`999999.5 ↦ 1e+06`). -/
theorem C15_float_round (P : Nat) (hP : 1 ≤ P) (a : Rat) (ha : 0 < a) :
    (10:ℚ) ^ (floorLog10 a) ≤ a ∧ a < (10:ℚ) ^ (floorLog10 a + 1) ∧
    10 ^ (P - 1) ≤ (sigDigits P a).1 ∧ (sigDigits P a).1 < 10 ^ P ∧
    |((sigDigits P a).1 : ℚ) * (10:ℚ) ^ ((sigDigits P a).2 - (P : ℤ) + 1) - a|
        ≤ 1 / 2 * (10:ℚ) ^ (floorLog10 a - (P : ℤ) + 1) ∧
    ((sigDigits P a).2 = floorLog10 a ∨
      ((sigDigits P a).2 = floorLog10 a + 1 ∧ (sigDigits P a).1 = 10 ^ (P - 1))) := by
  obtain ⟨h1, h2⟩ := floorLog10_spec ha
  obtain ⟨h3, h4, h5, h6⟩ := sigDigits_spec hP ha
  exact ⟨h1, h2, h3, h4, h5, h6⟩

/-- **C15 (floats — text assembly).**  Whatever layout `%g` picks (positional, with leading
    `0.000`, with padding zeros, or exponent notation `d.ddde±XX`), the characters printed for a
    non-zero `q` are a decimal numeral that reads back to exactly `±m·10^(e-P+1)`, they show at
    most `P` significant digits (`sigCount`: digits of the mantissa from the first non-zero one),
    and they are laid out from a digit string of at most `P` digits (trailing zeros stripped). -/
theorem C15_float_text (P : Nat) (hP : 1 ≤ P) (q : Rat) (hq : q ≠ 0) :
    readDecimal (fmtRat P q) =
      some ((if q < 0 then -1 else 1) *
        (((sigDigits P |q|).1 : ℚ) * (10:ℚ) ^ ((sigDigits P |q|).2 - (P : ℤ) + 1))) ∧
    sigCount (fmtRat P q) ≤ P ∧
    ∃ ds : Text, ds ≠ [] ∧ ds.length ≤ P ∧ (∀ c ∈ ds, c.isDigit = true) ∧
      fmtPos P |q| = layoutG P ds (sigDigits P |q|).2 := by
  refine ⟨fmtRat_reads hP hq, sigCount_fmtRat hP hq, ?_⟩
  obtain ⟨hne, hall, hlen, _⟩ := shown_digits hP (abs_pos.mpr hq)
  exact ⟨_, hne, hlen, hall, fmtPos_eq P |q|⟩

/-- **C15 (floats).**  For every configured precision `N` (any integer; `P = effDigits N` is the
    number of significant digits it means: 0 counts as 1, out-of-range settings mean the default 6)
    and every finite non-zero double `x`, `precisionify_float(x)` in the model is a decimal numeral
    whose value is within half a unit of the `P`-th significant digit of the exact value of `x`:
    `|readDecimal (fmt N x) − x| ≤ ½·10^(⌊log10|x|⌋ − P + 1)`, and it shows at most `P`
    significant digits. -/
theorem C15_float (N : Int) (x : Float)
    (hnan : x.isNaN = false) (hinf : x.isInf = false) (hz : (x == 0) = false)
    (hq : Num.floatToRat x ≠ 0) :
    let P : Nat := effDigits N
    let q := Num.floatToRat x
    ∃ t d, precisionifyFloat N x = .ok t ∧ readDecimal t = some d ∧ sigCount t ≤ P ∧
      |d - q| ≤ 1 / 2 * (10:ℚ) ^ (floorLog10 |q| - (P : ℤ) + 1) ∧
      (10:ℚ) ^ (floorLog10 |q|) ≤ |q| ∧ |q| < (10:ℚ) ^ (floorLog10 |q| + 1) := by
  intro P q
  have hu : 0 ≤ usedPrecision N := by
    unfold usedPrecision defaultPrecision; split <;> omega
  have hP : 1 ≤ P := by
    show 1 ≤ (if usedPrecision N = 0 then 1 else (usedPrecision N).toNat)
    split <;> omega
  have hfmt : precisionifyFloat N x = .ok (fmtRat P q) := by
    unfold precisionifyFloat fmtG
    have : ¬ usedPrecision N < 0 := not_lt.mpr hu
    simp only [this, if_false, hnan, hinf, hz, Bool.false_eq_true]
    rfl
  have hpos : 0 < |q| := abs_pos.mpr hq
  obtain ⟨h1, h2⟩ := floorLog10_spec hpos
  obtain ⟨_, _, h5, _⟩ := sigDigits_spec hP hpos
  refine ⟨_, _, hfmt, fmtRat_reads hP hq, sigCount_fmtRat hP hq, ?_, h1, h2⟩
  by_cases hn : q < 0
  · simp only [hn, if_true]
    rw [abs_of_neg hn] at h5 ⊢
    have : -1 * (((sigDigits P (-q)).1 : ℚ) * (10:ℚ) ^ ((sigDigits P (-q)).2 - (P : ℤ) + 1)) - q
        = -((((sigDigits P (-q)).1 : ℚ) * (10:ℚ) ^ ((sigDigits P (-q)).2 - (P : ℤ) + 1)) - -q) := by ring
    rw [this, abs_neg]; exact h5
  · simp only [hn, if_false, one_mul]
    rw [abs_of_nonneg (not_lt.mp hn)] at h5 ⊢
    exact h5

/-- **C15 (re-entry, exact numbers).**  The text the GUI offers for re-entry after an integer
    or a (non-integral) fraction result — `n`, `-n`, `(n/d)`, `(-n/d)` — is read by the number
    reader as `n`, `-(n)`, `n / d`, `(-(n)) / d`, and that expression evaluates in the C01 model of
    Ka's arithmetic to exactly the original value, of the same kind.
    PARTIAL: `readEntryNum` is a small reader for this sub-language, standing in for Ka's
    lexer + parser (C11/C02); arrays, intervals, quantities, strings and instants are covered
    structurally below and by re-evaluation on the real code (harness), not by proof. -/
theorem C15_reentry_exact_partial (names : List Text) (N : Int) (x : Num)
    (hx : (∃ n, x = .int n) ∨ (∃ q : Rat, x = .frac q ∧ q.den ≠ 1)) :
    ∃ t e, reentryText names N (.num x) = .ok t ∧ readEntryNum t = some e ∧ evalA e = .ok x := by
  rcases hx with ⟨n, rfl⟩ | ⟨q, rfl, hd⟩
  · exact ⟨intText n, _, rfl, readEntryNum_intText n, evalA_entry_int n⟩
  · exact ⟨'(' :: fracText q ++ [')'], _, rfl, readEntryNum_bracketed q hd, evalA_entry_frac q hd⟩

/-- **C15 (re-entry, quantities with exact magnitudes).**  The re-entry text of a quantity whose
    magnitude is an integer or a non-integral fraction is `<magnitude text> <unit text>` where the
    magnitude text (fractions in brackets — without them `1/3 m` would parse as `1/(3 m)`)
    evaluates, as in `C15_reentry_exact_partial`, to exactly the magnitude, and the unit text
    reads back to exactly the dimension vector.
    PARTIAL in the same sense: own readers instead of Ka's lexer/parser and unit lookup (C13). -/
theorem C15_reentry_qty_partial (names : List Text) (N : Int) (x : Num) (dim : List Int)
    (hx : (∃ n, x = .int n) ∨ (∃ q : Rat, x = .frac q ∧ q.den ≠ 1))
    (hg : GoodNames names) (hnd : names.Nodup) (hl : dim.length = names.length) :
    ∃ tm e, reentryText names N (.qty x dim) = .ok (tm ++ ' ' :: prettified names dim) ∧
      readEntryNum tm = some e ∧ evalA e = .ok x ∧
      readDim names (prettified names dim) = some dim := by
  rcases hx with ⟨n, rfl⟩ | ⟨q, rfl, hd⟩
  · exact ⟨intText n, _, rfl, readEntryNum_intText n, evalA_entry_int n,
      readDim_prettified names hg hnd dim hl⟩
  · exact ⟨'(' :: fracText q ++ [')'], _, rfl, readEntryNum_bracketed q hd, evalA_entry_frac q hd,
      readDim_prettified names hg hnd dim hl⟩

/-- **C15 (quantities, structural).**  A quantity is shown as its magnitude, one space, and the
    base-unit text `prettified names dim`; a fraction magnitude is shown as a mixed number (in
    brackets when `brackets_for_frac`), which reads back to the magnitude, followed by the decimal
    approximation with the same unit text.  The re-entry text is the magnitude's re-entry text
    (fractions bracketed), one space, the unit text.  The unit text, read word by word against the
    base-unit names (distinct non-empty words of letters), gives back exactly the dimension vector. -/
theorem C15_qty (names : List Text) (N : Int) (b : Bool) (mag : Num) (dim : List Int) :
    (∀ q ap, mag = .frac q → approximateFrac N q = .ok ap →
      displayResult names N b (.qty mag dim) =
        .ok (prettifyFrac q b ++ ' ' :: prettified names dim ++
              ("    (".toList ++ ap ++ ' ' :: prettified names dim ++ [')']) ++ ['\n']) ∧
      prettifyFrac q true = '(' :: prettifyFrac q false ++ [')'] ∧
      readMixed (prettifyFrac q false) = some q) ∧
    (∀ m, (∀ q, mag ≠ .frac q) → displayNum N mag = .ok m →
      displayResult names N b (.qty mag dim) = .ok (m ++ ' ' :: prettified names dim ++ ['\n'])) ∧
    (∀ m, stringifyNum N b mag = .ok m →
      stringify names N b (.qty mag dim) = .ok (m ++ ' ' :: prettified names dim)) ∧
    (GoodNames names → names.Nodup → dim.length = names.length →
      readDim names (prettified names dim) = some dim) := by
  refine ⟨?_, ?_, ?_, fun hg hnd hl => readDim_prettified names hg hnd dim hl⟩
  · rintro q ap rfl h
    refine ⟨?_, ?_, readMixed_prettifyFrac q⟩
    · simp [displayResult, h, bind, Except.bind]
    · simp [prettifyFrac]
  · intro m hnf h
    cases mag with
    | int n => simp [displayResult, h, bind, Except.bind]
    | frac q => exact absurd rfl (hnf q)
    | flt x => simp [displayResult, h, bind, Except.bind]
  · intro m h
    simp [stringify, h, bind, Except.bind]

/-- **C15 (arrays, element-wise).**  The text of an array — displayed or offered for re-entry —
    is `{`, the texts of its elements in order separated by `", "`, `}`; each piece is exactly the
    `stringify_result` text of the corresponding element (display: with brackets_for_frac off). -/
theorem C15_array (names : List Text) (N : Int) (b : Bool) (xs : List DVal) (ts : List Text)
    (h : stringifyList names N b xs = .ok ts) :
    stringify names N b (.arr xs) = .ok ('{' :: joinWith [',', ' '] ts ++ ['}']) ∧
    ts.length = xs.length ∧
    (∀ i (hi : i < xs.length) (hj : i < ts.length), stringify names N b xs[i] = .ok ts[i]) ∧
    (b = false → displayResult names N true (.arr xs) = .ok ('{' :: joinWith [',', ' '] ts ++ ['}', '\n'])) := by
  obtain ⟨hl, hel⟩ := stringifyList_spec names N b xs ts h
  refine ⟨?_, hl, hel, ?_⟩
  · simp [stringify, h, bind, Except.bind]
  · rintro rfl
    simp [displayResult, h, bind, Except.bind]

/-- **C15 (intervals, element-wise).**  An interval with exact bounds is shown — on display and
    in the re-entry text — as `[`, lower bound, `", "`, upper bound, `]`,
    where each bound's text (`n`, `-n`, `n/d`, `-n/d`) reads back to exactly that bound. -/
theorem C15_interval (names : List Text) (N : Int) (b : Bool) (x y : Num)
    (hx : x.isFloat = false) (hy : y.isFloat = false) :
    ∃ tx ty, stringifyNum N false x = .ok tx ∧ stringifyNum N false y = .ok ty ∧
      readMixed tx = some x.toRat ∧ readMixed ty = some y.toRat ∧
      stringify names N b (.intv x y) = .ok ('[' :: tx ++ ',' :: ' ' :: ty ++ [']']) ∧
      displayResult names N b (.intv x y) = .ok ('[' :: tx ++ ',' :: ' ' :: ty ++ [']', '\n']) := by
  have key : ∀ z : Num, z.isFloat = false →
      ∃ t, stringifyNum N false z = .ok t ∧ readMixed t = some z.toRat := by
    intro z hz
    cases z with
    | int n => exact ⟨intText n, rfl, readMixed_intText n⟩
    | frac q => exact ⟨fracText q, rfl, readMixed_fracText q⟩
    | flt f => simp [Num.isFloat] at hz
  obtain ⟨tx, h1, r1⟩ := key x hx
  obtain ⟨ty, h2, r2⟩ := key y hy
  -- exact bounds have one rendering only: the second rendering of fix d33389f (all digits for FLOAT bounds) is the same text
  have full : ∀ z : Num, z.isFloat = false → stringifyNumFull N z = stringifyNum N false z := by
    intro z hz
    cases z with
    | int n => rfl
    | frac q => rfl
    | flt f => simp [Num.isFloat] at hz
  refine ⟨tx, ty, h1, h2, r1, r2, ?_, ?_⟩
  · simp only [stringify, h1, h2, bind, Except.bind, full x hx, full y hy]
    split <;> rfl
  · simp [displayResult, stringify, h1, h2, bind, Except.bind]

/-- **C15 (intervals, re-entry text).**  The text offered for re-entry for an interval is one of two renderings: the bounds as
    displayed — and then what the tokeniser reads back from the two texts (`readsBack`: the nearest float of a text with a decimal
    point, the exact decimal otherwise) is in order, lower ≤ upper — or every float bound with all its 17 digits (fixes
    d33389f, 419b022: `[0.09999999, 1/10]` is NOT offered as `[0.1, 1/10]`, which reads back as the empty interval). -/
theorem C15_interval_reentry_ordered (names : List Text) (N : Int) (a b : Num) (t : Text)
    (h : stringify names N true (.intv a b) = .ok t) :
    (readsBack N a ≤ readsBack N b ∧ ∃ tx ty, stringifyNum N false a = .ok tx ∧ stringifyNum N false b = .ok ty ∧
        t = '[' :: tx ++ ',' :: ' ' :: ty ++ [']']) ∨
    (∃ tx ty, stringifyNumFull N a = .ok tx ∧ stringifyNumFull N b = .ok ty ∧ t = '[' :: tx ++ ',' :: ' ' :: ty ++ [']']) := by
  unfold stringify at h
  simp only [bind, Except.bind] at h
  cases hx : stringifyNum N false a with
  | error e => simp [hx] at h
  | ok tx =>
    cases hy : stringifyNum N false b with
    | error e => simp [hx, hy] at h
    | ok ty =>
      simp only [hx, hy] at h
      by_cases hc : readsBack N a > readsBack N b
      · right
        simp only [Bool.true_and, decide_eq_true hc, if_true] at h
        cases hx' : stringifyNumFull N a with
        | error e => simp [hx'] at h
        | ok ux =>
          cases hy' : stringifyNumFull N b with
          | error e => simp [hx', hy'] at h
          | ok uy =>
            simp only [hx', hy', Except.ok.injEq] at h
            exact ⟨ux, uy, rfl, rfl, h.symm⟩
      · left
        have hd : decide (readsBack N a > readsBack N b) = false := decide_eq_false hc
        simp only [Bool.true_and, hd, Bool.false_eq_true, if_false, Except.ok.injEq] at h
        exact ⟨Rat.not_lt.mp hc, tx, ty, rfl, rfl, h.symm⟩

/-- the two branches are both taken: `[1/3, 1/2]` keeps the displayed bounds; for `[1/10, 1/10]` … exact bounds never cross -/
example : readsBack 6 (.frac (1/3)) ≤ readsBack 6 (.frac (1/2)) := by decide +kernel

/-- **C15 (intervals, full-digit form).**  The full-digit rendering of a finite non-zero float bound (`"{:.16e}"`, fix a02f165) always
    has a decimal point — so the tokeniser reads it back as a float, never as an exact decimal (`2e-12` was the counterexample of
    the `{:.17g}` form) — and its mantissa has exactly 17 significant digits. -/
theorem C15_full_digits_have_point (x : Float) (hn : x.isNaN = false) (hi : x.isInf = false) (hz : (x == 0) = false)
    (hq : Num.floatToRat x ≠ 0) : '.' ∈ fmtE16 x := by
  unfold fmtE16
  simp only [hn, hi, hz, Bool.false_eq_true, if_false]
  set q := Num.floatToRat x with hqd
  set a : Rat := if q < 0 then -q else q with had
  have ha : 0 < a := by
    rw [had]
    split
    · rename_i h; linarith
    · rename_i h
      rcases lt_or_gt_of_ne hq with h' | h'
      · exact absurd h' h
      · exact h'
  obtain ⟨h1, h2, -, -⟩ := sigDigits_spec (P := 17) (by norm_num) ha
  have hlen : (natText (sigDigits 17 a).1).length = 17 := natText_length_eq (by norm_num) h1 h2
  obtain ⟨d, r, hdr⟩ : ∃ d r, natText (sigDigits 17 a).1 = d :: r := by
    cases hnt : natText (sigDigits 17 a).1 with
    | nil => rw [hnt] at hlen; simp at hlen
    | cons d r => exact ⟨d, r, rfl⟩
  have hr : r ≠ [] := by
    intro hr; rw [hdr, hr] at hlen; simp at hlen
  obtain ⟨d2, r2, hr2⟩ : ∃ d2 r2, r = d2 :: r2 := by
    cases r with
    | nil => exact absurd rfl hr
    | cons d2 r2 => exact ⟨d2, r2, rfl⟩
  show '.' ∈ (if q < 0 then ['-'] else []) ++ layoutExp (natText (sigDigits 17 a).1) (sigDigits 17 a).2
  rw [hdr, hr2]
  simp [layoutExp]

/-! ### non-vacuity -/

/-- `-7/3` is shown as `-2 1/3` -/
example : prettifyFrac (-7/3) false = "-2 1/3".toList := by decide +kernel

/-- the rounding hypotheses are satisfiable: 999999.5 at precision 6 carries into `1e+06` -/
example : sigDigits 6 (1999999/2) = (100000, 6) ∧ fmtRat 6 (1999999/2) = "1e+06".toList := by
  decide +kernel

/-- an exact tie rounds half-to-even: 2.5 ↦ `2`, 3.5 ↦ `4` at precision 1; 1234567.5 ↦ `1.23457e+06` -/
example : fmtRat 1 (5/2) = "2".toList ∧ fmtRat 1 (7/2) = "4".toList ∧
    fmtRat 6 (2469135/2) = "1.23457e+06".toList ∧ fmtRat 3 (-1/8192) = "-0.000122".toList := by
  decide +kernel

/-- the hypotheses on the base-unit names hold for Ka's `kg m s A K mol cd eur`, and the unit text
    of `kg m^2 s^-3 eur^-1` reads back -/
example : let names := ["kg", "m", "s", "A", "K", "mol", "cd", "eur"].map String.toList
    GoodNames names ∧ names.Nodup ∧
    prettified names [1, 2, -3, 0, 0, 0, 0, -1] = "kg m^2 s^-3 eur^-1".toList := by
  refine ⟨?_, by decide, by decide +kernel⟩
  intro nm hnm
  simp only [List.map_cons, List.map_nil, List.mem_cons, List.not_mem_nil, or_false] at hnm
  rcases hnm with h | h | h | h | h | h | h | h <;> subst h <;> exact ⟨by decide, by decide⟩

/-- the re-entry hypothesis is satisfiable: `(-7/3)` -/
example : (-7/3 : Rat).den ≠ 1 := by decide +kernel

end KaVerif
