import KaVerif.Lemmas.IntervalLemmas
/-
  C07 — interval arithmetic encloses every point; interval predicates mean "for all".

  The theorems are about `Model/Interval.lean` instantiated at an ARBITRARY linearly ordered
  field `α` (so at `ℚ`, which is what the driver executes — `C07_rat_model` — and at `ℝ`,
  Props/C07Real.lean).  All quantifiers are unbounded.
  `x ∈ I` is `I.a ≤ x ∧ x ≤ I.b`;  `I.WF` is `I.a ≤ I.b`.
-/
set_option linter.unusedSectionVars false
set_option linter.unusedSimpArgs false

open KaVerif.Interval KaVerif.Interval.Intv
namespace KaVerif

variable {α : Type} [Field α] [LinearOrder α] [IsStrictOrderedRing α]

/-- **C07 (tie).**  The model the driver runs (core `Rat`, core's own arithmetic and order
    instances, no Mathlib) *is* the `α := ℚ` instance of the generic model below. -/
theorem C07_rat_model : Intv.ratOps = Intv.fieldOps ℚ := rfl

/-- **C07 (lower ≤ upper).**  Every operation returns a well-formed interval: the `[x, y]`
    literal and `±`/`tol` from any two numbers, and — from a well-formed operand — `+ - * /` by a
    number (both operand orders where registered), `^`, unary `-`, `abs`, `log` with any base
    (`ln`, `log2`, `log10` are `log` with a fixed base), `min`, `max`; `size` is non-negative. -/
theorem C07_wf (F : Fns α) (I : Intv α) (hI : I.WF) (n x y : α) (e : Expo α) :
    (make x y).WF ∧ (fromBounds x y).WF ∧ (plusMinus x y).WF ∧
    (addN I n).WF ∧ (nAdd n I).WF ∧ (subN I n).WF ∧ (mulN I n).WF ∧ (nMul n I).WF ∧
    (∀ J, divIN I n = .ok J → J.WF) ∧
    (∀ J, powI F I e = .ok J → J.WF) ∧
    (flip I).WF ∧ (absI I).WF ∧
    (∀ base J, logI F I base = .ok J → J.WF) ∧ (∀ J, lnI F I = .ok J → J.WF) ∧
    (minIN I x).WF ∧ (maxIN I x).WF ∧ (nMin x I).WF ∧ (nMax x I).WF ∧
    (0 ≤ size I ∧ size I = I.b - I.a) := by
  have hmin : (minIN I x).WF := by
    unfold minIN; split_ifs with h1 h2
    · exact hI
    · exact le_refl _
    · exact (not_le.mp h2).le
  have hmax : (maxIN I x).WF := by
    unfold maxIN; split_ifs with h1 h2
    · exact le_refl _
    · exact hI
    · exact (not_le.mp h1).le
  refine ⟨?_, fromBounds_wf _ _, fromBounds_wf _ _, fromBounds_wf _ _, fromBounds_wf _ _,
    fromBounds_wf _ _, fromBounds_wf _ _, fromBounds_wf _ _, divIN_ok_wf I n, powI_ok_wf F I e,
    ?_, ?_, logI_ok_wf F I, logI_ok_wf F I F.e, hmin, hmax, hmin, hmax, ?_⟩
  · unfold make; split_ifs with h
    · exact h
    · exact le_refl _
  · exact neg_le_neg hI
  · show (if contains I 0 ≠ 0 then 0 else min (absN I.a) (absN I.b)) ≤ max (absN I.a) (absN I.b)
    split_ifs
    · rw [absN_eq_abs]; exact le_trans (abs_nonneg _) (le_max_left _ _)
    · exact min_le_max
  · have h : 0 ≤ I.b - I.a := sub_nonneg.mpr hI
    constructor
    · simp only [size, absN_eq_abs]; exact abs_nonneg _
    · simp only [size, absN_eq_abs, abs_of_nonneg h]

/-- **C07 (lower ≤ upper, sqrt).**  `sqrt` of a well-formed interval is well-formed whenever the
    square-root function used is monotone on the non-negative numbers. -/
theorem C07_wf_sqrt (F : Fns α) (hmono : MonotoneOn F.sqrt (Set.Ici 0)) (I J : Intv α) (hI : I.WF)
    (h : sqrtI F I = .ok J) : J.WF := by
  unfold sqrtI at h
  split_ifs at h with hneg
  have ha : 0 ≤ I.a := by simpa [hasNegative] using hneg
  have hb : 0 ≤ I.b := le_trans ha hI
  simp [sqrtN, not_lt.mpr ha, not_lt.mpr hb, bind, Except.bind] at h
  subst h
  exact hmono ha hb hI

/-- **C07 (the literal).**  `[a, b]` with `a ≤ b` has exactly the points between `a` and `b`;
    with `a > b` it is the code's `[0, 0]`. -/
theorem C07_make (a b x : α) :
    (a ≤ b → (x ∈ make a b ↔ a ≤ x ∧ x ≤ b)) ∧ (b < a → make a b = ⟨0, 0⟩) := by
  constructor
  · intro h; simp only [make, h, if_true]; exact Iff.rfl
  · intro h; simp only [make, not_le.mpr h, if_false]

/-- **C07 (enclosure, `+ - *` by a number, both operand orders).** -/
theorem C07_encl_linear (I : Intv α) (n x : α) (hx : x ∈ I) :
    x + n ∈ addN I n ∧ n + x ∈ nAdd n I ∧ x - n ∈ subN I n ∧ x * n ∈ mulN I n ∧ n * x ∈ nMul n I := by
  obtain ⟨h1, h2⟩ := hx
  have hadd : x + n ∈ addN I n := mem_fromBounds (Or.inl ⟨by linarith, by linarith⟩)
  have hmul : x * n ∈ mulN I n := by
    rcases le_total 0 n with hn | hn
    · exact mem_fromBounds (Or.inl ⟨mul_le_mul_of_nonneg_right h1 hn, mul_le_mul_of_nonneg_right h2 hn⟩)
    · exact mem_fromBounds (Or.inr ⟨mul_le_mul_of_nonpos_right h2 hn, mul_le_mul_of_nonpos_right h1 hn⟩)
  refine ⟨hadd, ?_, mem_fromBounds (Or.inl ⟨by linarith, by linarith⟩), hmul, ?_⟩
  · rw [add_comm]; exact hadd
  · rw [mul_comm]; exact hmul

/-- **C07 (enclosure, `/` by a number).**  A non-zero divisor of either sign gives an interval
    containing every quotient; a zero divisor is an error (ZeroDivisionError), never a value. -/
theorem C07_encl_div (I : Intv α) (n x : α) (hx : x ∈ I) :
    (n ≠ 0 → ∃ J, divIN I n = .ok J ∧ x / n ∈ J) ∧ (n = 0 → divIN I n = .error .divZero) := by
  obtain ⟨h1, h2⟩ := hx
  constructor
  · intro hn
    refine ⟨_, divIN_of_ne I hn, ?_⟩
    rcases lt_or_gt_of_ne hn with hneg | hpos
    · exact mem_fromBounds (Or.inr ⟨div_le_div_of_nonpos_of_le hneg.le h2, div_le_div_of_nonpos_of_le hneg.le h1⟩)
    · exact mem_fromBounds (Or.inl ⟨div_le_div_of_nonneg_right h1 hpos.le, div_le_div_of_nonneg_right h2 hpos.le⟩)
  · rintro rfl; exact divIN_zero I

/-- **C07 (enclosure, unary minus and abs).** -/
theorem C07_encl_neg_abs (I : Intv α) (x : α) (hx : x ∈ I) : -x ∈ flip I ∧ |x| ∈ absI I := by
  obtain ⟨h1, h2⟩ := hx
  refine ⟨⟨neg_le_neg h2, neg_le_neg h1⟩, ?_, ?_⟩
  · show (if contains I 0 ≠ 0 then 0 else min (absN I.a) (absN I.b)) ≤ |x|
    split_ifs with h0
    · exact abs_nonneg x
    · have h0' : ¬ (I.a ≤ 0 ∧ 0 ≤ I.b) := fun h => h0 (contains_ne_zero.mpr h)
      simp only [absN_eq_abs]
      rcases le_or_gt I.a 0 with ha | ha
      · have hb : I.b < 0 := by
          by_contra hb; exact h0' ⟨ha, not_lt.mp hb⟩
        refine le_trans (min_le_right _ _) ?_
        rw [abs_of_neg hb, abs_of_nonpos (le_trans h2 hb.le)]; linarith
      · refine le_trans (min_le_left _ _) ?_
        rw [abs_of_pos ha, abs_of_pos (lt_of_lt_of_le ha h1)]; exact h1
  · show |x| ≤ max (absN I.a) (absN I.b)
    simp only [absN_eq_abs]
    rcases abs_le_of_mem h1 h2 with h | h
    · exact le_trans h (le_max_left _ _)
    · exact le_trans h (le_max_right _ _)

/-- **C07 (enclosure, min and max with a number, both operand orders).** -/
theorem C07_encl_min_max (I : Intv α) (y x : α) (hx : x ∈ I) :
    min x y ∈ minIN I y ∧ min y x ∈ nMin y I ∧ max x y ∈ maxIN I y ∧ max y x ∈ nMax y I := by
  obtain ⟨h1, h2⟩ := hx
  have hmin : min x y ∈ minIN I y := by
    unfold minIN; split_ifs with c1 c2
    · rw [min_eq_left (le_trans h2 c1)]; exact ⟨h1, h2⟩
    · rw [min_eq_right (le_trans c2 h1)]; exact ⟨le_refl _, le_refl _⟩
    · exact ⟨le_min h1 (not_le.mp c2).le, min_le_right _ _⟩
  have hmax : max x y ∈ maxIN I y := by
    unfold maxIN; split_ifs with c1 c2
    · rw [max_eq_right (le_trans h2 c1)]; exact ⟨le_refl _, le_refl _⟩
    · rw [max_eq_left (le_trans c2 h1)]; exact ⟨h1, h2⟩
    · exact ⟨le_max_right _ _, max_le h2 (not_le.mp c1).le⟩
  refine ⟨hmin, ?_, hmax, ?_⟩
  · rw [min_comm]; exact hmin
  · rw [max_comm]; exact hmax

/-- **C07 (± and tol).**  `x ± y` (= `tol(x, y)`) is exactly the set of points within `|y|` of `x`
    (for a negative `y` too: the bounds are re-ordered). -/
theorem C07_pm (x y t : α) : t ∈ plusMinus x y ↔ |t - x| ≤ |y| := by
  unfold plusMinus
  rw [mem_fromBounds_iff, abs_le]
  rcases le_total 0 y with hy | hy
  · rw [abs_of_nonneg hy]
    constructor
    · rintro (⟨h1, h2⟩ | ⟨h1, h2⟩) <;> constructor <;> linarith
    · rintro ⟨h1, h2⟩; left; constructor <;> linarith
  · rw [abs_of_nonpos hy]
    constructor
    · rintro (⟨h1, h2⟩ | ⟨h1, h2⟩) <;> constructor <;> linarith
    · rintro ⟨h1, h2⟩; right; constructor <;> linarith

/-- **C07 (enclosure, integer powers).**  For every integer exponent `k` — even, odd, zero, and
    negative when zero is not in the interval — the power is accepted and the result contains
    `x ^ k` for every point `x`. -/
theorem C07_encl_pow_int (F : Fns α) (I : Intv α) (k : ℤ) (x : α) (hx : x ∈ I)
    (hk : 0 ≤ k ∨ ¬ (0:α) ∈ I) : ∃ J, powI F I (.int k) = .ok J ∧ x ^ k ∈ J := by
  obtain ⟨h1, h2⟩ := hx
  cases k with
  | ofNat m =>
    refine ⟨_, powI_int_nat F I m, ?_⟩
    rw [Int.ofNat_eq_natCast, zpow_natCast]
    split_ifs with h0
    · exact ⟨min0_le_pow m h1 h2, le_trans (pow_le_max m h1 h2) (le_max_left _ _)⟩
    · exact ⟨min_le_pow m h1 h2 h0, pow_le_max m h1 h2⟩
  | negSucc m =>
    have h0 : ¬ (0:α) ∈ I := by
      rcases hk with hk | hk
      · exact absurd hk (by simp)
      · exact hk
    refine ⟨_, powI_int_negSucc F (le_trans h1 h2) h0 m, ?_⟩
    obtain ⟨g1, g2, g0⟩ := inv_mem ⟨h1, h2⟩ h0
    have hval : x ^ (Int.negSucc m) = (1 / x) ^ (m + 1) := by
      rw [zpow_negSucc, one_div, inv_pow]
    rw [hval]
    constructor
    · show min _ _ ≤ _
      rw [min_comm]; exact min_le_pow (m + 1) g1 g2 g0
    · show _ ≤ max _ _
      rw [max_comm]; exact pow_le_max (m + 1) g1 g2

/-- **C07 (enclosure, non-integer powers).**  For a non-integer exponent `y` and an interval
    without negative numbers (zero excluded too when `y < 0`), the result contains `rpow x y` for
    every point, for ANY power function that is monotone in the base on `[0, ∞)` when `0 ≤ y`
    and antitone on `(0, ∞)` when `y < 0` (instantiated with `Real.rpow` in C07Real). -/
theorem C07_encl_pow_real (F : Fns α) (I : Intv α) (y x : α) (hx : x ∈ I)
    (hmono : 0 ≤ y → MonotoneOn (fun t => F.rpow t y) (Set.Ici 0))
    (hanti : y < 0 → AntitoneOn (fun t => F.rpow t y) (Set.Ioi 0))
    (ha : 0 ≤ I.a) (hy : 0 ≤ y ∨ 0 < I.a) :
    ∃ J, powI F I (.real y) = .ok J ∧ F.rpow x y ∈ J := by
  obtain ⟨h1, h2⟩ := hx
  have hx0 : 0 ≤ x := le_trans ha h1
  have hb0 : 0 ≤ I.b := le_trans hx0 h2
  have hneg : ¬ (hasNegative I = true ∧ (Expo.real y).isFractional = true) := by
    simp [hasNegative, not_lt.mpr ha]
  have pN : ∀ t : α, 0 ≤ t → (0 ≤ y ∨ 0 < t) → powN F t (.real y) = .ok (F.rpow t y) := by
    intro t ht hty
    have : ¬ (t = 0 ∧ y < 0) := by
      rintro ⟨rfl, hy'⟩
      rcases hty with h | h
      · exact absurd hy' (not_lt.mpr h)
      · exact lt_irrefl _ h
    simp [powN, not_lt.mpr ht, this]
  by_cases h0 : (0:α) ∈ I
  · -- zero inside: then a = 0, so y ≥ 0
    have hy0 : 0 ≤ y := by
      rcases hy with h | h
      · exact h
      · exact absurd h0.1 (not_le.mpr h)
    have hc : contains I 0 ≠ 0 := contains_ne_zero.mpr h0
    have hisneg : (Expo.real y).isNeg = false := by simp [Expo.isNeg, not_lt.mpr hy0]
    refine ⟨⟨min (min (F.rpow I.a y) (F.rpow I.b y)) (F.rpow 0 y),
             max (max (F.rpow I.a y) (F.rpow I.b y)) (F.rpow 0 y)⟩, ?_, ?_, ?_⟩
    · unfold powI
      simp only [hneg, if_false, hc, if_true, hisneg, pN I.a ha (Or.inl hy0), pN I.b hb0 (Or.inl hy0),
        pN 0 (le_refl _) (Or.inl hy0), bind, Except.bind, ne_eq, not_false_eq_true, Bool.false_eq_true]
    · exact le_trans (le_trans (min_le_left _ _) (min_le_left _ _)) (hmono hy0 ha hx0 h1)
    · exact le_trans (hmono hy0 hx0 hb0 h2) (le_trans (le_max_right _ _) (le_max_left _ _))
  · have hc : ¬ (contains I 0 ≠ 0) := fun h => h0 (contains_ne_zero.mp h)
    have hapos : 0 < I.a := lt_of_le_of_ne ha (fun h => h0 ⟨h ▸ le_refl _, hb0⟩)
    have hxpos : 0 < x := lt_of_lt_of_le hapos h1
    have hbpos : 0 < I.b := lt_of_lt_of_le hxpos h2
    refine ⟨fromBounds (F.rpow I.a y) (F.rpow I.b y), ?_, ?_⟩
    · unfold powI
      simp only [hneg, if_false, hc, pN I.a ha (Or.inr hapos), pN I.b hb0 (Or.inr hbpos),
        bind, Except.bind, fromBounds]
    · rcases le_or_gt 0 y with hy0 | hy0
      · exact mem_fromBounds (Or.inl ⟨hmono hy0 ha hx0 h1, hmono hy0 hx0 hb0 h2⟩)
      · exact mem_fromBounds (Or.inr ⟨hanti hy0 hxpos hbpos h2, hanti hy0 hapos hxpos h1⟩)

/-- **C07 (enclosure, sqrt).**  For ANY function that is monotone on the non-negative numbers
    (instantiated with `Real.sqrt` in C07Real), `sqrt` of an interval without negative numbers
    is accepted and contains the image of every point. -/
theorem C07_encl_sqrt (F : Fns α) (hmono : MonotoneOn F.sqrt (Set.Ici 0)) (I : Intv α) (x : α)
    (hx : x ∈ I) (ha : 0 ≤ I.a) : ∃ J, sqrtI F I = .ok J ∧ F.sqrt x ∈ J := by
  obtain ⟨h1, h2⟩ := hx
  have hx0 : 0 ≤ x := le_trans ha h1
  have hb0 : 0 ≤ I.b := le_trans hx0 h2
  refine ⟨⟨F.sqrt I.a, F.sqrt I.b⟩, ?_, hmono ha hx0 h1, hmono hx0 hb0 h2⟩
  simp [sqrtI, hasNegative, sqrtN, not_lt.mpr ha, not_lt.mpr hb0, bind, Except.bind]

/-- **C07 (enclosure, log with any valid base).**  For a base `> 0`, `≠ 1`, an interval of
    positive numbers, and ANY function `log · base` that is monotone or antitone on the positive
    numbers (`Real.logb`: monotone for base > 1, antitone for base < 1 — C07Real), the logarithm
    is accepted and contains the image of every point.  `ln`, `log2`, `log10` are this with the
    bases `F.e`, 2, 10. -/
theorem C07_encl_log (F : Fns α) (I : Intv α) (base x : α) (hx : x ∈ I) (ha : 0 < I.a)
    (hb : 0 < base) (hb1 : base ≠ 1)
    (hmono : MonotoneOn (fun t => F.log t base) (Set.Ioi 0) ∨ AntitoneOn (fun t => F.log t base) (Set.Ioi 0)) :
    ∃ J, logI F I base = .ok J ∧ F.log x base ∈ J := by
  obtain ⟨h1, h2⟩ := hx
  have hx0 : 0 < x := lt_of_lt_of_le ha h1
  have hb0 : 0 < I.b := lt_of_lt_of_le hx0 h2
  refine ⟨fromBounds (F.log I.a base) (F.log I.b base), ?_, ?_⟩
  · simp [logI, logN, not_le.mpr ha, not_le.mpr hb0, not_le.mpr hb, hb1, bind, Except.bind]
  · rcases hmono with hm | hm
    · exact mem_fromBounds (Or.inl ⟨hm ha hx0 h1, hm hx0 hb0 h2⟩)
    · exact mem_fromBounds (Or.inr ⟨hm hx0 hb0 h2, hm ha hx0 h1⟩)

/-- **C07 (rejection).**  Operations undefined somewhere on the operand are errors, never values:
    sqrt of an interval with a negative lower bound; log (any base, hence ln/log2/log10) of an
    interval reaching a non-positive number; log with base ≤ 0 or = 1; a negative power (integer or
    not) of an interval containing zero; a non-integer power of an interval with a negative lower
    bound; division by zero. -/
theorem C07_reject (F : Fns α) (I : Intv α) (hI : I.WF) :
    (I.a < 0 → sqrtI F I = .error .runtime) ∧
    (∀ base, I.a ≤ 0 → logI F I base = .error .runtime) ∧
    (∀ base, base ≤ 0 ∨ base = 1 → logI F I base = .error .runtime) ∧
    (∀ e : Expo α, (0:α) ∈ I → e.isNeg = true → powI F I e = .error .runtime) ∧
    (∀ y, I.a < 0 → powI F I (.real y) = .error .runtime) ∧
    divIN I 0 = .error .divZero := by
  refine ⟨?_, ?_, ?_, ?_, ?_, divIN_zero I⟩
  · intro h; simp [sqrtI, hasNegative, h]
  · intro base h
    unfold logI; split_ifs <;> rfl
  · intro base h
    unfold logI
    by_cases h1 : base ≤ 0
    · simp [h1]
    · have hb1 : base = 1 := h.resolve_left h1
      by_cases h2 : I.a ≤ 0
      · simp [h1, h2]
      · have h3 : ¬ I.b ≤ 0 := fun h3 => h2 (le_trans hI h3)
        simp [h1, h2, logN, hb1, bind, Except.bind]
  · intro e h0 he; exact powI_neg_zero_mem F h0 he
  · intro y h; simp [powI, hasNegative, h, Expo.isFractional]

/-- **C07 (predicates mean "for all").**  For well-formed intervals, each of `< <= > >=` between
    an interval and a number (either order) or two intervals is 1 exactly when the relation holds
    for ALL points (all pairs), and is 0 otherwise. -/
theorem C07_cmp_forall (r : Rel) (I J : Intv α) (hI : I.WF) (hJ : J.WF) (x : α) :
    (cmpIN r I x = 1 ↔ ∀ t ∈ I, r.holds t x) ∧
    (cmpNI r x I = 1 ↔ ∀ t ∈ I, r.holds x t) ∧
    (cmpII r I J = 1 ↔ ∀ s ∈ I, ∀ t ∈ J, r.holds s t) ∧
    (cmpIN r I x = 0 ∨ cmpIN r I x = 1) ∧ (cmpNI r x I = 0 ∨ cmpNI r x I = 1) ∧
    (cmpII r I J = 0 ∨ cmpII r I J = 1) := by
  have hIa := a_mem hI; have hIb := b_mem hI; have hJa := a_mem hJ; have hJb := b_mem hJ
  have h01 : (cmpIN r I x = 0 ∨ cmpIN r I x = 1) ∧ (cmpNI r x I = 0 ∨ cmpNI r x I = 1) ∧
      (cmpII r I J = 0 ∨ cmpII r I J = 1) := by
    cases r <;> exact ⟨b2i_01 _, b2i_01 _, b2i_01 _⟩
  refine ⟨?_, ?_, ?_, h01.1, h01.2.1, h01.2.2⟩ <;> cases r <;>
    simp only [cmpIN, cmpNI, cmpII, swap, intervalNum, numInterval, intervalInterval, Base.run,
      Rel.holds, b2i_eq_one, gt_iff_lt, ge_iff_le]
  -- Interval ? number
  · exact ⟨fun h t ht => lt_of_le_of_lt ht.2 h, fun h => h _ hIb⟩
  · exact ⟨fun h t ht => le_trans ht.2 h, fun h => h _ hIb⟩
  · exact ⟨fun h t ht => lt_of_lt_of_le h ht.1, fun h => h _ hIa⟩
  · exact ⟨fun h t ht => le_trans h ht.1, fun h => h _ hIa⟩
  -- number ? Interval
  · exact ⟨fun h t ht => lt_of_lt_of_le h ht.1, fun h => h _ hIa⟩
  · exact ⟨fun h t ht => le_trans h ht.1, fun h => h _ hIa⟩
  · exact ⟨fun h t ht => lt_of_le_of_lt ht.2 h, fun h => h _ hIb⟩
  · exact ⟨fun h t ht => le_trans ht.2 h, fun h => h _ hIb⟩
  -- Interval ? Interval
  · exact ⟨fun h s hs t ht => lt_of_le_of_lt hs.2 (lt_of_lt_of_le h ht.1), fun h => h _ hIb _ hJa⟩
  · exact ⟨fun h s hs t ht => le_trans hs.2 (le_trans h ht.1), fun h => h _ hIb _ hJa⟩
  · exact ⟨fun h s hs t ht => lt_of_le_of_lt ht.2 (lt_of_lt_of_le h hs.1), fun h => h _ hIa _ hJb⟩
  · exact ⟨fun h s hs t ht => le_trans ht.2 (le_trans h hs.1), fun h => h _ hIa _ hJb⟩

/-- **C07 (`x in I`).**  `x in I` (and `contains(I, x)`) is 1 exactly when lower ≤ x ≤ upper,
    and 0 otherwise. -/
theorem C07_in (x : α) (I : Intv α) :
    (inI x I = 1 ↔ x ∈ I) ∧ (contains I x = 1 ↔ x ∈ I) ∧
    (inI x I = 0 ∨ inI x I = 1) ∧ (contains I x = 0 ∨ contains I x = 1) :=
  ⟨b2i_mul_eq_one, b2i_mul_eq_one, b2i_mul_01 _ _, b2i_mul_01 _ _⟩

/-- **C07 (`==` and `!=` negate each other).**  `I == J` is 1 exactly when both bounds are equal
    and 0 otherwise; `I != J` is `1 − (I == J)`, so it is 1 exactly when `I == J` is 0. -/
theorem C07_eq_ne (I J : Intv α) :
    neqI I J = 1 - eqI I J ∧ (eqI I J = 1 ↔ (I.a = J.a ∧ I.b = J.b)) ∧
    (eqI I J = 0 ∨ eqI I J = 1) ∧ (neqI I J = 1 ↔ eqI I J = 0) ∧ (neqI I J = 0 ↔ eqI I J = 1) := by
  refine ⟨rfl, b2i_mul_eq_one, b2i_mul_01 _ _, ?_, ?_⟩ <;> unfold neqI <;> omega

/-! ### non-vacuity: the hypotheses are satisfiable, the guards are reachable -/

example : (2:ℚ) ∈ (make 1 3 : Intv ℚ) ∧ (make (1:ℚ) 3).WF := by
  simp only [make]; norm_num [Intv.mem_iff, Intv.WF]

example : ¬ (0:ℚ) ∈ (⟨1, 3⟩ : Intv ℚ) ∧ (0:ℚ) ∈ (⟨-1, 3⟩ : Intv ℚ) := by
  norm_num [Intv.mem_iff]

/-- an accepted negative power and a rejected one, computed by the executable model -/
example : ((Intv.ratOps.powI ⟨id, fun x _ => x, fun x _ => x, 0⟩ ⟨2, 4⟩ (.int (-2))).toOption.map
            (fun J => (J.a, J.b))) = some ((1/16 : Rat), (1/4 : Rat)) := by decide +kernel

example : (Intv.ratOps.powI ⟨id, fun x _ => x, fun x _ => x, 0⟩ ⟨-2, 4⟩ (.int (-2))).toOption.isNone = true := by
  decide +kernel

end KaVerif
