import KaVerif.Lemmas.ProbLemmas
import KaVerif.Gen.ProbTable

/-!
  C08 — event probabilities equal the distribution's mass on the condition as written.

  `P law w` is the model of `P(<comparison chain w>)`: the parser's rewriting of `>`/`>=` chains and the
  registered event constructors (generated tables `flips`, `labels`), then the row of the GENERATED decision
  table `KaVerif.Gen.ProbTable.rows` (symbolic execution of `eval_probability` / `DoubleEvent.probability`)
  evaluated on the law.  All theorems of the decision layer are about that generated table: an off-by-one
  edit in the Python code changes `Gen/ProbTable.lean` and the proofs below stop compiling.

  `w.holds k` is the condition exactly as the user wrote it (with the original `>` / `>=`, operands in the
  written order), evaluated for the outcome `X = k`.
-/

set_option linter.unusedSimpArgs false
set_option linter.unusedVariables false

namespace KaVerif
open Prob Finset Gen.ProbTable

namespace Prob

/-- `P(<chain>)` over the generated tables -/
abbrev P (law : Law) (w : Written) : Except PErr ℚ := probWritten flips labels rows law w

end Prob

variable {pmf cdf : ℤ → ℚ} {lo hi : ℤ}

/-! ## (2) the decision layer, discrete variables -/

/-- **C08 (2), single comparisons bounding X from above** — `X < t`, `X <= t`, `t > X`, `t >= X`, for ANY discrete
    law (pmf with lower bound `lo`, cdf = partial sums) and ANY rational threshold `t` (integer or not, inside, at
    the edge of or outside the support): the value computed through the generated table is the sum of the pmf over
    exactly the integers that satisfy the condition as written. -/
theorem C08_single_upper (h : IsLaw pmf cdf lo) (op : Op) (rvLeft : Bool) (hu : isUpper op rvLeft = true)
    (t : ℚ) (S : Finset ℤ) (hS : ∀ k, k ∈ S ↔ lo ≤ k ∧ (single op rvLeft t).holds k = true) :
    P (.disc pmf cdf) (single op rvLeft t) = .ok (∑ k ∈ S, pmf k) := by
  cases op <;> cases rvLeft <;> simp [isUpper] at hu <;>
    simp only [single, Written.holds, chain, Op.test, Term.value, List.map, Bool.and_true,
      decide_eq_true_eq, if_true, if_false, Bool.false_eq_true, gt_iff_lt, ge_iff_le] at hS <;>
    rw [P, single, probWritten_of_resolve rfl] <;> apply evalRow_disc
  · exact h.row_le_left (env := envOf _) (i := 1) S hS
  · exact h.row_lt_left (env := envOf _) (i := 1) S hS
  · exact h.row_lt_left (env := envOf _) (i := 1) S hS
  · exact h.row_le_left (env := envOf _) (i := 1) S hS

/-- **C08 (2), single comparisons bounding X from below** — `X > t`, `X >= t`, `t < X`, `t <= X`: the value is one
    minus the mass of the integers `≥ lo` that do NOT satisfy the written condition (a finite set); with total mass 1
    that is the mass of the condition (see `C08_single_finite` for finite supports). -/
theorem C08_single_lower (h : IsLaw pmf cdf lo) (op : Op) (rvLeft : Bool) (hl : isLower op rvLeft = true)
    (t : ℚ) (S : Finset ℤ) (hS : ∀ k, k ∈ S ↔ lo ≤ k ∧ ¬ ((single op rvLeft t).holds k = true)) :
    P (.disc pmf cdf) (single op rvLeft t) = .ok (1 - ∑ k ∈ S, pmf k) := by
  cases op <;> cases rvLeft <;> simp [isLower] at hl <;>
    simp only [single, Written.holds, chain, Op.test, Term.value, List.map, Bool.and_true,
      decide_eq_true_eq, if_true, if_false, Bool.false_eq_true, gt_iff_lt, ge_iff_le] at hS <;>
    rw [P, single, probWritten_of_resolve rfl] <;> apply evalRow_disc
  · exact h.row_le_right (env := envOf _) (i := 0) S hS
  · exact h.row_lt_right (env := envOf _) (i := 0) S hS
  · exact h.row_lt_right (env := envOf _) (i := 0) S hS
  · exact h.row_le_right (env := envOf _) (i := 0) S hS

/-- **C08 (2), `X = z`** (the registered signature takes an Integral): the value is `pmf z`, i.e. the mass of the
    integers `≥ lo` equal to `z` (nothing when `z` is below the support). -/
theorem C08_single_eq (h : IsLaw pmf cdf lo) (z : ℤ) (S : Finset ℤ)
    (hS : ∀ k, k ∈ S ↔ lo ≤ k ∧ (single .eq true (z : ℚ)).holds k = true) :
    P (.disc pmf cdf) (single .eq true (z : ℚ)) = .ok (∑ k ∈ S, pmf k) := by
  simp only [single, Written.holds, chain, Op.test, Term.value, List.map, Bool.and_true,
    decide_eq_true_eq, if_true] at hS
  rw [P, single, probWritten_of_resolve rfl]
  apply evalRow_disc
  exact h.row_eq (env := envOf _) (i := 1) rfl S hS

/-- `t = X`, and `X = t` for a non-integral `t`, have no registered signature: no number is delivered. -/
theorem C08_single_eq_rejected (law : Law) (t : ℚ) :
    P law (single .eq false t) = .error .noMatch
    ∧ (t.den ≠ 1 → P law (single .eq true t) = .error .noMatch) := by
  constructor
  · cases law <;> exact probWritten_of_resolve_error rfl
  · intro ht
    cases law
    · apply probWritten_of_resolve_error
      exact resolveRow_intOnly_reject (ops := [.eq]) (rev := false) (pos := 0) rfl rfl rfl rfl rfl rfl
        (by simp [single, Term.isInt, ht])
    · exact probWritten_of_resolve_error rfl

/-- **C08 (2), double comparisons** — `a op1 X op2 b` with both operators in `{<, <=}` or both in `{>, >=}` (the
    parser rewrites the latter into the former with the operands reversed), ANY discrete law, ANY rational `a`, `b`
    (also `a > b`, non-integers, outside the support): the value is the sum of the pmf over exactly the integers
    that satisfy both comparisons as written. -/
theorem C08_double (h : IsLaw pmf cdf lo) (o1 o2 : Op)
    (hdir : ((o1.forward && o2.forward) || (o1.backward && o2.backward)) = true)
    (a b : ℚ) (S : Finset ℤ) (hS : ∀ k, k ∈ S ↔ lo ≤ k ∧ (double o1 o2 a b).holds k = true) :
    P (.disc pmf cdf) (double o1 o2 a b) = .ok (∑ k ∈ S, pmf k) := by
  cases o1 <;> cases o2 <;> simp [Op.forward, Op.backward] at hdir <;>
    simp only [double, Written.holds, chain, Op.test, Term.value, List.map, Bool.and_true,
      decide_eq_true_eq, Bool.and_eq_true, gt_iff_lt, ge_iff_le] at hS <;>
    rw [P, double, probWritten_of_resolve rfl] <;> apply evalRow_disc
  · exact h.row_le_le (env := envOf _) (i := 0) (j := 2) S hS
  · exact h.row_le_lt (env := envOf _) (i := 0) (j := 2) S hS
  · exact h.row_lt_le (env := envOf _) (i := 0) (j := 2) S hS
  · exact h.row_lt_lt (env := envOf _) (i := 0) (j := 2) S hS
  · exact h.row_lt_lt (env := envOf _) (i := 0) (j := 2) S (fun k => by rw [hS k]; simp [envOf]; tauto)
  · exact h.row_le_lt (env := envOf _) (i := 0) (j := 2) S (fun k => by rw [hS k]; simp [envOf]; tauto)
  · exact h.row_lt_le (env := envOf _) (i := 0) (j := 2) S (fun k => by rw [hS k]; simp [envOf]; tauto)
  · exact h.row_le_le (env := envOf _) (i := 0) (j := 2) S (fun k => by rw [hS k]; simp [envOf]; tauto)

/-- chains mixing the directions (`a < X > b`, `a >= X < b`, …) are not rewritten and name no registered function -/
theorem C08_double_mixed_rejected (law : Law) (o1 o2 : Op)
    (hmix : ((o1.forward && o2.backward) || (o1.backward && o2.forward)) = true) (a b : ℚ) :
    P law (double o1 o2 a b) = .error .unknownFn := by
  cases o1 <;> cases o2 <;> simp [Op.forward, Op.backward] at hmix <;>
    cases law <;> exact probWritten_of_resolve_error rfl

/-- **C08 (2), closed form of the generated single rows** (no hypothesis on the law): which `cdf` call with which
    rounding each of the 8 written forms reaches. -/
theorem C08_single_closed_form (pmf cdf : ℤ → ℚ) (op : Op) (rvLeft : Bool) (hop : op ≠ .eq) (t : ℚ) :
    P (.disc pmf cdf) (single op rvLeft t) = .ok
      (match op, rvLeft with
       | .le, true | .ge, false => cdf ⌊t⌋
       | .lt, true | .gt, false => cdf (⌈t⌉ - 1)
       | .lt, false | .gt, true => 1 - cdf ⌊t⌋
       | _, _ => 1 - cdf (⌈t⌉ - 1)) := by
  cases op <;> cases rvLeft <;> simp at hop <;>
    rw [P, single, probWritten_of_resolve rfl] <;> apply evalRow_disc
  · exact evalD_oneSub_cdf (evalZ_ceil_pred _ _)
  · exact evalD_cdf (evalZ_floor_var _ _)
  · exact evalD_oneSub_cdf (evalZ_floor_var _ _)
  · exact evalD_cdf (evalZ_ceil_pred _ _)
  · exact evalD_cdf (evalZ_ceil_pred _ _)
  · exact evalD_oneSub_cdf (evalZ_floor_var _ _)
  · exact evalD_cdf (evalZ_floor_var _ _)
  · exact evalD_oneSub_cdf (evalZ_ceil_pred _ _)

/-- **C08 (2), finite support, all 8 single forms at once**: for a law with support `[lo, hi]` and total mass 1,
    every single comparison (either operator direction, either side, any rational threshold) has the probability
    `Σ pmf k` over exactly the `k` in the support that satisfy the condition as written. -/
theorem C08_single_finite (h : IsFiniteLaw pmf cdf lo hi) (op : Op) (rvLeft : Bool) (hop : op ≠ .eq) (t : ℚ) :
    P (.disc pmf cdf) (single op rvLeft t)
      = .ok (∑ k ∈ (Icc lo hi).filter (fun k => (single op rvLeft t).holds k = true), pmf k) := by
  rcases isUpper_or_isLower hop rvLeft with ⟨hu, _⟩ | ⟨hl, _⟩
  · obtain ⟨S, hS⟩ := exists_finset_of_bounded lo (fun k => (single op rvLeft t).holds k = true) ⌊t⌋
      (single_upper_bound hu t)
    rw [C08_single_upper h.toIsLaw op rvLeft hu t S hS, h.sum_restrict _ S hS]
  · obtain ⟨S, hS⟩ := exists_finset_of_bounded lo (fun k => ¬ ((single op rvLeft t).holds k = true)) ⌊t⌋
      (single_lower_bound hl t)
    rw [C08_single_lower h.toIsLaw op rvLeft hl t S hS, h.sum_restrict _ S hS,
      h.one_sub (fun k => (single op rvLeft t).holds k = true)]

/-- finite support: `P(X = z)` and the 8 double forms restricted to the support -/
theorem C08_eq_double_finite (h : IsFiniteLaw pmf cdf lo hi) :
    (∀ z : ℤ, P (.disc pmf cdf) (single .eq true (z : ℚ))
        = .ok (∑ k ∈ (Icc lo hi).filter (fun k => (single .eq true (z : ℚ)).holds k = true), pmf k))
    ∧ (∀ (o1 o2 : Op), ((o1.forward && o2.forward) || (o1.backward && o2.backward)) = true → ∀ a b : ℚ,
        P (.disc pmf cdf) (double o1 o2 a b)
          = .ok (∑ k ∈ (Icc lo hi).filter (fun k => (double o1 o2 a b).holds k = true), pmf k)) := by
  constructor
  · intro z
    obtain ⟨S, hS⟩ := exists_finset_of_bounded lo (fun k => (single .eq true (z : ℚ)).holds k = true) z
      (fun k hk => by
        simp [single, Written.holds, chain, Op.test, Term.value] at hk
        exact hk.le)
    rw [C08_single_eq h.toIsLaw z S hS, h.sum_restrict _ S hS]
  · intro o1 o2 hdir a b
    obtain ⟨S, hS⟩ := exists_finset_of_bounded lo (fun k => (double o1 o2 a b).holds k = true) _
      (double_bound hdir a b)
    rw [C08_double h.toIsLaw o1 o2 hdir a b S hS, h.sum_restrict _ S hS]

/-! ## (3) continuous variables -/

/-- **C08 (3), single comparisons, continuous variable with distribution function `F`**: the forms bounding `X`
    from above give `F t`, the forms bounding it from below `1 - F t` (strictness is irrelevant). -/
theorem C08_single_cont (F : ℚ → ℚ) (op : Op) (rvLeft : Bool) (hop : op ≠ .eq) (t : ℚ) :
    P (.cont F) (single op rvLeft t) = .ok (if isUpper op rvLeft = true then F t else 1 - F t) := by
  cases op <;> cases rvLeft <;> simp at hop <;>
    rw [P, single, probWritten_of_resolve rfl] <;> apply evalRow_cont <;>
    simp [PExpr.evalC, Arg.evalQ, envOf, isUpper]

/-- **C08 (3), double comparisons, continuous**: `a op1 X op2 b` (forward) is `max(F b - F a, 0)`, the backward chain
    `a op1 X op2 b` with `>`/`>=` is `max(F a - F b, 0)`. -/
theorem C08_double_cont (F : ℚ → ℚ) (o1 o2 : Op)
    (hdir : ((o1.forward && o2.forward) || (o1.backward && o2.backward)) = true) (a b : ℚ) :
    P (.cont F) (double o1 o2 a b)
      = .ok (if o1.forward = true then max (F b - F a) 0 else max (F a - F b) 0) := by
  cases o1 <;> cases o2 <;> simp [Op.forward, Op.backward] at hdir <;>
    rw [P, double, probWritten_of_resolve rfl] <;> apply evalRow_cont <;>
    simp [PExpr.evalC, Arg.evalQ, envOf, Op.forward, pyMax0_eq_max]

/-- … which is the difference of the distribution function when the bounds are in order and `F` is monotone. -/
theorem C08_double_cont_ordered (F : ℚ → ℚ) (hF : Monotone F) (o1 o2 : Op)
    (hdir : ((o1.forward && o2.forward) || (o1.backward && o2.backward)) = true) (a b : ℚ)
    (hab : if o1.forward = true then a ≤ b else b ≤ a) :
    P (.cont F) (double o1 o2 a b) = .ok (if o1.forward = true then F b - F a else F a - F b) := by
  rw [C08_double_cont F o1 o2 hdir a b]
  by_cases hf : o1.forward = true
  · simp only [if_pos hf] at hab ⊢
    rw [max_eq_left (sub_nonneg.mpr (hF hab))]
  · simp only [if_neg hf] at hab ⊢
    rw [max_eq_left (sub_nonneg.mpr (hF hab))]

/-! ## (4) consequences -/

/-- every row of the generated table, on a discrete law whose partial sums stay below 1, evaluates into [0, 1] -/
theorem C08_rows_range_disc (h : IsLaw pmf cdf lo) (h1 : ∀ n, cdf n ≤ 1) :
    ∀ row ∈ rows, row.disc = true → ∀ (env : ℕ → ℚ) (v : ℚ),
      row.expr.evalD pmf cdf env = some v → 0 ≤ v ∧ v ≤ 1 := by
  intro row hrow
  simp only [rows, List.mem_cons, List.not_mem_nil, or_false] at hrow
  rcases hrow with rfl | rfl | rfl | rfl | rfl | rfl | rfl | rfl | rfl | rfl | rfl | rfl | rfl | rfl | rfl | rfl | rfl <;>
    intro hd env v hv <;>
    first
      | exact Bool.noConfusion hd
      | exact h.range_cdf h1 hv
      | exact h.range_oneSub_cdf h1 hv
      | exact h.range_pmf h1 hv
      | exact h.range_double h1 hv

/-- every row of the generated table, on a continuous variable with `0 ≤ F ≤ 1`, evaluates into [0, 1] -/
theorem C08_rows_range_cont (F : ℚ → ℚ) (h0 : ∀ x, 0 ≤ F x) (h1 : ∀ x, F x ≤ 1) :
    ∀ row ∈ rows, row.disc = false → ∀ (env : ℕ → ℚ) (v : ℚ),
      row.expr.evalC F env = some v → 0 ≤ v ∧ v ≤ 1 := by
  intro row hrow
  simp only [rows, List.mem_cons, List.not_mem_nil, or_false] at hrow
  rcases hrow with rfl | rfl | rfl | rfl | rfl | rfl | rfl | rfl | rfl | rfl | rfl | rfl | rfl | rfl | rfl | rfl | rfl <;>
    intro hd env v hv <;>
    first
      | exact Bool.noConfusion hd
      | (simp only [PExpr.evalC, Option.map_some, Option.some.injEq, pyMax0_eq_max] at hv
         subst hv
         have a0 := h0 (Arg.evalQ env (.var 0)); have a1 := h1 (Arg.evalQ env (.var 0))
         have b0 := h0 (Arg.evalQ env (.var 1)); have b1 := h1 (Arg.evalQ env (.var 1))
         have c0 := h0 (Arg.evalQ env (.var 2)); have c1 := h1 (Arg.evalQ env (.var 2))
         first
           | exact ⟨by linarith, by linarith⟩
           | exact ⟨le_max_right _ _, max_le (by linarith) zero_le_one⟩)

/-- **C08 (4), range**: whatever comparison chain is written (ANY `w`: any operators, any operand order, any numbers),
    if `P` delivers a number for a discrete law with non-negative masses and partial sums ≤ 1 (total mass 1), or a
    continuous variable with `0 ≤ F ≤ 1`, that number lies in [0, 1]. -/
theorem C08_range (w : Written) (v : ℚ) :
    (∀ {pmf cdf : ℤ → ℚ} {lo : ℤ}, IsLaw pmf cdf lo → (∀ n, cdf n ≤ 1) →
        P (.disc pmf cdf) w = .ok v → 0 ≤ v ∧ v ≤ 1)
    ∧ (∀ F : ℚ → ℚ, (∀ x, 0 ≤ F x) → (∀ x, F x ≤ 1) → P (.cont F) w = .ok v → 0 ≤ v ∧ v ≤ 1) := by
  constructor
  · intro pmf cdf lo h h1 hv
    obtain ⟨row, terms, hmem, hd, he⟩ := probWritten_ok hv
    exact C08_rows_range_disc h h1 row hmem hd _ v (evalRow_disc_ok he)
  · intro F h0 h1 hv
    obtain ⟨row, terms, hmem, hd, he⟩ := probWritten_ok hv
    exact C08_rows_range_cont F h0 h1 row hmem hd _ v (evalRow_cont_ok he)

/-- **C08 (4), complement**: for every law whatsoever (discrete or continuous, no hypothesis), every strict / non-strict
    comparison on either side and every threshold: the event and its logical negation (`<` ↔ `>=`, `<=` ↔ `>`) both
    get a number and the two numbers sum to exactly 1. -/
theorem C08_complement (law : Law) (op : Op) (rvLeft : Bool) (hop : op ≠ .eq) (t : ℚ) :
    ∃ v v', P law (single op rvLeft t) = .ok v ∧ P law (single op.neg rvLeft t) = .ok v' ∧ v + v' = 1 := by
  cases law with
  | disc pmf cdf =>
    have hn : op.neg ≠ .eq := by cases op <;> simp [Op.neg] at hop ⊢
    refine ⟨_, _, C08_single_closed_form pmf cdf op rvLeft hop t,
      C08_single_closed_form pmf cdf op.neg rvLeft hn t, ?_⟩
    cases op <;> cases rvLeft <;> simp [Op.neg] at hop ⊢
  | cont F =>
    have hn : op.neg ≠ .eq := by cases op <;> simp [Op.neg] at hop ⊢
    refine ⟨_, _, C08_single_cont F op rvLeft hop t, C08_single_cont F op.neg rvLeft hn t, ?_⟩
    cases op <;> cases rvLeft <;> simp [Op.neg, isUpper] at hop ⊢

/-! ## (1) the distribution layer -/

/-- **C08 (1)**: for every discrete distribution with accepted parameters (Poisson: for any non-negative value of the
    constant `E` that stands for `exp(-mu)`), `cdf x` is the sum of `pmf k` over `lo ≤ k ≤ x` for EVERY integer `x`
    (below, inside and above the support), the pmf is non-negative and vanishes below `lo`. -/
theorem C08_dist_law (d : Dist) (hv : d.valid = true)
    (hE : ∀ mu E, d = .poisson mu E → 0 ≤ E) : IsLaw d.pmf d.cdf d.lo := by
  cases d with
  | binomial n p => exact (binomial_finite n p hv).toIsLaw
  | poisson mu E => exact poisson_law mu E hv (hE mu E rfl)
  | geometric p => exact geometric_law p hv
  | bernoulli p => exact (bernoulli_finite p hv).toIsLaw
  | uniformInt lo hi => exact (uniformInt_finite lo hi hv).toIsLaw

/-- **C08 (1), total mass**: Binomial, Bernoulli and UniformInt have no mass above `hi` and total mass exactly 1
    (Binomial: the binomial theorem with `utils.choose` proved equal to the binomial coefficient). -/
theorem C08_dist_finite (d : Dist) (hv : d.valid = true) (hi : ℤ) (hhi : d.hi = some hi) :
    IsFiniteLaw d.pmf d.cdf d.lo hi := by
  cases d with
  | binomial n p => simp only [Dist.hi, Option.some.injEq] at hhi; subst hhi; exact binomial_finite n p hv
  | poisson mu E => cases hhi
  | geometric p => cases hhi
  | bernoulli p => simp only [Dist.hi, Option.some.injEq] at hhi; subst hhi; exact bernoulli_finite p hv
  | uniformInt lo hi' => simp only [Dist.hi, Option.some.injEq] at hhi; subst hhi; exact uniformInt_finite lo hi' hv

/-- **C08 (1), Geometric**: the closed form `1 - (1-p)^x` the code uses IS the partial sum of the pmf (finite geometric
    sum; part of `C08_dist_law`), and it never exceeds 1. -/
theorem C08_geometric_cdf (p : ℚ) (hv : (Dist.geometric p).valid = true) (x : ℤ) :
    (Dist.geometric p).cdf x = ∑ k ∈ Icc 1 x, (Dist.geometric p).pmf k
    ∧ (Dist.geometric p).cdf x ≤ 1 :=
  ⟨(geometric_law p hv).cdf_eq x, geometric_cdf_le_one p hv x⟩

/-- `utils.choose(n, k)` is the binomial coefficient, `utils.factorial(n)` the factorial -/
theorem C08_choose_factorial (n k : ℕ) (hk : k ≤ n) :
    Prob.choose (n : ℤ) (k : ℤ) = (n.choose k : ℤ) ∧ Prob.factorial (n : ℤ) = (n.factorial : ℤ) :=
  ⟨choose_eq n k hk, factorial_natCast n⟩

/-! ## the headline: distributions × written events -/

/-- **C08, headline for the finite-support distributions** (Binomial, Bernoulli, UniformInt with accepted parameters):
    `P(X op t)`, `P(t op X)` for all of `<, <=, >, >=`, `P(X = z)`, and `P(a op1 X op2 b)` for all 8 double forms, with
    arbitrary rational thresholds, equal the sum of the distribution's pmf over exactly the integers of the support
    that satisfy the condition as written — computed through the parser's rewriting and the generated decision table. -/
theorem C08_dist_events (d : Dist) (hv : d.valid = true) (hi : ℤ) (hhi : d.hi = some hi) :
    (∀ (op : Op) (rvLeft : Bool), op ≠ .eq → ∀ t : ℚ,
        P d.law (single op rvLeft t)
          = .ok (∑ k ∈ (Icc d.lo hi).filter (fun k => (single op rvLeft t).holds k = true), d.pmf k))
    ∧ (∀ z : ℤ, P d.law (single .eq true (z : ℚ))
          = .ok (∑ k ∈ (Icc d.lo hi).filter (fun k => (single .eq true (z : ℚ)).holds k = true), d.pmf k))
    ∧ (∀ (o1 o2 : Op), ((o1.forward && o2.forward) || (o1.backward && o2.backward)) = true → ∀ a b : ℚ,
        P d.law (double o1 o2 a b)
          = .ok (∑ k ∈ (Icc d.lo hi).filter (fun k => (double o1 o2 a b).holds k = true), d.pmf k)) := by
  have h := C08_dist_finite d hv hi hhi
  exact ⟨fun op rvLeft hop t => C08_single_finite h op rvLeft hop t,
    (C08_eq_double_finite h).1, (C08_eq_double_finite h).2⟩

/-- **C08 (4), range, for the distributions**: every number `P` delivers for ANY written chain on a distribution with
    accepted parameters lies in [0, 1]  (Poisson: provided `E · Σ_{j≤n} mu^j/j! ≤ 1` for all `n`, which holds for
    `E = exp(-mu)`). -/
theorem C08_dist_range (d : Dist) (hv : d.valid = true)
    (hE : ∀ mu E, d = .poisson mu E → 0 ≤ E ∧ ∀ n, d.cdf n ≤ 1) (w : Written) (v : ℚ)
    (hP : P d.law w = .ok v) : 0 ≤ v ∧ v ≤ 1 := by
  have hlaw := C08_dist_law d hv (fun mu E he => (hE mu E he).1)
  have h1 : ∀ n, d.cdf n ≤ 1 := by
    cases d with
    | binomial n p => exact (binomial_finite n p hv).cdf_le_one
    | poisson mu E => exact (hE mu E rfl).2
    | geometric p => exact geometric_cdf_le_one p hv
    | bernoulli p => exact (bernoulli_finite p hv).cdf_le_one
    | uniformInt lo hi => exact (uniformInt_finite lo hi hv).cdf_le_one
  exact (C08_range w v).1 hlaw h1 hP

/-- **C08 (4), means**: `mean()`/`E()` is the expectation `Σ k · pmf k` over the support for Binomial, Bernoulli and
    UniformInt; Poisson returns its parameter; for Geometric the expectation over the outcomes `1..x` differs from the
    returned `1/p` by exactly the tail term `(1-p)^x (x + 1/p)`. -/
theorem C08_mean (d : Dist) (hv : d.valid = true) :
    (∀ hi, d.hi = some hi → ∑ k ∈ Icc d.lo hi, (k : ℚ) * d.pmf k = d.mean)
    ∧ (∀ mu E, d = .poisson mu E → d.mean = mu)
    ∧ (∀ p, d = .geometric p → ∀ x : ℕ,
        ∑ k ∈ Icc (1 : ℤ) x, (k : ℚ) * d.pmf k = d.mean - (1 - p) ^ x * ((x : ℚ) + 1 / p)) := by
  refine ⟨?_, ?_, ?_⟩
  · intro hi hhi
    cases d with
    | binomial n p =>
      simp only [Dist.hi, Option.some.injEq] at hhi; subst hhi
      have hn : 0 ≤ n := by
        simp only [Dist.valid, Bool.and_eq_true, Bool.not_eq_true', decide_eq_false_iff_not, not_le] at hv
        exact hv.1.le
      obtain ⟨m, rfl⟩ := Int.eq_ofNat_of_zero_le hn
      exact binomial_mean m p
    | poisson mu E => cases hhi
    | geometric p => cases hhi
    | bernoulli p => simp only [Dist.hi, Option.some.injEq] at hhi; subst hhi; exact bernoulli_mean p
    | uniformInt lo hi' => simp only [Dist.hi, Option.some.injEq] at hhi; subst hhi; exact uniformInt_mean lo hi' hv
  · rintro mu E rfl
    rfl
  · rintro p rfl x
    have hp : p ≠ 0 := by
      simp only [Dist.valid, Bool.not_eq_true', Bool.or_eq_false_iff, decide_eq_false_iff_not, not_le] at hv
      exact hv.1.ne'
    exact geometric_mean_partial p hp x

/-- **C08 (4), invalid parameters are rejected**: the constructors accept exactly the textbook parameter domains
    (`valid = false` is the model of `InvalidParameterException`). -/
theorem C08_invalid_params_rejected :
    (∀ d : Dist, d.valid = true ↔
      (match d with
       | .binomial n p => 0 < n ∧ 0 ≤ p ∧ p ≤ 1
       | .poisson mu _ => 0 < mu
       | .geometric p => 0 < p ∧ p ≤ 1
       | .bernoulli p => 0 ≤ p ∧ p ≤ 1
       | .uniformInt lo hi => lo ≤ hi))
    ∧ (∀ d : CDist, d.valid = true ↔
      (match d with
       | .exponential lam => 0 < lam
       | .uniform lo hi => lo ≤ hi
       | .gaussian _ sd => 0 < sd)) :=
  ⟨valid_iff, cvalid_iff⟩

/-- **C08 (3), the continuous distribution functions** are monotone with values in [0, 1]: Uniform outright;
    Exponential given that the abstract `exp` is monotone, non-negative and `exp 0 = 1`; Gaussian given that the abstract
    `erf` is monotone with values in [-1, 1] and `√2 > 0`.  (Hence `C08_double_cont_ordered` and `C08_range` apply.) -/
theorem C08_cdf_props (d : CDist) (hv : d.valid = true) (F : Fns)
    (hexp : Monotone F.exp ∧ (∀ y, 0 ≤ F.exp y) ∧ F.exp 0 = 1)
    (herf : Monotone F.erf ∧ (∀ y, -1 ≤ F.erf y) ∧ (∀ y, F.erf y ≤ 1) ∧ 0 < F.sqrt2) :
    Monotone (d.cdf F) ∧ ∀ x, 0 ≤ d.cdf F x ∧ d.cdf F x ≤ 1 := by
  cases d with
  | exponential lam => exact exponential_cdf_props lam hv F hexp.1 hexp.2.1 hexp.2.2
  | uniform lo hi => exact uniform_cdf_props lo hi hv F
  | gaussian mu sd => exact gaussian_cdf_props mu sd hv F herf.1 herf.2.1 herf.2.2.1 herf.2.2.2

/-! ## non-vacuity -/

/-- the hypotheses are satisfiable: concrete valid distributions -/
example : (Dist.binomial 10 (3/10)).valid = true ∧ (Dist.geometric (1/3)).valid = true
    ∧ (Dist.bernoulli 1).valid = true ∧ (Dist.uniformInt 3 3).valid = true ∧ (Dist.poisson 3 (1/20)).valid = true := by
  simp [Dist.valid]
  norm_num

/-- `IsFiniteLaw` / `IsLaw` are inhabited by the model's distributions -/
example : IsFiniteLaw (Dist.binomial 10 (3/10)).pmf (Dist.binomial 10 (3/10)).cdf 0 10 :=
  C08_dist_finite (.binomial 10 (3/10)) (by simp [Dist.valid]; norm_num) 10 rfl

/-- the finite sets `S` the general theorems quantify over exist for every law and threshold -/
example (lo : ℤ) (op : Op) (rvLeft : Bool) (hu : isUpper op rvLeft = true) (t : ℚ) :
    ∃ S : Finset ℤ, ∀ k, k ∈ S ↔ lo ≤ k ∧ (single op rvLeft t).holds k = true :=
  exists_finset_of_bounded lo _ ⌊t⌋ (single_upper_bound hu t)

example (lo : ℤ) (o1 o2 : Op) (hdir : ((o1.forward && o2.forward) || (o1.backward && o2.backward)) = true)
    (a b : ℚ) : ∃ S : Finset ℤ, ∀ k, k ∈ S ↔ lo ≤ k ∧ (double o1 o2 a b).holds k = true :=
  exists_finset_of_bounded lo _ _ (double_bound hdir a b)

/-- a concrete instance: `P(5/2 > Binomial(10, 3/10))` is the mass of `{0, 1, 2}` -/
example : P (Dist.binomial 10 (3/10)).law (single .gt false (5/2))
    = .ok (∑ k ∈ (Icc (0 : ℤ) 10).filter (fun k => (single .gt false (5/2)).holds k = true),
        (Dist.binomial 10 (3/10)).pmf k) :=
  (C08_dist_events (.binomial 10 (3/10)) (by simp [Dist.valid]; norm_num) 10 rfl).1 .gt false (by simp) (5/2)

/-- abstract functions satisfying the hypotheses of `C08_cdf_props` exist (a crude rational model) -/
example : ∃ F : Fns, (Monotone F.exp ∧ (∀ y, 0 ≤ F.exp y) ∧ F.exp 0 = 1)
    ∧ (Monotone F.erf ∧ (∀ y, -1 ≤ F.erf y) ∧ (∀ y, F.erf y ≤ 1) ∧ 0 < F.sqrt2) :=
  ⟨⟨fun _ => 1, fun _ => 0, 1⟩, ⟨monotone_const, fun _ => zero_le_one, rfl⟩,
    ⟨monotone_const, fun _ => by norm_num, fun _ => zero_le_one, zero_lt_one⟩⟩

end KaVerif
