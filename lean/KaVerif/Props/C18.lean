import KaVerif.Lemmas.SampleLemmas
/-
  C18 — samples stay in support, follow P(), reproducible from the seed.

  All statements are about `Model/Sample.lean`: the samplers as pure functions of the stream of
  uniform draws (one draw per `probability.unit()` call), over exact rationals — every double in
  [0,1) and every Ka parameter is one, so `∀ u : ℚ` covers every draw the code can see.
  What is NOT a theorem (see harness/props/C18.py): that `random.seed(k)` fixes the stream (the
  Mersenne Twister is the abstract function `seeded`), that `random.random()` is the only source
  (Gen/RandomSources, ast scan), IEEE rounding inside the samplers, the Dvoretzky–Kiefer–Wolfowitz
  band (statistical test), the Gaussian law (abstract `erfinv`) and the Binomial law (the count of `n`
  Bernoulli indicators over independent draws; product measure — stretch goal, not attempted).
  The inverse-transform theorems for Exponential and Geometric (real logarithm) are in Props/C18Real.lean.
-/
namespace KaVerif
open Sample

/-! ## support -/

/-- **C18 support, Bernoulli**: a sample is 0 or 1 (whatever the draw). -/
theorem C18_support_bernoulli (p u : ℚ) : bernoulli p u = 0 ∨ bernoulli p u = 1 :=
  bernoulli_cases p u

/-- **C18 support, Binomial**: the count over `n` successive draws lies in `[0, n]`, and exactly
    `n` draws are taken. -/
theorem C18_support_binomial (p : ℚ) (n : ℕ) (g : Gen) :
    0 ≤ (binomial p n g).1 ∧ (binomial p n g).1 ≤ n ∧ (binomial p n g).2 = { us := g.us, i := g.i + n } :=
  ⟨(binomial_range p n g).1, (binomial_range p n g).2, binomial_gen p n g⟩

/-- **C18 support, UniformInt**: for every draw `u ∈ [0,1)` the sample `min(hi, lo + ⌊u(hi-lo+1)⌋)` is an
    integer in `[lo, hi]`, and it equals `⌊lo + u(hi-lo+1)⌋` — the clamp never acts in exact arithmetic
    (the upper bound of the unclamped value needs `u < 1`). -/
theorem C18_support_uniformInt (lo hi : ℤ) (h : lo ≤ hi) (u : ℚ) (h0 : 0 ≤ u) (h1 : u < 1) :
    lo ≤ uniformInt lo hi u ∧ uniformInt lo hi u ≤ hi ∧
    uniformInt lo hi u = ⌊(lo : ℚ) + u * ((hi - lo + 1 : ℤ) : ℚ)⌋ :=
  ⟨(uniformInt_mem lo hi h u h0 h1).1, (uniformInt_mem lo hi h u h0 h1).2, uniformInt_eq_floor lo hi h u h0 h1⟩

/-- **C18 support, Uniform**: `lo ≤ lo + u(hi-lo) ≤ hi` for `u ∈ [0,1)`. -/
theorem C18_support_uniform (lo hi : ℚ) (h : lo ≤ hi) (u : ℚ) (h0 : 0 ≤ u) (h1 : u < 1) :
    lo ≤ uniform lo hi u ∧ uniform lo hi u ≤ hi :=
  uniform_mem lo hi u h h0 h1

/-- **C18 support, Poisson**: what the scan delivers is a natural number (for any `exp(-mu)`,
    any fuel), and it takes exactly one draw. -/
theorem C18_support_poisson (F : Fns) (mu : ℤ) (g : Gen) :
    (∀ x, ((Dist.poisson mu).sample F g).1 = some x → ∃ k : ℕ, x = (k : ℚ)) ∧
    ((Dist.poisson mu).sample F g).2 = { us := g.us, i := g.i + 1 } := by
  constructor
  · intro x hx
    simp only [Dist.sample, Sample.unit] at hx
    cases hk : Sample.poisson (mu : ℚ) (F.expNeg mu) F.fuel (g.us g.i) with
    | none => rw [hk] at hx; simp at hx
    | some k =>
      rw [hk] at hx
      exact ⟨k, by injection hx with hx; rw [← hx]; push_cast; rfl⟩
  · simp [Dist.sample, Sample.unit]

/-- **C18 support, Exponential**: `-ln(1-u)/λ ≥ 0` for every `u ∈ [0,1)`, `λ > 0`, for any `ln`
    that is non-positive on (0,1]. -/
theorem C18_support_exponential (ln : ℚ → ℚ) (hln : ∀ x, 0 < x → x ≤ 1 → ln x ≤ 0)
    (lam u : ℚ) (hl : 0 < lam) (h0 : 0 ≤ u) (h1 : u < 1) : 0 ≤ exponential ln lam u :=
  exponential_nonneg ln hln lam u hl h0 h1

/-- **C18 support, Geometric**: `⌈ln(1-u)/ln(1-p)⌉ ≥ 1` for every `u ∈ (0,1)`, `0 < p < 1`, for any
    `ln` that is negative on (0,1).  (At `u = 0` the quotient is 0 and the code returns 0 — outside
    the support; that single draw has probability 2⁻⁵³.  `p = 1` returns 1 without drawing.) -/
theorem C18_support_geometric (ln : ℚ → ℚ) (hln : ∀ x, 0 < x → x < 1 → ln x < 0)
    (p u : ℚ) (hp0 : 0 < p) (hp1 : p < 1) (h0 : 0 < u) (h1 : u < 1) : 1 ≤ geometric ln p u :=
  geometric_ge_one ln hln p u hp0 hp1 h0 h1

/-- **C18 support, every distribution object**: `rv.sample()` on a validly constructed variable,
    with the next draw in (0,1), delivers a value of the support. -/
theorem C18_support_sample (F : Fns) (hF : LnLaws F) (d : Dist) (hv : d.valid = true) (g : Gen)
    (h0 : 0 < g.us g.i) (h1 : g.us g.i < 1) : d.okVal (d.sample F g).1 := by
  cases d with
  | binomial n p =>
    simp only [Dist.valid, Bool.and_eq_true, decide_eq_true_eq] at hv
    have hr := binomial_range p n.toNat g
    refine ⟨(binomial p n.toNat g).1, rfl, hr.1, ?_⟩
    have : ((n.toNat : ℕ) : ℤ) = n := Int.toNat_of_nonneg (by omega)
    omega
  | poisson mu =>
    simp only [Dist.sample, Sample.unit]
    cases hk : Sample.poisson (mu : ℚ) (F.expNeg mu) F.fuel (g.us g.i) with
    | none => exact ⟨mu, rfl⟩
    | some k => exact ⟨(k : ℤ), rfl, Int.natCast_nonneg k⟩
  | geometric p =>
    simp only [Dist.valid, Bool.and_eq_true, decide_eq_true_eq] at hv
    simp only [Dist.sample]
    split
    · exact ⟨1, by norm_num, le_refl _⟩
    · rename_i hp
      have hp1 : p < 1 := lt_of_le_of_ne hv.2 hp
      exact ⟨_, rfl, geometric_ge_one F.ln hF.neg p _ hv.1 hp1 h0 h1⟩
  | bernoulli p =>
    simp only [Dist.sample, Sample.unit]
    rcases bernoulli_cases p (g.us g.i) with h | h
    · left; show ((bernoulli p (g.us g.i) : ℤ) : ℚ) = 0; rw [h]; norm_num
    · right; show ((bernoulli p (g.us g.i) : ℤ) : ℚ) = 1; rw [h]; norm_num
  | uniformInt lo hi =>
    simp only [Dist.valid, decide_eq_true_eq] at hv
    have hm := uniformInt_mem lo hi hv (g.us g.i) (le_of_lt h0) h1
    exact ⟨_, rfl, hm.1, hm.2⟩
  | exponential lam =>
    simp only [Dist.valid, decide_eq_true_eq] at hv
    exact exponential_nonneg F.ln hF.nonpos lam _ hv (le_of_lt h0) h1
  | uniform lo hi =>
    simp only [Dist.valid, decide_eq_true_eq] at hv
    exact uniform_mem lo hi _ hv (le_of_lt h0) h1
  | gaussian mu sd => trivial

/-! ## sample(X, n) -/

/-- **C18 count**: `sample(X, n)` returns exactly `n` values for `n ≥ 0` (none for `n < 0`),
    takes exactly `n · (draws per sample)` draws and leaves the stream itself untouched. -/
theorem C18_count (seeded : ℤ → Draws) (F : Fns) (d : Dist) (n : ℤ) (g : Gen) :
    ∃ xs, (Op.run seeded F (.sampleN d n) g).1 = .arr xs ∧
      xs.length = n.toNat ∧ (0 ≤ n → (xs.length : ℤ) = n) ∧ (n < 0 → xs = []) ∧
      (Op.run seeded F (.sampleN d n) g).2 = { us := g.us, i := g.i + n.toNat * d.cost } := by
  refine ⟨(sampleMany F d n.toNat g).1, rfl, sampleMany_length F d _ g, ?_, ?_, sampleMany_gen F d _ g⟩
  · intro hn; rw [sampleMany_length]; exact Int.toNat_of_nonneg hn
  · intro hn
    have : n.toNat = 0 := by omega
    rw [this]; rfl

/-! ## rand() -/

/-- **C18 rand range**: `rand()` is the next draw of the stream, so it lies in [0,1) whenever the
    generator's draws do; it takes one draw. -/
theorem C18_rand_range (seeded : ℤ → Draws) (F : Fns) (g : Gen) :
    Op.run seeded F .rand g = (.num (some (g.us g.i)), { us := g.us, i := g.i + 1 }) ∧
    (0 ≤ g.us g.i → g.us g.i < 1 → Op.okRes .rand (Op.run seeded F .rand g).1) := by
  refine ⟨rfl, fun h0 h1 => ?_⟩
  exact ⟨h0, h1⟩

/-! ## whole histories -/

/-- **C18 support, histories**: in every history of `rand()`, `seed(k)`, `sample(X)`, `sample(X,n)`
    over validly constructed variables, with all draws in (0,1): every `rand()` result is in [0,1),
    every sample is in the support of its distribution, every `sample(X,n)` has exactly `n` values
    (`n ≥ 0`; none for `n < 0`). -/
theorem C18_support_history (seeded : ℤ → Draws) (F : Fns) (hF : LnLaws F)
    (hseeded : ∀ k, GoodDraws (seeded k)) :
    ∀ (ops : List Op) (_ : ∀ op ∈ ops, op.validOp = true) (g : Gen) (_ : GoodDraws g.us),
      List.Forall₂ Op.okRes ops (run seeded F ops g).1 := by
  intro ops
  induction ops with
  | nil => intro _ g _; exact List.Forall₂.nil
  | cons op ops ih =>
    intro hv g hg
    rw [run_cons]
    have hvo := hv op (List.mem_cons_self)
    have hus : GoodDraws (op.run seeded F g).2.us := by
      cases op with
      | rand => exact hg
      | seed k => exact hseeded k
      | sample d => simp only [Op.run]; rw [sample_gen]; exact hg
      | sampleN d n => simp only [Op.run]; rw [sampleMany_gen]; exact hg
    refine List.Forall₂.cons ?_ (ih (fun o ho => hv o (List.mem_cons_of_mem _ ho)) _ hus)
    cases op with
    | rand => exact ⟨le_of_lt (hg g.i).1, (hg g.i).2⟩
    | seed k => trivial
    | sample d => exact C18_support_sample F hF d hvo g (hg g.i).1 (hg g.i).2
    | sampleN d n =>
      refine ⟨sampleMany_length F d _ g, ?_⟩
      have key : ∀ (m : ℕ) (g' : Gen), g'.us = g.us → ∀ v ∈ (sampleMany F d m g').1, d.okVal v := by
        intro m
        induction m with
        | zero => intro g' _ v hv'; simp [sampleMany] at hv'
        | succ m ihm =>
          intro g' hg' v hv'
          simp only [sampleMany, List.mem_cons] at hv'
          rcases hv' with rfl | hv'
          · have := hg g'.i
            rw [← hg'] at this
            exact C18_support_sample F hF d hvo g' this.1 this.2
          · exact ihm _ (by rw [sample_gen]; exact hg') v hv'
      exact key _ g rfl

/-- **C18 deterministic (results are a function of the draws alone, segment by segment)**:
    a seed-free history started at position `i` reads exactly the draws `i … i + totalCost - 1`:
    two generators that agree on that segment give identical results, and the generator ends at
    position `i + totalCost` on the same stream — where `totalCost` is computed from the
    operations alone (1 per `rand()`, draws-per-sample × n per `sample(X,n)`). -/
theorem C18_deterministic (seeded : ℤ → Draws) (F : Fns) (ops : List Op)
    (hs : ops.all (fun o => !o.isSeed) = true) (g g' : Gen) (hi : g.i = g'.i)
    (h : ∀ j, g.i ≤ j → j < g.i + totalCost ops → g.us j = g'.us j) :
    (run seeded F ops g).1 = (run seeded F ops g').1 ∧
    (run seeded F ops g).2 = { us := g.us, i := g.i + totalCost ops } :=
  ⟨run_local seeded F ops hs g g' hi h, run_gen seeded F ops hs g⟩

/-- **C18 deterministic (consecutive disjoint segments)**: a history `a ++ b` (no `seed` in `a`)
    gives `a`'s results on the segment `[i, i + totalCost a)` followed by `b`'s results computed
    from position `i + totalCost a` — the operations consume the stream in order, never sharing or
    skipping a draw. -/
theorem C18_segments (seeded : ℤ → Draws) (F : Fns) (a b : List Op)
    (ha : a.all (fun o => !o.isSeed) = true) (g : Gen) :
    (run seeded F (a ++ b) g).1 =
      (run seeded F a g).1 ++ (run seeded F b { us := g.us, i := g.i + totalCost a }).1 := by
  rw [run_append, run_gen seeded F a ha g]

/-- **C18 reproducible from the seed**: whatever was executed before (`pre`, from whatever
    generator state `g`), the results of everything after `seed(k)` are those of running the rest
    on the stream `seeded k` from position 0 — a function of `k` (and the operations) alone. -/
theorem C18_seed_resets (seeded : ℤ → Draws) (F : Fns) (pre ops : List Op) (k : ℤ) (g : Gen) :
    (run seeded F (pre ++ Op.seed k :: ops) g).1 =
      (run seeded F pre g).1 ++ Res.none :: (run seeded F ops { us := seeded k, i := 0 }).1 := by
  rw [run_append, run_cons]
  rfl

/-! ## inverse transform: the law of a sample under a uniform draw is the cdf `P()` reports -/

/-- **C18 inverse transform, Bernoulli**: for `u ∈ [0,1)`, `sample ≤ t ⟺ 1 - u ≤ F(t)` with `F` the
    code's `Bernoulli.cdf`; the reflected draw `1-u` is uniform on (0,1], so `P(sample ≤ t) = F(t)`.
    Also `sample = 1 ⟺ u < p` (an interval of length `p = pmf(1)`). -/
theorem C18_inverse_transform_bernoulli (p u : ℚ) (h0 : 0 ≤ u) (h1 : u < 1) (t : ℤ) :
    (bernoulli p u ≤ t ↔ 1 - u ≤ cdfBernoulli p t) ∧ (bernoulli p u = 1 ↔ u < p) := by
  refine ⟨?_, bernoulli_eq_one p u⟩
  unfold cdfBernoulli
  by_cases ht1 : t ≥ 1
  · simp only [ht1, if_true]
    constructor
    · intro _; linarith
    · intro _; have := bernoulli_le_one p u; omega
  · by_cases ht0 : t ≥ 0
    · simp only [ht1, ht0, if_false, if_true]
      have ht : t = 0 := by omega
      subst ht
      constructor
      · intro hle
        have hb : bernoulli p u ≠ 1 := by omega
        rw [Ne, bernoulli_eq_one] at hb
        linarith
      · intro hle
        have hb : ¬ (u < p) := by intro hlt; linarith
        rw [← bernoulli_eq_one] at hb
        rcases bernoulli_cases p u with h | h
        · omega
        · exact absurd h hb
    · simp only [ht1, ht0, if_false]
      constructor
      · intro hle; have := bernoulli_nonneg p u; omega
      · intro hle; linarith

/-- **C18 inverse transform, UniformInt**: for `u ∈ [0,1)` and every integer `t`:
    `sample ≤ t ⟺ u < F(t)` with `F` the code's `UniformInt.cdf` — so `P(sample ≤ t) = F(t)`. -/
theorem C18_inverse_transform_uniformInt (lo hi : ℤ) (h : lo ≤ hi) (u : ℚ) (h0 : 0 ≤ u) (h1 : u < 1)
    (t : ℤ) : uniformInt lo hi u ≤ t ↔ u < cdfUniformInt lo hi t := by
  have hm := uniformInt_mem lo hi h u h0 h1
  unfold cdfUniformInt
  by_cases hlt : t < lo
  · simp only [hlt, if_true]
    constructor
    · intro hle; omega
    · intro hu; linarith
  · by_cases hge : t ≥ hi
    · simp only [hlt, hge, if_false, if_true]
      constructor
      · intro _; exact h1
      · intro _; omega
    · simp only [hlt, hge, if_false]
      rw [uniformInt_le_iff lo hi h u h0 h1]
      have hw := uniformInt_width lo hi h
      have hpos : (0 : ℚ) < ((hi - lo + 1 : ℤ) : ℚ) := by linarith
      rw [lt_div_iff₀ hpos]
      push_cast
      constructor <;> intro hh <;> linarith

/-- **C18 inverse transform, Uniform** (`lo < hi`): for `u ∈ [0,1)` and every `t`:
    `sample < t ⟺ u < F(t)` with `F` the code's `Uniform.cdf` — so `P(sample < t) = F(t)`
    (`= P(sample ≤ t)`, the two events differ in the single draw `u = F(t)`). -/
theorem C18_inverse_transform_uniform (lo hi : ℚ) (h : lo < hi) (u : ℚ) (h0 : 0 ≤ u) (h1 : u < 1)
    (t : ℚ) : uniform lo hi u < t ↔ u < cdfUniform lo hi t := by
  have hm := uniform_mem lo hi u (le_of_lt h) h0 h1
  have hlt' := uniform_lt_hi lo hi u h h1
  unfold cdfUniform
  by_cases hlt : t < lo
  · simp only [hlt, if_true]
    constructor
    · intro hh; linarith
    · intro hh; linarith
  · by_cases hge : t ≥ hi
    · simp only [hlt, hge, if_false, if_true]
      constructor
      · intro _; exact h1
      · intro _; linarith
    · simp only [hlt, hge, if_false]
      have hpos : 0 < hi - lo := by linarith
      rw [lt_div_iff₀ hpos]
      unfold uniform
      constructor <;> intro hh <;> linarith

/-- the scan's running sum is the cdf `Poisson.cdf` computes (`exp(-mu)` factored out) -/
theorem C18_poisson_cdf_is_code_cdf (mu E : ℚ) (t : ℕ) : poissonCdf mu E t = cdfPoisson mu E t := by
  unfold cdfPoisson
  induction t with
  | zero => simp only [poissonCdf, poissonSeries, poissonPmf]; ring
  | succ t ih => simp only [poissonCdf, poissonSeries, poissonPmf, ih]; ring

/-- **C18 inverse transform, Poisson**: the scan returns `k` exactly when `k` is the least index
    whose cdf exceeds the draw (within the fuel); hence for `t` below the fuel
    `sample ≤ t ⟺ u < F(t)` with `F` the code's `Poisson.cdf` — for any non-negative `mu`, `E`. -/
theorem C18_inverse_transform_poisson (mu E u : ℚ) (hmu : 0 ≤ mu) (hE : 0 ≤ E) (fuel : ℕ) :
    (∀ k, poisson mu E fuel u = some k ↔
        (k < fuel ∧ u < cdfPoisson mu E k ∧ ∀ j, j < k → cdfPoisson mu E j ≤ u)) ∧
    (∀ t, t < fuel → ((∃ k, poisson mu E fuel u = some k ∧ k ≤ t) ↔ u < cdfPoisson mu E t)) := by
  constructor
  · intro k
    rw [poisson_spec]
    simp only [C18_poisson_cdf_is_code_cdf]
  · intro t ht
    simp only [← C18_poisson_cdf_is_code_cdf]
    constructor
    · rintro ⟨k, hk, hkt⟩
      rw [poisson_spec] at hk
      exact lt_of_lt_of_le hk.2.1 (poissonCdf_mono mu E hmu hE hkt)
    · intro hu
      have hex : ∃ m, u < poissonCdf mu E m := ⟨t, hu⟩
      classical
      refine ⟨Nat.find hex, ?_, Nat.find_min' hex hu⟩
      rw [poisson_spec]
      refine ⟨lt_of_le_of_lt (Nat.find_min' hex hu) ht, Nat.find_spec hex, fun j hj => ?_⟩
      exact not_lt.mp (Nat.find_min hex hj)

/-! ## non-vacuity -/

/-- the hypotheses of the history theorem are satisfiable: a law-abiding `ln`, draws in (0,1),
    valid variables -/
example : ∃ (F : Fns) (seeded : ℤ → Draws) (g : Gen) (ops : List Op),
    LnLaws F ∧ (∀ k, GoodDraws (seeded k)) ∧ GoodDraws g.us ∧ (∀ op ∈ ops, op.validOp = true) ∧ ops.length = 5 :=
  ⟨{ ln := fun x => x - 1, erfinv := id, sqrt2 := 1, expNeg := fun _ => 1 / 20, fuel := 100 },
   fun _ _ => 1 / 2, { us := fun _ => 1 / 3, i := 0 },
   [.rand, .seed 3, .sample (.geometric (1 / 2)), .sampleN (.uniformInt 1 6) 4, .sample (.poisson 3)],
   ⟨fun x _ h => by simp only; linarith, fun x _ h => by simp only; linarith⟩,
   fun _ _ => by norm_num, fun _ => by norm_num, by decide +kernel, rfl⟩

/-- the inverse-transform hypotheses are satisfiable and the samplers are not constant -/
example : uniformInt 1 6 (1 / 2) = 4 ∧ uniformInt 1 6 (5 / 6) = 6 ∧ bernoulli (1 / 3) (1 / 4) = 1
    ∧ poisson 3 (1 / 20) 100 (1 / 2) = some 3 := by decide +kernel

end KaVerif
