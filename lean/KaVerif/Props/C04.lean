import KaVerif.Model.Quantity
import KaVerif.Lemmas.NumLemmas
import Mathlib.Tactic.FieldSimp
import Mathlib.Tactic.Ring
/-
  C04 — magnitudes under units: linear/affine conversion, operand order respected.
  Exact regime: every unit involved has a rational factor (and offset), so every number is an
  `int` or a reduced `Fraction`; `canon q` is that canonical delivery of the rational q.
  (Float factors — deg, acre, eV, … — are compared by the correspondence within 1e-9.)
-/
namespace KaVerif
open Qty Units Num

theorem isExact_canon (q : Rat) : (canon q).isExact = true := by
  unfold canon; split <;> rfl

/-- raw Python `+ - *` on exact kinds stays exact and computes the rational result -/
theorem pyLin_exact (op : BinOp) (hop : op = .add ∨ op = .sub ∨ op = .mul) (a b : Num)
    (ha : a.isExact = true) (hb : b.isExact = true) :
    ∃ r, pyLin op a b = .ok r ∧ r.isExact = true ∧
      r.toRat = (match op with | .add => a.toRat + b.toRat | .sub => a.toRat - b.toRat | _ => a.toRat * b.toRat) := by
  cases a <;> cases b <;> simp only [isExact, Bool.false_eq_true] at ha hb <;>
  rcases hop with rfl | rfl | rfl <;>
  simp only [pyLin, toRat] <;>
  first
    | exact ⟨_, rfl, rfl, by simp [toRat]⟩
    | exact ⟨_, rfl, rfl, rfl⟩

/-- `simplify_number` on an exact kind delivers the canonical form of its value -/
theorem simplify_exact (r : Num) (h : r.isExact = true) : simplify r = .ok (canon r.toRat) := by
  cases r with
  | int n => simp [simplify, toRat, canon_intCast]
  | frac q => exact simplify_frac q
  | flt x => simp [isExact] at h

/-- **C04 (construction).** `x U` has base magnitude factor(U)·x + offset(U), delivered canonically
    (an integer when integral, else a reduced fraction — never a float) -/
theorem C04_make (t : UnitTable) (sig : Sig) (c : Composed) (hc : composeUnits t sig = .ok c)
    (hm : c.multiple.isExact = true) (ho : c.offset.isExact = true) (x : Num) (hx : x.isExact = true) :
    makeQuantity t (.num x) sig = .ok (.qty (canon (c.multiple.toRat * x.toRat + c.offset.toRat)) c.dim) := by
  obtain ⟨m1, h1, e1, v1⟩ := pyLin_exact .mul (Or.inr (Or.inr rfl)) c.multiple x hm hx
  obtain ⟨m2, h2, e2, v2⟩ := pyLin_exact .add (Or.inl rfl) m1 c.offset e1 ho
  simp only [makeQuantity, hc, h1, h2, simplify_exact m2 e2, bind, Except.bind]
  simp only at v1 v2
  rw [v2, v1]

/-- **C04 (conversion).** `q to V` maps the base magnitude back: (mag − offset(V)) / factor(V),
    canonical; a different dimension is rejected -/
theorem C04_to (t : UnitTable) (sig : Sig) (c : Composed) (hc : composeUnits t sig = .ok c)
    (mq oq : Rat) (hm : c.multiple = canon mq) (ho : c.offset = canon oq) (hmq : mq ≠ 0) (M : Rat) :
    convertQuantity t (.qty (canon M) c.dim) sig = .ok (.num (canon ((M - oq) / mq))) ∧
    ∀ d, d ≠ c.dim → ∃ e, convertQuantity t (.qty (canon M) d) sig = .error e := by
  constructor
  · simp only [convertQuantity, hc, bind, Except.bind, bne_self_eq_false, Bool.false_eq_true, if_false, hm, ho]
    have hs := binop_lin_canon .sub (Or.inr (Or.inl rfl)) M oq
    simp only at hs
    rw [hs]; simp only [binop_div_canon, hmq, if_false]
  · intro d hd
    have : (d != c.dim) = true := by simpa using hd
    exact ⟨.eval, by simp [convertQuantity, hc, bind, Except.bind, this]⟩

/-- **`x U to U` is x**, exactly, for every rational unit signature (affine ones included) -/
theorem C04_to_self (t : UnitTable) (sig : Sig) (c : Composed) (hc : composeUnits t sig = .ok c)
    (mq oq : Rat) (hm : c.multiple = canon mq) (ho : c.offset = canon oq) (hmq : mq ≠ 0) (x : Rat) :
    (makeQuantity t (.num (canon x)) sig >>= fun q => convertQuantity t q sig) = .ok (.num (canon x)) := by
  have h1 := C04_make t sig c hc (by rw [hm]; exact isExact_canon _) (by rw [ho]; exact isExact_canon _)
    (canon x) (isExact_canon x)
  rw [hm, ho, toRat_canon, toRat_canon, toRat_canon] at h1
  simp only [h1, bind, Except.bind]
  rw [(C04_to t sig c hc mq oq hm ho hmq (mq * x + oq)).1]
  congr 3; field_simp; ring

/-- **`(x U to V) V to U` is x**, exactly, for any two rational signatures of one dimension -/
theorem C04_roundtrip (t : UnitTable) (su sv : Sig) (cu cv : Composed)
    (hcu : composeUnits t su = .ok cu) (hcv : composeUnits t sv = .ok cv) (hd : cu.dim = cv.dim)
    (mu ou mv ov : Rat) (hmu : cu.multiple = canon mu) (hou : cu.offset = canon ou) (hu0 : mu ≠ 0)
    (hmv : cv.multiple = canon mv) (hov : cv.offset = canon ov) (hv0 : mv ≠ 0) (x : Rat) :
    (do let q ← makeQuantity t (.num (canon x)) su
        let y ← convertQuantity t q sv
        let q' ← makeQuantity t y sv
        convertQuantity t q' su) = .ok (.num (canon x)) := by
  have ex := isExact_canon
  have h1 := C04_make t su cu hcu (by rw [hmu]; exact ex _) (by rw [hou]; exact ex _) (canon x) (ex x)
  rw [hmu, hou, toRat_canon, toRat_canon, toRat_canon] at h1
  have h2 := (C04_to t sv cv hcv mv ov hmv hov hv0 (mu * x + ou)).1
  rw [← hd] at h2
  have h3 := C04_make t sv cv hcv (by rw [hmv]; exact ex _) (by rw [hov]; exact ex _)
    (canon ((mu * x + ou - ov) / mv)) (ex _)
  rw [hmv, hov, toRat_canon, toRat_canon, toRat_canon] at h3
  have h4 := (C04_to t su cu hcu mu ou hmu hou hu0 (mv * ((mu * x + ou - ov) / mv) + ov)).1
  rw [hd] at h4
  simp only [h1, h2, h3, h4, bind, Except.bind]
  congr 3; field_simp; ring

/-- **operand order is respected**: the magnitude of `a op b` is `mag a op mag b` in the written
    order, for quantity⋅quantity and for a number on either side (q − n, n − q, q / n, n / q) -/
theorem C04_operand_order (nbase : Nat) (x y : Rat) (d : Dim) :
    applyOp nbase .sub (.qty (canon x) d) (.qty (canon y) d) = .ok (.qty (canon (x - y)) d) ∧
    (y ≠ 0 → applyOp nbase .div (.qty (canon x) d) (.qty (canon y) d) = .ok (.qty (canon (x / y)) (Dim.sub d d))) ∧
    (y ≠ 0 → applyOp nbase .div (.qty (canon x) d) (.num (canon y)) = .ok (.qty (canon (x / y)) (Dim.sub d (Dim.zero nbase)))) ∧
    (y ≠ 0 → applyOp nbase .div (.num (canon x)) (.qty (canon y) d) = .ok (.qty (canon (x / y)) (Dim.sub (Dim.zero nbase) d))) ∧
    applyOp nbase .sub (.qty (canon x) (Dim.zero nbase)) (.num (canon y)) = .ok (.qty (canon (x - y)) (Dim.zero nbase)) ∧
    applyOp nbase .sub (.num (canon x)) (.qty (canon y) (Dim.zero nbase)) = .ok (.qty (canon (x - y)) (Dim.zero nbase)) := by
  have hs := binop_lin_canon .sub (Or.inr (Or.inl rfl)) x y
  simp only at hs
  refine ⟨?_, ?_, ?_, ?_, ?_, ?_⟩
  · simp [applyOp, qtyOp, numOp, hs, bind, Except.bind]
  · intro hy; simp [applyOp, qtyOp, numOp, binop_div_canon, hy, bind, Except.bind]
  · intro hy; simp [applyOp, qtyOp, numOp, binop_div_canon, hy, bind, Except.bind]
  · intro hy; simp [applyOp, qtyOp, numOp, binop_div_canon, hy, bind, Except.bind]
  · simp [applyOp, qtyOp, numOp, hs, bind, Except.bind]
  · simp [applyOp, qtyOp, numOp, hs, bind, Except.bind]

/-- **`q / 2` halves q** and keeps its dimension -/
theorem C04_halves (nbase : Nat) (x : Rat) (d : Dim) (hd : d.length = nbase) :
    applyOp nbase .div (.qty (canon x) d) (.num (.int 2)) = .ok (.qty (canon (x / 2)) d) := by
  have h2 : (Num.int 2) = canon 2 := by
    have := canon_intCast 2; simpa using this.symm
  have hz : Dim.sub d (Dim.zero nbase) = d := by
    subst hd
    induction d with
    | nil => rfl
    | cons a t ih =>
      simp only [Dim.sub, Dim.zero, List.length_cons, List.replicate_succ, List.zipWith_cons_cons, Int.sub_zero]
      congr 1
  rw [h2, (C04_operand_order nbase x 2 d).2.2.1 (by norm_num), hz]

/-- **conversion distributes over + and over multiplication by a number**, for offset-free units:
    (a U + b U) to V = (a U to V) + (b U to V) and (n·a U) to V = n·(a U to V), as rationals -/
theorem C04_linear (mu mv a b n : Rat) (hv : mv ≠ 0) :
    (mu * a + mu * b - 0) / mv = (mu * a - 0) / mv + (mu * b - 0) / mv ∧
    (n * (mu * a) - 0) / mv = n * ((mu * a - 0) / mv) := by
  constructor <;> field_simp <;> ring

/-- **conversion distributes over + and over multiplication by a number** on the model itself, for
    offset-free rational units U, V of one dimension: `(a U + b U) to V = (a U to V) + (b U to V)`
    and `(n * (a U)) to V = n * (a U to V)`, as Ka values (canonical numbers), not just as algebra -/
theorem C04_distributes (t : UnitTable) (su sv : Sig) (cu cv : Composed)
    (hcu : composeUnits t su = .ok cu) (hcv : composeUnits t sv = .ok cv) (hd : cu.dim = cv.dim)
    (mu mv : Rat) (hmu : cu.multiple = canon mu) (hou : cu.offset = canon 0)
    (hmv : cv.multiple = canon mv) (hov : cv.offset = canon 0) (hv0 : mv ≠ 0) (a b n : Rat)
    (hlen : cu.dim.length = t.baseUnits.length) :
    (do let qa ← makeQuantity t (.num (canon a)) su
        let qb ← makeQuantity t (.num (canon b)) su
        let s ← applyOp t.baseUnits.length .add qa qb
        convertQuantity t s sv)
      = (do let qa ← makeQuantity t (.num (canon a)) su
            let qb ← makeQuantity t (.num (canon b)) su
            let ya ← convertQuantity t qa sv
            let yb ← convertQuantity t qb sv
            applyOp t.baseUnits.length .add ya yb) ∧
    (do let qa ← makeQuantity t (.num (canon a)) su
        let p ← applyOp t.baseUnits.length .mul (.num (canon n)) qa
        convertQuantity t p sv)
      = (do let qa ← makeQuantity t (.num (canon a)) su
            let ya ← convertQuantity t qa sv
            applyOp t.baseUnits.length .mul (.num (canon n)) ya) := by
  have ex := isExact_canon
  have mk : ∀ x : Rat, makeQuantity t (.num (canon x)) su = .ok (.qty (canon (mu * x)) cu.dim) := by
    intro x
    have h := C04_make t su cu hcu (by rw [hmu]; exact ex _) (by rw [hou]; exact ex _) (canon x) (ex x)
    rw [hmu, hou, toRat_canon, toRat_canon, toRat_canon, add_zero] at h; exact h
  have cv' : ∀ M : Rat, convertQuantity t (.qty (canon M) cu.dim) sv = .ok (.num (canon (M / mv))) := by
    intro M
    have h := (C04_to t sv cv hcv mv 0 hmv hov hv0 M).1
    rw [← hd, sub_zero] at h; exact h
  have hadd : ∀ x y : Rat, binop .add (canon x) (canon y) = .ok (canon (x + y)) :=
    fun x y => binop_lin_canon .add (Or.inl rfl) x y
  have hmul : ∀ x y : Rat, binop .mul (canon x) (canon y) = .ok (canon (x * y)) :=
    fun x y => binop_lin_canon .mul (Or.inr (Or.inr rfl)) x y
  constructor
  · simp only [mk, cv', bind, Except.bind, applyOp, qtyOp, numOp, hadd, bne_self_eq_false, Bool.false_eq_true, if_false]
    congr 3; field_simp
  · have hz : Dim.add (Dim.zero t.baseUnits.length) cu.dim = cu.dim := by
      rw [← hlen]
      generalize cu.dim = d
      induction d with
      | nil => rfl
      | cons x xs ih =>
        simp only [Dim.add, Dim.zero, List.length_cons, List.replicate_succ, List.zipWith_cons_cons, Int.zero_add]
        congr 1
    simp only [mk, cv', bind, Except.bind, applyOp, qtyOp, numOp, hmul, hz]
    congr 3; field_simp

end KaVerif
